// Correspondence harness for property C20 (snapshot archives).
//
// For a set of base archives produced by consul's own writer it applies byte flips,
// truncations and member-level rewrites, feeds each damaged archive to consul's reader
// (plain tar through the verif hook, gzip-wrapped through snapshot.Read and snapshot.Verify),
// and records (a) what the reader returned and (b) the member-level view of the same bytes
// as Go's archive/tar presents it (a NEUTRAL view: every member the tar reader yields, whatever
// consul's reader would do with it), plus the stdlib answers the Coq model treats as external.
//
// Further phases (see fuzz.go, restore.go): metadata fuzzing with a reflect.DeepEqual oracle,
// direct tests of the hypotheses the theorems make about encoding/json, bufio.Scanner and
// fmt.Sscanf, and the real save/restore path (snapshot.New, snapshot.Restore) against an
// in-memory raft with a recording FSM.
package main

import (
	"archive/tar"
	"bufio"
	"bytes"
	"compress/gzip"
	"crypto/sha256"
	"encoding/base64"
	"encoding/hex"
	"encoding/json"
	"flag"
	"fmt"
	"io"
	"math/rand"
	"os"
	"reflect"
	"strings"
	"sync"

	"github.com/hashicorp/go-hclog"
	"github.com/hashicorp/raft"

	"github.com/hashicorp/consul/snapshot"
)

type Member struct {
	Name   string `json:"name"`
	Data   string `json:"data"` // hex
	Intact bool   `json:"intact"`
}

type DecEntry struct {
	Cur  int    `json:"cur"`
	Data string `json:"data"`
	Ok   bool   `json:"ok"`
	New  int    `json:"new"`
}

type Line struct {
	Ok     bool   `json:"ok"`
	Pre    string `json:"pre"`   // hex preimage of the digest, when known
	Known  bool   `json:"known"` // digest is the hash of a known byte string
	File   string `json:"file"`  // hex of the file token
	Digest string `json:"digest"`
}

type Expect struct {
	Ok    bool   `json:"ok"`
	Meta  int    `json:"meta"`
	State string `json:"state"`
	Err   int    `json:"err"`
	Msg   string `json:"msg,omitempty"`
}

// WriteInfo explains an archive consul's writer produced in the model's terms:
// write ord m s, with the stdlib's own encoding of m and its own rendering of the two lines.
type WriteInfo struct {
	Ord    bool   `json:"ord"`    // true: the meta.json line comes first
	Meta   int    `json:"meta"`   // id of the metadata struct handed to the writer
	Enc    string `json:"enc"`    // json.Encoder output for it (hex)
	State  string `json:"state"`  // the payload: the first Size bytes of the snapshot reader (hex)
	Sums   string `json:"sums"`   // the two "%x  %s\n" lines in the order ord (hex)
	Forced bool   `json:"forced"` // the SHA256SUMS member was rewritten by the harness into this order
}

type Case struct {
	Type      string                 `json:"type"` // "case"
	ID        int                    `json:"id"`
	Base      int                    `json:"base"` // index of the intact view this archive derives from
	Kind      string                 `json:"kind"`
	Gz        bool                   `json:"gz"`
	Archive   string                 `json:"archive,omitempty"`    // hex of the damaged bytes (oracle failures)
	ArchiveGz string                 `json:"archive_gz,omitempty"` // base64(gzip(bytes)) for the cases Coq evaluates
	Hdr       bool                   `json:"hdr"`
	Members   []Member               `json:"members"`
	Term      bool                   `json:"term"`
	Trailer   bool                   `json:"trailer"`
	Dec       []DecEntry             `json:"dec"`
	Sums      string                 `json:"sums"`
	Lines     []Line                 `json:"lines"`
	Scan      bool                   `json:"scan"` // bufio.Scanner ended with an error
	Write     *WriteInfo             `json:"write,omitempty"`
	Expect    Expect                 `json:"expect"`
	Oracle    string                 `json:"oracle"` // "" or the reason the direct oracle objects
	Sig       map[string]interface{} `json:"sig,omitempty"`
	Replay    interface{}            `json:"replay,omitempty"`
	Class     string                 `json:"class,omitempty"` // for accepted damaged archives: how the view differs
	ToCoq     bool                   `json:"to_coq"`
	OrigLen   int                    `json:"orig_state_len"`
}

// BaseView is the member view of an intact archive; damaged views are compared with it in Coq.
type BaseView struct {
	Type    string   `json:"type"` // "base"
	ID      int      `json:"id"`
	Members []Member `json:"members"`
}

type base struct {
	meta  raft.SnapshotMeta
	state []byte // the payload (first Size bytes of what the reader offered)
	tarb  []byte
	gzb   []byte
}

// metaKey identifies a metadata value exactly (Go syntax: distinguishes nil from empty slices and
// keeps the raw bytes of strings), unlike its JSON rendering.
func metaKey(m *raft.SnapshotMeta) string {
	return fmt.Sprintf("%#v", *m)
}

func mkBase(meta raft.SnapshotMeta, state []byte) (*base, error) {
	meta.Size = int64(len(state))
	var tb bytes.Buffer
	if err := snapshot.VerifWrite(&tb, &meta, bytes.NewReader(state)); err != nil {
		return nil, err
	}
	var gb bytes.Buffer
	zw := gzip.NewWriter(&gb)
	if err := snapshot.VerifWrite(zw, &meta, bytes.NewReader(state)); err != nil {
		return nil, err
	}
	if err := zw.Close(); err != nil {
		return nil, err
	}
	return &base{meta: meta, state: state, tarb: tb.Bytes(), gzb: gb.Bytes()}, nil
}

const integrityPrefix = "failed checking integrity of snapshot: "

// viewInfo: the stdlib's own error texts for the archive, used to classify consul's error exactly.
type viewInfo struct {
	sscanfErr  string // first Sscanf error over the scanned lines
	scanErr    string // bufio.Scanner error
	trailerErr string // what concludeGzipRead will report
}

// errCode maps the reader's error text to the model's enum; 99 = unrecognised (matches no
// outcome of the model, so it surfaces as a correspondence failure rather than being absorbed
// by a default).
func errCode(err error, v *viewInfo) int {
	s := err.Error()
	switch {
	case strings.HasPrefix(s, "failed to decompress snapshot: "):
		return 1
	case strings.Contains(s, "failed reading snapshot: "):
		return 2
	case strings.Contains(s, "failed to read snapshot metadata: "):
		return 3
	case strings.Contains(s, "failed to decode snapshot metadata: "):
		return 4
	case strings.Contains(s, "failed to read or write snapshot data: "):
		return 5
	case strings.Contains(s, "failed to read snapshot hashes: "):
		return 6
	case strings.Contains(s, "unexpected file "):
		return 7
	case strings.Contains(s, integrityPrefix+"list missing hash for "):
		return 9
	case strings.Contains(s, integrityPrefix+"hash check failed for "):
		return 10
	case strings.Contains(s, integrityPrefix+"file missing for "):
		return 11
	case strings.HasSuffix(s, " is not in the archive") && strings.Contains(s, integrityPrefix+"file "):
		return 13
	case v.scanErr != "" && strings.HasSuffix(s, integrityPrefix+v.scanErr):
		return 14
	case v.sscanfErr != "" && strings.HasSuffix(s, integrityPrefix+v.sscanfErr):
		return 8
	case v.trailerErr != "" && s == v.trailerErr:
		return 12
	default:
		return 99
	}
}

type metaIDs struct {
	ids map[string]int
}

func newMetaIDs() *metaIDs {
	return &metaIDs{ids: map[string]int{metaKey(&raft.SnapshotMeta{}): 0}}
}

func (m *metaIDs) id(s string) int {
	if v, ok := m.ids[s]; ok {
		return v
	}
	v := len(m.ids)
	m.ids[s] = v
	return v
}

// view builds the member-level view of a (possibly damaged) archive with the stdlib only.
// It is neutral: it lists every member archive/tar yields until Next fails or reports EOF.
func view(data []byte, gz bool, c *Case, known map[string][]byte, mids *metaIDs) *viewInfo {
	vi := &viewInfo{}
	var in io.Reader = bytes.NewReader(data)
	c.Hdr, c.Trailer = true, true
	c.Members, c.Dec, c.Lines = []Member{}, []DecEntry{}, []Line{}
	var zr *gzip.Reader
	if gz {
		var err error
		zr, err = gzip.NewReader(in)
		if err != nil {
			c.Hdr = false
			return vi
		}
		in = zr
	}
	tr := tar.NewReader(in)
	c.Term = true
	var accMeta, accState, accSums []byte
	cur := raft.SnapshotMeta{}
	decStopped := false
	for {
		hdr, err := tr.Next()
		if err == io.EOF {
			break
		}
		if err != nil {
			c.Term = false
			break
		}
		b, rerr := io.ReadAll(tr)
		m := Member{Name: hdr.Name, Data: hex.EncodeToString(b), Intact: rerr == nil}
		c.Members = append(c.Members, m)
		switch hdr.Name {
		case "meta.json":
			accMeta = append(accMeta, b...)
			if rerr == nil && !decStopped {
				curID := mids.id(metaKey(&cur))
				next := cur
				p := &next
				uerr := json.Unmarshal(b, &p)
				e := DecEntry{Cur: curID, Data: m.Data, Ok: uerr == nil}
				if uerr == nil {
					if p == nil {
						// JSON null: consul's local pointer becomes nil and the caller's struct
						// keeps its value; a later meta.json decodes into a struct nobody sees.
						// Under single faults the hash check refuses such an archive anyway.
						p = &next
					}
					cur = *p
					e.New = mids.id(metaKey(&cur))
				} else {
					decStopped = true // consul returns here: the decoder state is unobservable from now on
				}
				c.Dec = append(c.Dec, e)
			}
		case "state.bin":
			accState = append(accState, b...)
		case "SHA256SUMS":
			accSums = append(accSums, b...)
		}
	}
	if gz && c.Term {
		// What concludeGzipRead finds once the tar reader has seen the end of the archive.
		extra, err := io.ReadAll(zr)
		if err != nil {
			c.Trailer = false
			vi.trailerErr = err.Error()
		} else if len(extra) != 0 {
			c.Trailer = false
			vi.trailerErr = fmt.Sprintf("%d unread uncompressed bytes remain", len(extra))
		}
	}
	c.Sums = hex.EncodeToString(accSums)
	known[hex.EncodeToString(sum(accMeta))] = accMeta
	known[hex.EncodeToString(sum(accState))] = accState
	s := bufio.NewScanner(bytes.NewReader(accSums))
	for s.Scan() {
		sha := make([]byte, sha256.Size)
		var file string
		if _, err := fmt.Sscanf(s.Text(), "%x  %s", &sha, &file); err != nil {
			if vi.sscanfErr == "" {
				vi.sscanfErr = err.Error()
			}
			c.Lines = append(c.Lines, Line{Ok: false})
			continue
		}
		l := Line{Ok: true, File: hex.EncodeToString([]byte(file)), Digest: hex.EncodeToString(sha)}
		if pre, ok := known[l.Digest]; ok {
			l.Known = true
			l.Pre = hex.EncodeToString(pre)
		}
		c.Lines = append(c.Lines, l)
	}
	if err := s.Err(); err != nil {
		c.Scan = true
		vi.scanErr = err.Error()
	}
	return vi
}

func sum(b []byte) []byte {
	h := sha256.Sum256(b)
	return h[:]
}

type implResult struct {
	exp    Expect
	md     *raft.SnapshotMeta
	state  []byte
	incons string
}

// runImpl feeds the archive to consul's reader.
func runImpl(data []byte, gz bool, mids *metaIDs, vi *viewInfo) implResult {
	if !gz {
		var md raft.SnapshotMeta
		var out bytes.Buffer
		err := snapshot.VerifRead(bytes.NewReader(data), &md, &out)
		if err != nil {
			return implResult{exp: Expect{Ok: false, Err: errCode(err, vi), Msg: err.Error()}}
		}
		return implResult{exp: Expect{Ok: true, Meta: mids.id(metaKey(&md)), State: hex.EncodeToString(out.Bytes())},
			md: &md, state: out.Bytes()}
	}
	logger := hclog.NewNullLogger()
	f, md, err := snapshot.Read(logger, bytes.NewReader(data))
	vmd, verr := snapshot.Verify(bytes.NewReader(data))
	incons := ""
	if (err == nil) != (verr == nil) {
		incons = fmt.Sprintf("snapshot.Read and snapshot.Verify disagree: read=%v verify=%v", err, verr)
	} else if err != nil && errCode(err, vi) != errCode(verr, vi) {
		incons = fmt.Sprintf("snapshot.Read and snapshot.Verify fail differently: read=%v verify=%v", err, verr)
	} else if err == nil && metaKey(md) != metaKey(vmd) {
		incons = fmt.Sprintf("snapshot.Read and snapshot.Verify return different metadata: %#v vs %#v", *md, *vmd)
	}
	if err != nil {
		return implResult{exp: Expect{Ok: false, Err: errCode(err, vi), Msg: err.Error()}, incons: incons}
	}
	defer func() { f.Close(); os.Remove(f.Name()) }()
	st, _ := io.ReadAll(f)
	return implResult{exp: Expect{Ok: true, Meta: mids.id(metaKey(md)), State: hex.EncodeToString(st)},
		md: md, state: st, incons: incons}
}

type tmember struct {
	name string
	data []byte
	typ  byte   // 0 = regular file
	link string // link target for symlinks / hard links
}

func tarMembers(b []byte) []tmember {
	tr := tar.NewReader(bytes.NewReader(b))
	var out []tmember
	for {
		h, err := tr.Next()
		if err != nil {
			break
		}
		d, _ := io.ReadAll(tr)
		out = append(out, tmember{name: h.Name, data: d})
	}
	return out
}

func buildTar(ms []tmember) []byte {
	var b bytes.Buffer
	tw := tar.NewWriter(&b)
	for _, m := range ms {
		h := &tar.Header{Name: m.name, Mode: 0600, Size: int64(len(m.data))}
		if m.typ != 0 {
			h.Typeflag = m.typ
			h.Linkname = m.link
			if m.typ == tar.TypeXGlobalHeader {
				h.Name = ""
				h.Mode = 0
				h.PAXRecords = map[string]string{"comment": "x"}
			}
			if m.typ != tar.TypeReg {
				h.Size = 0
			}
		}
		if err := tw.WriteHeader(h); err != nil {
			panic(err)
		}
		if h.Size > 0 {
			tw.Write(m.data)
		}
	}
	tw.Close()
	return b.Bytes()
}

func gzipBytes(b []byte) []byte {
	var g bytes.Buffer
	zw := gzip.NewWriter(&g)
	zw.Write(b)
	zw.Close()
	return g.Bytes()
}

type mutation struct {
	kind string
	gz   bool
	data []byte
}

func membersOf(data []byte, gz bool) []Member {
	var c Case
	view(data, gz, &c, map[string][]byte{}, newMetaIDs())
	return c.Members
}

func sameMembers(a, b []Member) bool {
	if len(a) != len(b) {
		return false
	}
	for i := range a {
		if a[i] != b[i] {
			return false
		}
	}
	return true
}

// writeInfo explains the archive (written by consul's writer for meta/payload) in the model's
// terms, using only the stdlib: which line order the SHA256SUMS member has, the encoder's output,
// and the rendering of the two lines in that order. ok=false when the archive's sums member is
// neither of the two orders (then there is no explanation and the Coq check will fail).
func writeInfo(meta *raft.SnapshotMeta, payload []byte, ms []Member, mids *metaIDs) *WriteInfo {
	var eb bytes.Buffer
	json.NewEncoder(&eb).Encode(meta)
	lm := fmt.Sprintf("%x  %s\n", sum(eb.Bytes()), "meta.json")
	ls := fmt.Sprintf("%x  %s\n", sum(payload), "state.bin")
	w := &WriteInfo{Meta: mids.id(metaKey(meta)), Enc: hex.EncodeToString(eb.Bytes()), State: hex.EncodeToString(payload)}
	got := ""
	for _, m := range ms {
		if m.Name == "SHA256SUMS" {
			got = m.Data
		}
	}
	if got == hex.EncodeToString([]byte(ls+lm)) {
		w.Ord = false
		w.Sums = hex.EncodeToString([]byte(ls + lm))
	} else {
		w.Ord = true
		w.Sums = hex.EncodeToString([]byte(lm + ls))
	}
	return w
}

type emitter struct {
	w       *bufio.Writer
	id      int
	nbase   int
	seenCoq map[string]bool
	stats   map[string]int
}

func (e *emitter) line(v interface{}) {
	j, err := json.Marshal(v)
	if err != nil {
		panic(err)
	}
	e.w.Write(j)
	e.w.WriteByte('\n')
}

// newBase registers the member view of an intact archive and returns its index.
func (e *emitter) newBase(ms []Member) int {
	id := e.nbase
	e.nbase++
	e.line(&BaseView{Type: "base", ID: id, Members: ms})
	return id
}

// classify says how the view of an ACCEPTED damaged archive differs from the intact one.
func classify(baseMs, ms []Member) string {
	if sameMembers(baseMs, ms) {
		return "view-identical" // the damage is confined to bytes archive/tar + gzip ignore (padding, unused header bits)
	}
	cnt := map[string]int{}
	for _, m := range ms {
		cnt[m.Name]++
	}
	if len(ms) > len(baseMs) {
		return "extra-member-with-expected-name"
	}
	if len(ms) == len(baseMs) {
		same := 0
		for i := range ms {
			if ms[i] == baseMs[i] {
				same++
			}
		}
		if same == len(ms)-1 {
			for i := range ms {
				if ms[i] != baseMs[i] {
					return "member-data-altered:" + ms[i].Name
				}
			}
		}
		return "reordered"
	}
	return "other"
}

type origin struct {
	bi     int // base view index
	meta   *raft.SnapshotMeta
	state  []byte
	baseMs []Member
	write  *WriteInfo // only for intact archives
	fuzz   interface{}
	isFuzz bool
}

func (e *emitter) emit(o *origin, mu mutation, toCoq bool) *Case {
	mids := newMetaIDs()
	c := Case{Type: "case", ID: e.id, Base: o.bi, Kind: mu.kind, Gz: mu.gz, OrigLen: len(o.state)}
	e.id++
	known := map[string][]byte{}
	known[hex.EncodeToString(sum(o.state))] = o.state
	var eb bytes.Buffer
	json.NewEncoder(&eb).Encode(o.meta)
	known[hex.EncodeToString(sum(eb.Bytes()))] = eb.Bytes()
	origID := mids.id(metaKey(o.meta))
	vi := view(mu.data, mu.gz, &c, known, mids)
	r := runImpl(mu.data, mu.gz, mids, vi)
	c.Expect = r.exp
	intact := strings.HasPrefix(mu.kind, "identity")
	if intact {
		c.Write = o.write
		if c.Write != nil {
			w := *c.Write
			w.Meta = origID
			c.Write = &w
		}
	}
	// ---- direct oracle: stated on the implementation's behaviour only ----
	if r.incons != "" {
		c.Oracle = r.incons
	} else if r.exp.Ok {
		if !bytes.Equal(r.state, o.state) {
			c.Oracle = "accepted-with-altered-state"
		} else if metaKey(r.md) != metaKey(o.meta) {
			c.Oracle = "accepted-with-altered-metadata"
			if o.isFuzz {
				// an intact archive written for generated metadata: narrow structured signature.
				// cause: does the original hold a string that is not valid UTF-8?  read_back: is the value
				// read back exactly the original with every invalid byte replaced by U+FFFD and nothing else?
				c.Oracle = "roundtrip-metadata-differs"
				cause, rb := "other", "other"
				if !validMeta(o.meta) {
					cause = "invalid-utf8"
				}
				if reflect.DeepEqual(*r.md, coerceMeta(*o.meta)) {
					rb = "invalid-bytes-replaced-by-U+FFFD"
				}
				c.Sig = map[string]interface{}{"kind": "roundtrip-metadata-differs", "cause": cause, "read_back": rb}
				c.Replay = o.fuzz
			}
		} else {
			have := map[string]bool{}
			for _, m := range c.Members {
				have[m.Name] = true
			}
			for _, n := range []string{"meta.json", "state.bin", "SHA256SUMS"} {
				if !have[n] {
					c.Oracle = "accepted-without-member:" + n
				}
			}
			for n := range have {
				if n != "meta.json" && n != "state.bin" && n != "SHA256SUMS" {
					c.Oracle = "accepted-with-unexpected-member"
				}
			}
		}
		if !intact {
			c.Class = classify(o.baseMs, c.Members)
		}
	} else if intact {
		c.Oracle = "intact-archive-rejected: " + r.exp.Msg
	}
	if r.exp.Err == 99 {
		c.Oracle = "unrecognised-error: " + r.exp.Msg
	}
	c.Expect.Msg = ""
	if c.Oracle != "" && len(mu.data) <= 1<<16 {
		c.Archive = hex.EncodeToString(mu.data) // the replay of an oracle failure
	}
	if toCoq {
		// de-duplicate by what the model sees
		c.ToCoq = true
		key, _ := json.Marshal(struct {
			B int
			G bool
			H bool
			M []Member
			T bool
			R bool
			D []DecEntry
			S string
			L []Line
			C bool
			W *WriteInfo
			E Expect
		}{c.Base, c.Gz, c.Hdr, c.Members, c.Term, c.Trailer, c.Dec, c.Sums, c.Lines, c.Scan, c.Write, c.Expect})
		k := string(sum(key))
		if e.seenCoq[k] {
			c.ToCoq = false
		} else {
			e.seenCoq[k] = true
			if c.Archive == "" && len(mu.data) <= 1<<16 {
				// kept for the replay of a correspondence failure; archives are mostly padding
				c.ArchiveGz = base64.StdEncoding.EncodeToString(gzipBytes(mu.data))
			}
		}
	}
	// every archive is counted; only the ones Coq evaluates and the oracle failures are written out
	e.stats["total"]++
	e.stats["kind:"+kindClass(mu.kind, mu.gz)]++
	if c.Expect.Ok {
		e.stats["verdict:ok"]++
		if !intact {
			e.stats["accepted_damaged"]++
			e.stats["class:"+c.Class]++
		}
	} else {
		e.stats[fmt.Sprintf("verdict:%d", c.Expect.Err)]++
	}
	if c.ToCoq || c.Oracle != "" {
		e.line(&c)
	}
	return &c
}

// coqMask: the single-bit masks and FF
func coqMask(fl byte) bool {
	return fl == 0xFF || fl&(fl-1) == 0
}

// kindClass: "flip@12^01" -> "flip", "inject:evil.bin(1)t0@2+gz" -> "inject/gz"
func kindClass(kind string, gz bool) string {
	k := strings.TrimSuffix(kind, "+gz")
	for _, sep := range []string{"@", ":", "#"} {
		k = strings.SplitN(k, sep, 2)[0]
	}
	if gz {
		k += "/gz"
	}
	return k
}

// runBase generates, runs and records every fault of one base archive (its own emitter, id range
// and random stream: the bases are processed in parallel and merged in order).
func runBase(e *emitter, bi int, b *base, bases []*base, isSmall, thorough bool, rng *rand.Rand, masks, bigMasks []byte,
	orders map[string]int) []restoreItem {
	var restoreSet []restoreItem
	for _, gz := range []bool{false, true} {
		data := b.tarb
		if gz {
			data = b.gzb
		}
		baseMs := membersOf(data, gz)
		wi := writeInfo(&b.meta, b.state, baseMs, newMetaIDs())
		orders[fmt.Sprintf("written-by-consul/ord=%v", wi.Ord)]++
		o := &origin{bi: e.newBase(baseMs), meta: &b.meta, state: b.state, baseMs: baseMs, write: wi}
		sfx := ""
		if gz {
			sfx = "+gz"
		}
		idToCoq := isSmall || len(b.state) <= 4096
		e.emit(o, mutation{"identity" + sfx, gz, data}, idToCoq)

		// the same archive with the two SHA256SUMS lines in the OTHER order (the order is a Go map
		// iteration order): the reader must accept it, and the model's write with the other ord
		// must equal its view
		{
			ms := tarMembers(b.tarb)
			var eb bytes.Buffer
			json.NewEncoder(&eb).Encode(&b.meta)
			lm := fmt.Sprintf("%x  %s\n", sum(eb.Bytes()), "meta.json")
			ls := fmt.Sprintf("%x  %s\n", sum(b.state), "state.bin")
			other := lm + ls
			if wi.Ord {
				other = ls + lm
			}
			for i := range ms {
				if ms[i].name == "SHA256SUMS" {
					ms[i].data = []byte(other)
				}
			}
			od := buildTar(ms)
			if gz {
				od = gzipBytes(od)
			}
			oms := membersOf(od, gz)
			owi := writeInfo(&b.meta, b.state, oms, newMetaIDs())
			owi.Forced = true
			orders[fmt.Sprintf("rewritten-into-other-order/ord=%v", owi.Ord)]++
			oo := &origin{bi: e.newBase(oms), meta: &b.meta, state: b.state, baseMs: oms, write: owi}
			e.emit(oo, mutation{"identity-other-order" + sfx, gz, od}, idToCoq)
		}

		if !gz {
			// --- byte flips, plain ---
			stride := 1
			ms := masks
			if !isSmall {
				ms = bigMasks
				if !thorough {
					stride = 7
				}
			}
			off := 0
			if stride > 1 {
				off = rng.Intn(stride)
			}
			for pos := off; pos < len(data); pos += stride {
				for _, fl := range ms {
					d := append([]byte{}, data...)
					d[pos] ^= fl
					// thorough: every one of the 255 masks goes through the reader and the oracle; Coq evaluates all
					// of them on the two smallest bases and the single-bit masks and FF on the others
					e.emit(o, mutation{fmt.Sprintf("flip@%d^%02x", pos, fl), false, d}, isSmall && (bi < 2 || coqMask(fl)))
				}
			}
		} else {
			ms := masks
			if !isSmall {
				ms = bigMasks
			}
			off := rng.Intn(5)
			for pos := 0; pos < len(data); pos++ {
				if !isSmall && !thorough && pos%5 != off {
					continue
				}
				for _, fl := range ms {
					d := append([]byte{}, data...)
					d[pos] ^= fl
					e.emit(o, mutation{fmt.Sprintf("gzflip@%d^%02x", pos, fl), true, d}, isSmall && coqMask(fl))
					if isSmall && fl == 0x01 {
						restoreSet = append(restoreSet, restoreItem{kind: "gzflip", data: d, state: b.state})
					}
				}
			}
		}
		// --- truncations ---
		tstride := 1
		if !isSmall && !thorough {
			tstride = 3
		}
		for n := 0; n < len(data); n += tstride {
			k := "trunc"
			if gz {
				k = "gztrunc"
			}
			e.emit(o, mutation{fmt.Sprintf("%s@%d", k, n), gz, data[:n]}, isSmall)
			if gz && isSmall {
				restoreSet = append(restoreSet, restoreItem{kind: "gztrunc", data: data[:n], state: b.state})
			}
		}
		if gz {
			restoreSet = append(restoreSet, restoreItem{kind: "identity", data: data, state: b.state})
			continue
		}
		// from here on: rewrites of the plain archive, fed plain and gzip-wrapped; their intact
		// view is the plain one
		both := func(kind string, t []byte) {
			e.emit(o, mutation{kind, false, t}, isSmall)
			g := gzipBytes(t)
			e.emit(o, mutation{kind + "+gz", true, g}, isSmall)
			if isSmall {
				restoreSet = append(restoreSet, restoreItem{kind: strings.SplitN(kind, ":", 2)[0], data: g, state: b.state})
			}
		}
		// truncating the *uncompressed* stream and re-compressing (a cut before compression)
		for n := 0; n < len(b.tarb); n += 512 {
			e.emit(o, mutation{fmt.Sprintf("trunc-then-gz@%d", n), true, gzipBytes(b.tarb[:n])}, isSmall)
		}
		// trailing garbage after the archive inside the gzip stream; a second gzip member appended
		e.emit(o, mutation{"gz-trailing-garbage", true, gzipBytes(append(append([]byte{}, b.tarb...), 1, 2, 3))}, isSmall)
		e.emit(o, mutation{"gz-trailing-zero-block", true, gzipBytes(append(append([]byte{}, b.tarb...), make([]byte, 512)...))}, isSmall)
		e.emit(o, mutation{"gz-multistream-empty", true, append(gzipBytes(b.tarb), gzipBytes(nil)...)}, isSmall)
		e.emit(o, mutation{"gz-multistream-garbage", true, append(gzipBytes(b.tarb), gzipBytes([]byte("tail"))...)}, isSmall)

		// --- member-level rewrites ---
		tms := tarMembers(b.tarb)
		for i := range tms {
			rm := append(append([]tmember{}, tms[:i]...), tms[i+1:]...)
			both("remove:"+tms[i].name, buildTar(rm))
			for j := 0; j <= len(tms); j++ {
				dup := append(append(append([]tmember{}, tms[:j]...), tms[i]), tms[j:]...)
				both(fmt.Sprintf("dup:%s@%d", tms[i].name, j), buildTar(dup))
			}
			for _, nn := range []string{"meta.json", "state.bin", "SHA256SUMS", "evil.bin", ""} {
				if nn == tms[i].name {
					continue
				}
				rn := append([]tmember{}, tms...)
				rn[i] = tmember{name: nn, data: tms[i].data}
				both(fmt.Sprintf("rename:%s->%q", tms[i].name, nn), buildTar(rn))
			}
			// content replaced wholesale (same length and different length)
			alt := append([]byte{}, tms[i].data...)
			if len(alt) > 0 {
				alt[rng.Intn(len(alt))] ^= 0x20
			}
			alt2 := append(append([]byte{}, tms[i].data...), 'x')
			for k, a := range [][]byte{alt, alt2, {}} {
				if bytes.Equal(a, tms[i].data) {
					continue
				}
				rp := append([]tmember{}, tms...)
				rp[i] = tmember{name: tms[i].name, data: a}
				both(fmt.Sprintf("replace:%s#%d", tms[i].name, k), buildTar(rp))
			}
		}
		perms := [][]int{{0, 2, 1}, {1, 0, 2}, {1, 2, 0}, {2, 0, 1}, {2, 1, 0}}
		if len(tms) == 3 {
			for _, p := range perms {
				both(fmt.Sprintf("reorder:%v", p), buildTar([]tmember{tms[p[0]], tms[p[1]], tms[p[2]]}))
			}
			// SHA256SUMS rewritten: upper-case hex, a third (blank / comment / duplicate) line,
			// CRLF line ends, and a line longer than bufio.Scanner's 64 KiB token limit
			// (s.Err() = bufio.ErrTooLong) after, before and between the two good lines
			sumsTxt := string(tms[2].data)
			lines := strings.Split(strings.TrimSuffix(sumsTxt, "\n"), "\n")
			long := strings.Repeat("x", 70000)
			variants := map[string]string{
				"upper":         strings.ToUpper(sumsTxt[:64]) + sumsTxt[64:],
				"dup-line":      sumsTxt + lines[0] + "\n",
				"blank-line":    sumsTxt + "\n",
				"crlf":          strings.ReplaceAll(sumsTxt, "\n", "\r\n"),
				"no-final-nl":   strings.TrimSuffix(sumsTxt, "\n"),
				"long-after":    sumsTxt + long,
				"long-before":   long + "\n" + sumsTxt,
				"long-between":  lines[0] + "\n" + long + "\n" + lines[len(lines)-1] + "\n",
				"long-nl-after": sumsTxt + long + "\n",
				"bad-then-long": "garbage line\n" + sumsTxt + long,
			}
			for _, name := range []string{"upper", "dup-line", "blank-line", "crlf", "no-final-nl", "long-after", "long-before", "long-between", "long-nl-after", "bad-then-long"} {
				rp := append([]tmember{}, tms...)
				rp[2] = tmember{name: tms[2].name, data: []byte(variants[name])}
				toCoq := isSmall && (!strings.HasPrefix(name, "long") && name != "bad-then-long" || bi == 1)
				t := buildTar(rp)
				e.emit(o, mutation{"sums:" + name, false, t}, toCoq)
				e.emit(o, mutation{"sums:" + name + "+gz", true, gzipBytes(t)}, toCoq)
			}
		}
		injects := []tmember{
			{name: "evil.bin", data: []byte("x")}, {name: "meta.json", data: []byte{}}, {name: "meta.json", data: []byte("{}")},
			{name: "meta.json", data: []byte("{\"Index\":99}")}, {name: "meta.json", data: []byte("null")},
			{name: "state.bin", data: []byte{}}, {name: "state.bin", data: []byte("zz")},
			{name: "SHA256SUMS", data: []byte{}}, {name: "SHA256SUMS", data: []byte("\n")}, {name: "SHA256SUMS", data: []byte("garbage line\n")},
			{name: "SHA256SUMS", data: []byte(fmt.Sprintf("%x  state.bin\n", sum(b.state)))},
			{name: "SHA256SUMS", data: []byte(fmt.Sprintf("%x  other.bin\n", sum(b.state)))},
			{name: "SHA256SUMS", data: []byte(fmt.Sprintf("%x  state.bin\n", sum([]byte("zz"))))},
			// members that are not regular files: directory, symlink, hard link, fifo, char device, PAX global header
			{name: "evil/", typ: tar.TypeDir}, {name: "evil.lnk", typ: tar.TypeSymlink, link: "state.bin"},
			{name: "evil.hard", typ: tar.TypeLink, link: "state.bin"}, {name: "evil.fifo", typ: tar.TypeFifo},
			{name: "evil.chr", typ: tar.TypeChar}, {name: "pax", typ: tar.TypeXGlobalHeader},
			{name: "state.bin", typ: tar.TypeSymlink, link: "meta.json"}, {name: "meta.json", typ: tar.TypeDir},
			{name: "SHA256SUMS", typ: tar.TypeFifo},
		}
		for _, inj := range injects {
			for j := 0; j <= len(tms); j++ {
				l := append(append(append([]tmember{}, tms[:j]...), inj), tms[j:]...)
				both(fmt.Sprintf("inject:%s(%d)t%d@%d", inj.name, len(inj.data), inj.typ, j), buildTar(l))
			}
		}
		// PAX extended header ('x') records and GNU long names apply to the NEXT member: archive/tar
		// folds them into that member's header, so the view and consul see the same names
		for j := range tms {
			both(fmt.Sprintf("pax-x-path:%s", tms[j].name), buildTarPaxPath(tms, j))
			both(fmt.Sprintf("gnu-longname:%s", tms[j].name), buildTarLongName(tms, j))
		}
	}
	return restoreSet
}

func main() {
	seed := flag.Int64("seed", 1, "seed")
	tier := flag.String("tier", "quick", "quick|thorough")
	out := flag.String("out", "", "output jsonl")
	parFlag := flag.Int("par", 4, "base archives processed in parallel")
	replay := flag.String("replay", "", "replay file (json with archive hex + gz, or a metadata round-trip case)")
	flag.Parse()

	if *replay != "" {
		doReplay(*replay)
		return
	}

	// snapshot.Read leaves its temporary file behind whenever it refuses an archive (snapshot.go
	// returns without removing it): keep them in a private directory, count them, remove them.
	tmpd, err := os.MkdirTemp("", "c20-harness")
	if err != nil {
		panic(err)
	}
	os.Setenv("TMPDIR", tmpd)
	defer os.RemoveAll(tmpd)

	rng := rand.New(rand.NewSource(*seed))
	w := bufio.NewWriterSize(os.Stdout, 1<<20)
	if *out != "" {
		f, err := os.Create(*out)
		if err != nil {
			panic(err)
		}
		defer f.Close()
		w = bufio.NewWriterSize(f, 1<<20)
	}
	defer w.Flush()
	e := &emitter{w: w, seenCoq: map[string]bool{}, stats: map[string]int{}}
	thorough := *tier == "thorough"

	// ---- base archives ----
	sizes := []int{0, 1, 5, 37}
	bigSizes := []int{511, 512, 513, 4096}
	if thorough {
		sizes = append(sizes, 2, 16, 64)
		bigSizes = append(bigSizes, 1024, 1536, 65536)
	}
	metas := []raft.SnapshotMeta{
		{Version: 1, ID: "2-7-1700000000000", Index: 7, Term: 2},
		{Version: 1, ID: "id with space", Index: 1 << 40, Term: 9, Peers: []byte{1, 2, 3},
			Configuration: raft.Configuration{Servers: []raft.Server{{Suffrage: raft.Voter, ID: "s1", Address: "127.0.0.1:8300"}}}, ConfigurationIndex: 3},
	}
	var bases []*base
	small := map[int]bool{}
	for i, sz := range append(append([]int{}, sizes...), bigSizes...) {
		st := make([]byte, sz)
		rng.Read(st)
		b, err := mkBase(metas[i%len(metas)], st)
		if err != nil {
			panic(err)
		}
		if i < len(sizes) {
			small[len(bases)] = true
		}
		bases = append(bases, b)
	}
	// states that themselves look like archive structure: zero blocks, and a whole tar archive
	{
		b1, err := mkBase(metas[0], make([]byte, 1024))
		if err != nil {
			panic(err)
		}
		b2, err := mkBase(metas[1], append([]byte{}, bases[1].tarb...))
		if err != nil {
			panic(err)
		}
		bases = append(bases, b1, b2)
	}

	masks8 := []byte{0x01, 0x02, 0x04, 0x08, 0x10, 0x20, 0x40, 0x80}
	masks := masks8
	bigMasks := []byte{0x01, 0x20, 0x80, 0xFF}
	if thorough {
		masks = nil
		for m := 1; m < 256; m++ {
			masks = append(masks, byte(m))
		}
		bigMasks = []byte{0x01, 0x02, 0x04, 0x08, 0x10, 0x20, 0x40, 0x80, 0xFF}
	}
	orders := map[string]int{}
	var restoreSet []restoreItem

	par := *parFlag
	if par < 1 {
		par = 1
	}
	type baseOut struct {
		buf     bytes.Buffer
		e       *emitter
		orders  map[string]int
		restore []restoreItem
	}
	outs := make([]*baseOut, len(bases))
	sem := make(chan struct{}, par)
	var wg sync.WaitGroup
	for bi, b := range bases {
		bo := &baseOut{orders: map[string]int{}}
		bo.e = &emitter{w: bufio.NewWriterSize(&bo.buf, 1<<16), id: (bi + 1) * 10000000, nbase: (bi + 1) * 16, seenCoq: map[string]bool{}, stats: map[string]int{}}
		outs[bi] = bo
		wg.Add(1)
		go func(bi int, b *base, bo *baseOut) {
			defer wg.Done()
			sem <- struct{}{}
			defer func() { <-sem }()
			brng := rand.New(rand.NewSource(*seed*1000003 + int64(bi)))
			bmasks := masks
			if thorough && bi >= 4 {
				bmasks = masks8 // thorough: all 255 masks on the four smallest bases, the 8 single-bit ones on the others
			}
			bo.restore = runBase(bo.e, bi, b, bases, small[bi], thorough, brng, bmasks, bigMasks, bo.orders)
			bo.e.w.Flush()
		}(bi, b, bo)
	}
	wg.Wait()
	for _, bo := range outs {
		w.Write(bo.buf.Bytes())
		for k, v := range bo.orders {
			orders[k] += v
		}
		for k, v := range bo.e.stats {
			e.stats[k] += v
		}
		restoreSet = append(restoreSet, bo.restore...)
	}
	e.id, e.nbase = (len(bases)+1)*10000000, (len(bases)+1)*16

	// ---- metadata fuzzing, hypothesis tests, restore path ----
	hyp := fuzzPhase(e, rng, thorough, orders)
	rst := restorePhase(restoreSet, bases, thorough)
	leaked := 0
	if ents, err := os.ReadDir(tmpd); err == nil {
		leaked = len(ents)
	}
	e.line(map[string]interface{}{"type": "summary", "orders": orders, "hypotheses": hyp, "restore": rst,
		"temp_files_left_by_snapshot_Read": leaked, "stats": e.stats})
}

// buildTarPaxPath renames member j to a 150-character name in PAX format: a PAX extended header
// ('x' record "path") precedes the member and overrides the name in its own header.
func buildTarPaxPath(ms []tmember, j int) []byte {
	var b bytes.Buffer
	tw := tar.NewWriter(&b)
	for i, m := range ms {
		h := &tar.Header{Name: m.name, Mode: 0600, Size: int64(len(m.data)), Format: tar.FormatPAX}
		if i == j {
			h.Name = strings.Repeat("p", 150)
		}
		if err := tw.WriteHeader(h); err != nil {
			panic(err)
		}
		tw.Write(m.data)
	}
	tw.Close()
	return b.Bytes()
}

// buildTarLongName renames member j to a 150-character name (GNU long-name record).
func buildTarLongName(ms []tmember, j int) []byte {
	var b bytes.Buffer
	tw := tar.NewWriter(&b)
	for i, m := range ms {
		h := &tar.Header{Name: m.name, Mode: 0600, Size: int64(len(m.data)), Format: tar.FormatGNU}
		if i == j {
			h.Name = strings.Repeat("n", 150)
		}
		if err := tw.WriteHeader(h); err != nil {
			panic(err)
		}
		tw.Write(m.data)
	}
	tw.Close()
	return b.Bytes()
}

func doReplay(path string) {
	raw, err := os.ReadFile(path)
	if err != nil {
		panic(err)
	}
	var r struct {
		Archive string          `json:"archive"`
		Gz      bool            `json:"gz"`
		Fuzz    json.RawMessage `json:"replay"`
	}
	if err := json.Unmarshal(raw, &r); err != nil {
		panic(err)
	}
	if len(r.Fuzz) > 0 && string(r.Fuzz) != "null" {
		replayFuzz(r.Fuzz)
		return
	}
	data, _ := hex.DecodeString(r.Archive)
	mids := newMetaIDs()
	var c Case
	vi := view(data, r.Gz, &c, map[string][]byte{}, mids)
	res := runImpl(data, r.Gz, mids, vi)
	j, _ := json.Marshal(map[string]interface{}{"expect": res.exp, "inconsistency": res.incons})
	fmt.Println(string(j))
}
