// Correspondence harness for property C20 (snapshot archives).
//
// For a set of base archives produced by consul's own writer it applies byte flips,
// truncations and member-level rewrites, feeds each damaged archive to consul's reader
// (plain tar through the verif hook, gzip-wrapped through snapshot.Read and snapshot.Verify),
// and records (a) what the reader returned and (b) the member-level view of the same bytes
// as Go's archive/tar presents it, plus the stdlib answers the Coq model treats as external.
package main

import (
	"archive/tar"
	"bufio"
	"bytes"
	"compress/gzip"
	"crypto/sha256"
	"encoding/hex"
	"encoding/json"
	"flag"
	"fmt"
	"io"
	"math/rand"
	"os"
	"strings"

	"github.com/hashicorp/go-hclog"
	"github.com/hashicorp/raft"

	"github.com/hashicorp/consul/snapshot"
)

type Member struct {
	Name   string `json:"name"`
	Data   string `json:"data"` // hex
	Intact bool   `json:"intact"`
}

type DecEntry struct {
	Cur  int    `json:"cur"`
	Data string `json:"data"`
	Ok   bool   `json:"ok"`
	New  int    `json:"new"`
}

type Line struct {
	Ok     bool   `json:"ok"`
	Pre    string `json:"pre"`   // hex preimage of the digest, when known
	Known  bool   `json:"known"` // digest is the hash of a known byte string
	File   string `json:"file"`  // hex of the file token
	Digest string `json:"digest"`
}

type Expect struct {
	Ok    bool   `json:"ok"`
	Meta  int    `json:"meta"`
	State string `json:"state"`
	Err   int    `json:"err"`
	Msg   string `json:"msg,omitempty"`
}

type Case struct {
	ID      int        `json:"id"`
	Base    int        `json:"base"`
	Kind    string     `json:"kind"`
	Gz      bool       `json:"gz"`
	Archive string     `json:"archive,omitempty"` // hex of the damaged bytes (small ones only)
	Hdr     bool       `json:"hdr"`
	Members []Member   `json:"members"`
	Term    bool       `json:"term"`
	Trailer bool       `json:"trailer"`
	Dec     []DecEntry `json:"dec"`
	Sums    string     `json:"sums"`
	Lines   []Line     `json:"lines"`
	Expect  Expect     `json:"expect"`
	Oracle  string     `json:"oracle"` // "" or the reason the direct oracle objects
	ToCoq   bool       `json:"to_coq"`
	OrigLen int        `json:"orig_state_len"`
}

type base struct {
	meta  raft.SnapshotMeta
	state []byte
	tarb  []byte
	gzb   []byte
	metaJ string // canonical JSON of the metadata
}

func canonMeta(m *raft.SnapshotMeta) string {
	b, _ := json.Marshal(m)
	return string(b)
}

func mkBase(meta raft.SnapshotMeta, state []byte) (*base, error) {
	meta.Size = int64(len(state))
	var tb bytes.Buffer
	if err := snapshot.VerifWrite(&tb, &meta, bytes.NewReader(state)); err != nil {
		return nil, err
	}
	var gb bytes.Buffer
	zw := gzip.NewWriter(&gb)
	if err := snapshot.VerifWrite(zw, &meta, bytes.NewReader(state)); err != nil {
		return nil, err
	}
	if err := zw.Close(); err != nil {
		return nil, err
	}
	return &base{meta: meta, state: state, tarb: tb.Bytes(), gzb: gb.Bytes(), metaJ: canonMeta(&meta)}, nil
}

// errCode maps the reader's error text to the model's enum.
func errCode(err error) int {
	s := err.Error()
	switch {
	case strings.Contains(s, "failed to decompress snapshot"):
		return 1
	case strings.Contains(s, "failed reading snapshot"):
		return 2
	case strings.Contains(s, "failed to read snapshot metadata"):
		return 3
	case strings.Contains(s, "failed to decode snapshot metadata"):
		return 4
	case strings.Contains(s, "failed to read or write snapshot data"):
		return 5
	case strings.Contains(s, "failed to read snapshot hashes"):
		return 6
	case strings.Contains(s, "unexpected file"):
		return 7
	case strings.Contains(s, "list missing hash for"):
		return 9
	case strings.Contains(s, "hash check failed for"):
		return 10
	case strings.Contains(s, "file missing for"):
		return 11
	case strings.Contains(s, "is not in the archive"):
		return 13
	case strings.Contains(s, "failed checking integrity of snapshot"):
		return 8 // scanner / Sscanf error
	default:
		return 12 // concludeGzipRead: raw gzip error or trailing bytes
	}
}

type metaIDs struct {
	ids map[string]int
}

func (m *metaIDs) id(s string) int {
	if v, ok := m.ids[s]; ok {
		return v
	}
	v := len(m.ids)
	m.ids[s] = v
	return v
}

// view builds the member-level view of a (possibly damaged) archive with the stdlib only.
func view(data []byte, gz bool, c *Case, known map[string][]byte, mids *metaIDs) {
	var in io.Reader = bytes.NewReader(data)
	c.Hdr, c.Trailer = true, true
	var zr *gzip.Reader
	if gz {
		var err error
		zr, err = gzip.NewReader(in)
		if err != nil {
			c.Hdr = false
			c.Members = []Member{}
			c.Dec = []DecEntry{}
			c.Lines = []Line{}
			return
		}
		in = zr
	}
	tr := tar.NewReader(in)
	c.Term = true
	c.Members = []Member{}
	var accMeta, accState, accSums []byte
	cur := raft.SnapshotMeta{}
	c.Dec = []DecEntry{}
	stopped := false
	for {
		hdr, err := tr.Next()
		if err == io.EOF {
			break
		}
		if err != nil {
			c.Term = false
			break
		}
		b, rerr := io.ReadAll(tr)
		m := Member{Name: hdr.Name, Data: hex.EncodeToString(b), Intact: rerr == nil}
		c.Members = append(c.Members, m)
		switch hdr.Name {
		case "meta.json":
			accMeta = append(accMeta, b...)
			if rerr == nil {
				curID := mids.id(canonMeta(&cur))
				next := cur
				p := &next
				uerr := json.Unmarshal(b, &p)
				e := DecEntry{Cur: curID, Data: m.Data, Ok: uerr == nil}
				if uerr == nil {
					if p == nil {
						// JSON null: consul's local pointer becomes nil; not generated.
						p = &next
					}
					cur = *p
					e.New = mids.id(canonMeta(&cur))
				} else {
					stopped = true
				}
				c.Dec = append(c.Dec, e)
			}
		case "state.bin":
			accState = append(accState, b...)
		case "SHA256SUMS":
			accSums = append(accSums, b...)
		default:
			stopped = true
		}
		if rerr != nil || stopped {
			// consul's reader returns here; nothing after this point is observable.
			c.Term = true
			break
		}
	}
	if gz && c.Term && !stopped {
		// What concludeGzipRead will find once the tar reader has stopped.
		extra, err := io.ReadAll(zr)
		if err != nil || len(extra) != 0 {
			c.Trailer = false
		}
	}
	c.Sums = hex.EncodeToString(accSums)
	known[hex.EncodeToString(sum(accMeta))] = accMeta
	known[hex.EncodeToString(sum(accState))] = accState
	c.Lines = []Line{}
	s := bufio.NewScanner(bytes.NewReader(accSums))
	for s.Scan() {
		sha := make([]byte, sha256.Size)
		var file string
		if _, err := fmt.Sscanf(s.Text(), "%x  %s", &sha, &file); err != nil {
			c.Lines = append(c.Lines, Line{Ok: false})
			continue
		}
		l := Line{Ok: true, File: hex.EncodeToString([]byte(file)), Digest: hex.EncodeToString(sha)}
		if pre, ok := known[l.Digest]; ok {
			l.Known = true
			l.Pre = hex.EncodeToString(pre)
		}
		c.Lines = append(c.Lines, l)
	}
}

func sum(b []byte) []byte {
	h := sha256.Sum256(b)
	return h[:]
}

// runImpl feeds the archive to consul's reader.
func runImpl(data []byte, gz bool, mids *metaIDs) (Expect, string) {
	if !gz {
		var md raft.SnapshotMeta
		var out bytes.Buffer
		err := snapshot.VerifRead(bytes.NewReader(data), &md, &out)
		if err != nil {
			return Expect{Ok: false, Err: errCode(err), Msg: err.Error()}, ""
		}
		return Expect{Ok: true, Meta: mids.id(canonMeta(&md)), State: hex.EncodeToString(out.Bytes())}, ""
	}
	logger := hclog.NewNullLogger()
	f, md, err := snapshot.Read(logger, bytes.NewReader(data))
	_, verr := snapshot.Verify(bytes.NewReader(data))
	incons := ""
	if (err == nil) != (verr == nil) {
		incons = fmt.Sprintf("snapshot.Read and snapshot.Verify disagree: read=%v verify=%v", err, verr)
	}
	if err != nil {
		return Expect{Ok: false, Err: errCode(err), Msg: err.Error()}, incons
	}
	defer func() { f.Close(); os.Remove(f.Name()) }()
	st, _ := io.ReadAll(f)
	return Expect{Ok: true, Meta: mids.id(canonMeta(md)), State: hex.EncodeToString(st)}, incons
}

type tmember struct {
	name string
	data []byte
	typ  byte   // 0 = regular file
	link string // link target for symlinks / hard links
}

func tarMembers(b []byte) []tmember {
	tr := tar.NewReader(bytes.NewReader(b))
	var out []tmember
	for {
		h, err := tr.Next()
		if err != nil {
			break
		}
		d, _ := io.ReadAll(tr)
		out = append(out, tmember{name: h.Name, data: d})
	}
	return out
}

func buildTar(ms []tmember) []byte {
	var b bytes.Buffer
	tw := tar.NewWriter(&b)
	for _, m := range ms {
		h := &tar.Header{Name: m.name, Mode: 0600, Size: int64(len(m.data))}
		if m.typ != 0 {
			h.Typeflag = m.typ
			h.Linkname = m.link
			if m.typ == tar.TypeXGlobalHeader {
				h.Name = ""
				h.Mode = 0
				h.PAXRecords = map[string]string{"comment": "x"}
			}
			if m.typ != tar.TypeReg {
				h.Size = 0
			}
		}
		if err := tw.WriteHeader(h); err != nil {
			panic(err)
		}
		if h.Size > 0 {
			tw.Write(m.data)
		}
	}
	tw.Close()
	return b.Bytes()
}

func gzipBytes(b []byte) []byte {
	var g bytes.Buffer
	zw := gzip.NewWriter(&g)
	zw.Write(b)
	zw.Close()
	return g.Bytes()
}

type mutation struct {
	kind string
	gz   bool
	data []byte
}

func main() {
	seed := flag.Int64("seed", 1, "seed")
	tier := flag.String("tier", "quick", "quick|thorough")
	out := flag.String("out", "", "output jsonl")
	replay := flag.String("replay", "", "replay file (json with archive hex, gz)")
	flag.Parse()

	if *replay != "" {
		doReplay(*replay)
		return
	}

	rng := rand.New(rand.NewSource(*seed))
	w := bufio.NewWriterSize(os.Stdout, 1<<20)
	if *out != "" {
		f, err := os.Create(*out)
		if err != nil {
			panic(err)
		}
		defer f.Close()
		w = bufio.NewWriterSize(f, 1<<20)
	}
	defer w.Flush()

	// ---- base archives ----
	sizes := []int{0, 1, 5, 37}
	bigSizes := []int{511, 512, 513, 4096}
	if *tier == "thorough" {
		sizes = append(sizes, 2, 16, 64)
		bigSizes = append(bigSizes, 1024, 1536, 65536)
	}
	metas := []raft.SnapshotMeta{
		{Version: 1, ID: "2-7-1700000000000", Index: 7, Term: 2},
		{Version: 1, ID: "id with space", Index: 1 << 40, Term: 9, Peers: []byte{1, 2, 3},
			Configuration: raft.Configuration{Servers: []raft.Server{{Suffrage: raft.Voter, ID: "s1", Address: "127.0.0.1:8300"}}}, ConfigurationIndex: 3},
	}
	var bases []*base
	small := map[int]bool{}
	for i, sz := range append(append([]int{}, sizes...), bigSizes...) {
		st := make([]byte, sz)
		rng.Read(st)
		b, err := mkBase(metas[i%len(metas)], st)
		if err != nil {
			panic(err)
		}
		if i < len(sizes) {
			small[len(bases)] = true
		}
		bases = append(bases, b)
	}

	id := 0
	seenCoq := map[string]bool{}
	emit := func(bi int, b *base, mu mutation, toCoq bool) {
		mids := &metaIDs{ids: map[string]int{canonMeta(&raft.SnapshotMeta{}): 0}}
		c := Case{ID: id, Base: bi, Kind: mu.kind, Gz: mu.gz, OrigLen: len(b.state)}
		id++
		known := map[string][]byte{}
		known[hex.EncodeToString(sum(b.state))] = b.state
		origMetaJSON := append([]byte(b.metaJ), '\n')
		known[hex.EncodeToString(sum(origMetaJSON))] = origMetaJSON
		view(mu.data, mu.gz, &c, known, mids)
		exp, incons := runImpl(mu.data, mu.gz, mids)
		c.Expect = exp
		// ---- direct oracle: stated on the implementation's behaviour only ----
		if incons != "" {
			c.Oracle = incons
		} else if exp.Ok {
			origID := mids.id(b.metaJ)
			if exp.State != hex.EncodeToString(b.state) {
				c.Oracle = "accepted-with-altered-state"
			} else if exp.Meta != origID {
				c.Oracle = "accepted-with-altered-metadata"
			} else {
				have := map[string]bool{}
				for _, m := range c.Members {
					have[m.Name] = true
				}
				for _, n := range []string{"meta.json", "state.bin", "SHA256SUMS"} {
					if !have[n] {
						c.Oracle = "accepted-without-member:" + n
					}
				}
				for n := range have {
					if n != "meta.json" && n != "state.bin" && n != "SHA256SUMS" {
						c.Oracle = "accepted-with-unexpected-member"
					}
				}
			}
		} else if mu.kind == "identity" {
			c.Oracle = "intact-archive-rejected: " + exp.Msg
		}
		c.Expect.Msg = ""
		if toCoq || c.Oracle != "" {
			c.Archive = hex.EncodeToString(mu.data)
		}
		if toCoq {
			// de-duplicate by what the model sees
			c.ToCoq = true
			key, _ := json.Marshal(struct {
				H bool
				M []Member
				T bool
				R bool
				D []DecEntry
				S string
				L []Line
				E Expect
			}{c.Hdr, c.Members, c.Term, c.Trailer, c.Dec, c.Sums, c.Lines, c.Expect})
			k := string(key)
			if seenCoq[k] {
				c.ToCoq = false
				if c.Oracle == "" {
					c.Archive = ""
				}
			} else {
				seenCoq[k] = true
			}
		}
		if !c.ToCoq {
			// keep the line short: the view is only needed for Coq and for failures
			if c.Oracle == "" {
				c.Members, c.Dec, c.Lines, c.Sums = nil, nil, nil, ""
			}
		}
		j, _ := json.Marshal(&c)
		w.Write(j)
		w.WriteByte('\n')
	}

	flips := []byte{0x01, 0x80, 0xFF}
	for bi, b := range bases {
		isSmall := small[bi]
		emit(bi, b, mutation{"identity", false, b.tarb}, true)
		emit(bi, b, mutation{"identity", true, b.gzb}, true)

		// --- byte flips ---
		stride := 1
		if !isSmall && *tier == "quick" {
			stride = 7
		}
		off := 0
		if stride > 1 {
			off = rng.Intn(stride)
		}
		for pos := off; pos < len(b.tarb); pos += stride {
			for _, fl := range flips {
				d := append([]byte{}, b.tarb...)
				d[pos] ^= fl
				emit(bi, b, mutation{fmt.Sprintf("flip@%d^%02x", pos, fl), false, d}, isSmall)
			}
		}
		for pos := 0; pos < len(b.gzb); pos++ {
			if !isSmall && *tier == "quick" && pos%5 != off%5 {
				continue
			}
			for _, fl := range flips {
				d := append([]byte{}, b.gzb...)
				d[pos] ^= fl
				emit(bi, b, mutation{fmt.Sprintf("gzflip@%d^%02x", pos, fl), true, d}, isSmall)
			}
		}
		// --- truncations ---
		tstride := 1
		if !isSmall && *tier == "quick" {
			tstride = 3
		}
		for n := 0; n < len(b.tarb); n += tstride {
			emit(bi, b, mutation{fmt.Sprintf("trunc@%d", n), false, b.tarb[:n]}, isSmall)
		}
		for n := 0; n < len(b.gzb); n += tstride {
			emit(bi, b, mutation{fmt.Sprintf("gztrunc@%d", n), true, b.gzb[:n]}, isSmall)
		}
		// truncating the *uncompressed* stream and re-compressing (a cut before compression)
		for n := 0; n < len(b.tarb); n += 512 {
			emit(bi, b, mutation{fmt.Sprintf("trunc-then-gz@%d", n), true, gzipBytes(b.tarb[:n])}, isSmall)
		}
		// trailing garbage after the archive inside the gzip stream
		emit(bi, b, mutation{"gz-trailing-garbage", true, gzipBytes(append(append([]byte{}, b.tarb...), 1, 2, 3))}, isSmall)
		emit(bi, b, mutation{"gz-trailing-zero-block", true, gzipBytes(append(append([]byte{}, b.tarb...), make([]byte, 512)...))}, isSmall)

		// --- member-level rewrites ---
		ms := tarMembers(b.tarb)
		both := func(kind string, l []tmember) {
			t := buildTar(l)
			emit(bi, b, mutation{kind, false, t}, isSmall)
			emit(bi, b, mutation{kind + "+gz", true, gzipBytes(t)}, isSmall)
		}
		for i := range ms {
			rm := append(append([]tmember{}, ms[:i]...), ms[i+1:]...)
			both("remove:"+ms[i].name, rm)
			for j := 0; j <= len(ms); j++ {
				dup := append(append(append([]tmember{}, ms[:j]...), ms[i]), ms[j:]...)
				both(fmt.Sprintf("dup:%s@%d", ms[i].name, j), dup)
			}
			for _, nn := range []string{"meta.json", "state.bin", "SHA256SUMS", "evil.bin", ""} {
				if nn == ms[i].name {
					continue
				}
				rn := append([]tmember{}, ms...)
				rn[i] = tmember{name: nn, data: ms[i].data}
				both(fmt.Sprintf("rename:%s->%q", ms[i].name, nn), rn)
			}
			// content replaced wholesale (same length and different length)
			alt := append([]byte{}, ms[i].data...)
			if len(alt) > 0 {
				alt[rng.Intn(len(alt))] ^= 0x20
			}
			alt2 := append(append([]byte{}, ms[i].data...), 'x')
			for k, a := range [][]byte{alt, alt2, {}} {
				if bytes.Equal(a, ms[i].data) {
					continue
				}
				rp := append([]tmember{}, ms...)
				rp[i] = tmember{name: ms[i].name, data: a}
				both(fmt.Sprintf("replace:%s#%d", ms[i].name, k), rp)
			}
		}
		perms := [][]int{{0, 2, 1}, {1, 0, 2}, {1, 2, 0}, {2, 0, 1}, {2, 1, 0}}
		if len(ms) == 3 {
			for _, p := range perms {
				both(fmt.Sprintf("reorder:%v", p), []tmember{ms[p[0]], ms[p[1]], ms[p[2]]})
			}
		}
		injects := []tmember{
			{name: "evil.bin", data: []byte("x")}, {name: "meta.json", data: []byte{}}, {name: "meta.json", data: []byte("{}")},
			{name: "meta.json", data: []byte("{\"Index\":99}")}, {name: "state.bin", data: []byte{}}, {name: "state.bin", data: []byte("zz")},
			{name: "SHA256SUMS", data: []byte{}}, {name: "SHA256SUMS", data: []byte("\n")}, {name: "SHA256SUMS", data: []byte("garbage line\n")},
			{name: "SHA256SUMS", data: []byte(fmt.Sprintf("%x  state.bin\n", sum(b.state)))},
			{name: "SHA256SUMS", data: []byte(fmt.Sprintf("%x  other.bin\n", sum(b.state)))},
			{name: "SHA256SUMS", data: []byte(fmt.Sprintf("%x  state.bin\n", sum([]byte("zz"))))},
			// members that are not regular files: directory, symlink, hard link, fifo, char device, PAX global header
			{name: "evil/", typ: tar.TypeDir}, {name: "evil.lnk", typ: tar.TypeSymlink, link: "state.bin"},
			{name: "evil.hard", typ: tar.TypeLink, link: "state.bin"}, {name: "evil.fifo", typ: tar.TypeFifo},
			{name: "evil.chr", typ: tar.TypeChar}, {name: "pax", typ: tar.TypeXGlobalHeader},
			{name: "state.bin", typ: tar.TypeSymlink, link: "meta.json"}, {name: "meta.json", typ: tar.TypeDir},
		}
		for _, inj := range injects {
			for j := 0; j <= len(ms); j++ {
				l := append(append(append([]tmember{}, ms[:j]...), inj), ms[j:]...)
				both(fmt.Sprintf("inject:%s(%d)t%d@%d", inj.name, len(inj.data), inj.typ, j), l)
			}
		}
		// forged archive: consistent sums over altered payload must be accepted only as itself
		// (not a corruption of the original: the oracle compares with the original, so skip).
	}
}

func doReplay(path string) {
	raw, err := os.ReadFile(path)
	if err != nil {
		panic(err)
	}
	var r struct {
		Archive string `json:"archive"`
		Gz      bool   `json:"gz"`
	}
	if err := json.Unmarshal(raw, &r); err != nil {
		panic(err)
	}
	data, _ := hex.DecodeString(r.Archive)
	mids := &metaIDs{ids: map[string]int{canonMeta(&raft.SnapshotMeta{}): 0}}
	exp, incons := runImpl(data, r.Gz, mids)
	j, _ := json.Marshal(map[string]interface{}{"expect": exp, "inconsistency": incons})
	fmt.Println(string(j))
}
