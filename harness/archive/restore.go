package main

// The real save and restore paths: snapshot.New takes a snapshot of an in-memory raft (real
// raft.Snapshot -> FSM.Snapshot -> consul's writer behind gzip), snapshot.Restore feeds an archive
// to another in-memory raft whose FSM records every Restore call. Oracle (no model involved):
// an archive snapshot.Verify refuses never reaches FSM.Restore; an archive it accepts reaches it
// exactly once, with exactly the original state bytes.

import (
	"bytes"
	"fmt"
	"io"
	"sync"
	"time"

	"github.com/hashicorp/go-hclog"
	"github.com/hashicorp/raft"

	"github.com/hashicorp/consul/snapshot"
)

type restoreItem struct {
	kind  string
	data  []byte
	state []byte
}

type recFSM struct {
	mu       sync.Mutex
	state    []byte
	restores [][]byte
}

func (f *recFSM) Apply(*raft.Log) interface{} { return nil }
func (f *recFSM) Snapshot() (raft.FSMSnapshot, error) {
	f.mu.Lock()
	defer f.mu.Unlock()
	return &recSnap{data: append([]byte{}, f.state...)}, nil
}
func (f *recFSM) Restore(rc io.ReadCloser) error {
	defer rc.Close()
	b, err := io.ReadAll(rc)
	if err != nil {
		return err
	}
	f.mu.Lock()
	f.restores = append(f.restores, b)
	f.state = b
	f.mu.Unlock()
	return nil
}
func (f *recFSM) count() int {
	f.mu.Lock()
	defer f.mu.Unlock()
	return len(f.restores)
}
func (f *recFSM) last() []byte {
	f.mu.Lock()
	defer f.mu.Unlock()
	return f.restores[len(f.restores)-1]
}

type recSnap struct{ data []byte }

func (s *recSnap) Persist(sink raft.SnapshotSink) error {
	if _, err := sink.Write(s.data); err != nil {
		sink.Cancel()
		return err
	}
	return sink.Close()
}
func (s *recSnap) Release() {}

func makeRaft(name string) (*raft.Raft, *recFSM, error) {
	fsm := &recFSM{}
	store := raft.NewInmemStore()
	snaps := raft.NewInmemSnapshotStore()
	addr, trans := raft.NewInmemTransport(raft.ServerAddress(name))
	cfg := raft.DefaultConfig()
	cfg.LocalID = raft.ServerID(name)
	cfg.HeartbeatTimeout = 200 * time.Millisecond
	cfg.ElectionTimeout = 200 * time.Millisecond
	cfg.LeaderLeaseTimeout = 200 * time.Millisecond
	cfg.CommitTimeout = 5 * time.Millisecond
	cfg.Logger = hclog.NewNullLogger()
	members := raft.Configuration{Servers: []raft.Server{{Suffrage: raft.Voter, ID: cfg.LocalID, Address: addr}}}
	if err := raft.BootstrapCluster(cfg, store, store, snaps, trans, members); err != nil {
		return nil, nil, err
	}
	r, err := raft.NewRaft(cfg, fsm, store, store, snaps, trans)
	if err != nil {
		return nil, nil, err
	}
	deadline := time.Now().Add(60 * time.Second)
	for r.State() != raft.Leader {
		if time.Now().After(deadline) {
			return nil, nil, fmt.Errorf("no leader")
		}
		time.Sleep(20 * time.Millisecond)
	}
	if err := r.Barrier(30 * time.Second).Error(); err != nil {
		return nil, nil, err
	}
	return r, fsm, nil
}

func restorePhase(items []restoreItem, bases []*base, thorough bool) map[string]interface{} {
	res := map[string]interface{}{}
	logger := hclog.NewNullLogger()
	src, srcFSM, err := makeRaft("src")
	if err != nil {
		res["skipped"] = "source raft: " + err.Error()
		return res
	}
	defer src.Shutdown()
	dst, dstFSM, err := makeRaft("dst")
	if err != nil {
		res["skipped"] = "destination raft: " + err.Error()
		return res
	}
	defer dst.Shutdown()

	var failures []string
	fail := func(s string) {
		if len(failures) < 10 {
			failures = append(failures, s)
		}
	}
	// ---- save through snapshot.New, restore through snapshot.Restore ----
	saved := 0
	for _, st := range [][]byte{{}, {42}, bytes.Repeat([]byte("consul"), 900)} {
		srcFSM.mu.Lock()
		srcFSM.state = st
		srcFSM.mu.Unlock()
		if err := src.Apply([]byte("x"), 10*time.Second).Error(); err != nil {
			fail("apply: " + err.Error())
			continue
		}
		snap, err := snapshot.New(logger, src)
		if err != nil {
			fail("snapshot.New: " + err.Error())
			continue
		}
		arch, _ := io.ReadAll(snap)
		idx := snap.Index()
		snap.Close()
		md, err := snapshot.Verify(bytes.NewReader(arch))
		if err != nil {
			fail("snapshot.Verify refuses what snapshot.New saved: " + err.Error())
			continue
		}
		if md.Index != idx || md.Size != int64(len(st)) {
			fail(fmt.Sprintf("saved metadata index/size %d/%d, expected %d/%d", md.Index, md.Size, idx, len(st)))
		}
		before := dstFSM.count()
		if err := snapshot.Restore(logger, bytes.NewReader(arch), dst); err != nil {
			fail("snapshot.Restore refuses what snapshot.New saved: " + err.Error())
			continue
		}
		if dstFSM.count() != before+1 || !bytes.Equal(dstFSM.last(), st) {
			fail(fmt.Sprintf("restore of a saved snapshot delivered %d calls / other bytes", dstFSM.count()-before))
			continue
		}
		saved++
		// and a damaged copy of it never reaches the FSM
		for _, pos := range []int{len(arch) / 3, len(arch) / 2, len(arch) - 5} {
			d := append([]byte{}, arch...)
			d[pos] ^= 0x10
			items = append(items, restoreItem{kind: "saved-by-New-flip", data: d, state: st})
		}
	}
	res["saved_by_snapshot_New_and_restored"] = saved

	// ---- damaged archives into snapshot.Restore ----
	kinds := map[string]int{}
	rejected, accepted := 0, 0
	for _, it := range items {
		_, verr := snapshot.Verify(bytes.NewReader(it.data))
		before := dstFSM.count()
		rerr := snapshot.Restore(logger, bytes.NewReader(it.data), dst)
		after := dstFSM.count()
		kinds[it.kind]++
		if verr != nil {
			rejected++
			if rerr == nil || after != before {
				fail(fmt.Sprintf("REFUSED-ARCHIVE-RESTORED kind=%s verify=%v restore=%v fsm_calls=%d archive=%x", it.kind, verr, rerr, after-before, it.data))
			}
		} else {
			accepted++
			if rerr != nil {
				fail(fmt.Sprintf("verified archive not restored kind=%s: %v", it.kind, rerr))
			} else if after != before+1 || !bytes.Equal(dstFSM.last(), it.state) {
				fail(fmt.Sprintf("RESTORE-DELIVERED-OTHER-BYTES kind=%s fsm_calls=%d archive=%x", it.kind, after-before, it.data))
			}
		}
	}
	res["archives_fed_to_snapshot_Restore"] = len(items)
	res["refused_and_fsm_untouched"] = rejected
	res["accepted_and_fsm_got_original_bytes"] = accepted
	res["kinds"] = kinds
	res["failures"] = failures
	return res
}
