package main

// Metadata fuzzing (round trip through consul's real writer and reader with a reflect.DeepEqual
// oracle against the ORIGINAL struct) and direct tests, against encoding/json, bufio.Scanner and
// fmt.Sscanf, of the hypotheses Properties/C20.v makes about them.

import (
	"bufio"
	"bytes"
	"compress/gzip"
	"crypto/sha256"
	"encoding/hex"
	"encoding/json"
	"fmt"
	"math"
	"math/rand"
	"reflect"
	"strings"
	"unicode/utf8"

	"github.com/hashicorp/raft"

	"github.com/hashicorp/consul/snapshot"
)

// fuzzMeta is a replayable rendering of a raft.SnapshotMeta (strings in hex: they may be invalid UTF-8).
type fuzzServer struct {
	Suffrage int    `json:"suffrage"`
	ID       string `json:"id_hex"`
	Address  string `json:"addr_hex"`
}
type fuzzMeta struct {
	Version    int          `json:"version"`
	ID         string       `json:"id_hex"`
	Index      uint64       `json:"index"`
	Term       uint64       `json:"term"`
	PeersNil   bool         `json:"peers_nil"`
	Peers      string       `json:"peers_hex"`
	ServersNil bool         `json:"servers_nil"`
	Servers    []fuzzServer `json:"servers"`
	CfgIndex   uint64       `json:"cfg_index"`
	Size       int64        `json:"size"`
	State      string       `json:"state_hex"`
}

func toFuzz(m *raft.SnapshotMeta, state []byte) *fuzzMeta {
	f := &fuzzMeta{Version: int(m.Version), ID: hex.EncodeToString([]byte(m.ID)), Index: m.Index, Term: m.Term,
		PeersNil: m.Peers == nil, Peers: hex.EncodeToString(m.Peers), ServersNil: m.Configuration.Servers == nil,
		CfgIndex: m.ConfigurationIndex, Size: m.Size, State: hex.EncodeToString(state), Servers: []fuzzServer{}}
	for _, s := range m.Configuration.Servers {
		f.Servers = append(f.Servers, fuzzServer{int(s.Suffrage), hex.EncodeToString([]byte(s.ID)), hex.EncodeToString([]byte(s.Address))})
	}
	return f
}

func fromFuzz(f *fuzzMeta) (raft.SnapshotMeta, []byte) {
	unhex := func(s string) []byte { b, _ := hex.DecodeString(s); return b }
	m := raft.SnapshotMeta{Version: raft.SnapshotVersion(f.Version), ID: string(unhex(f.ID)), Index: f.Index, Term: f.Term,
		ConfigurationIndex: f.CfgIndex, Size: f.Size}
	if !f.PeersNil {
		m.Peers = append([]byte{}, unhex(f.Peers)...)
	}
	if !f.ServersNil {
		m.Configuration.Servers = []raft.Server{}
		for _, s := range f.Servers {
			m.Configuration.Servers = append(m.Configuration.Servers, raft.Server{Suffrage: raft.ServerSuffrage(s.Suffrage),
				ID: raft.ServerID(unhex(s.ID)), Address: raft.ServerAddress(unhex(s.Address))})
		}
	}
	return m, unhex(f.State)
}

var fuzzStrings = []string{
	"", "a", "2-7-1700000000000", "id with space", "ünïcødé-日本語-🙂", "<script>&amp;</script>", "a<b>c&d",
	"\xff\xfe", "ok\xc3", "\xed\xa0\x80", "mid\x80dle", "  ", "quote\"back\\slash/", "\x00\x01ctl\x1f\x7f",
	"\uFFFD", "null", "{}", "tab\tnl\ncr\r", "127.0.0.1:8300", "[::1]:8300", "e0f4c9c2-5b3a-4a8e-9b7e-2f1d3c4b5a69",
	strings.Repeat("long", 80),
}

var fuzzU64 = []uint64{0, 1, 7, 1 << 32, 1<<53 + 1, math.MaxInt64, 1 << 63, math.MaxUint64 - 1, math.MaxUint64}

func genMeta(rng *rand.Rand, i int) raft.SnapshotMeta {
	pick := func() string { return fuzzStrings[rng.Intn(len(fuzzStrings))] }
	u64 := func() uint64 {
		if rng.Intn(3) == 0 {
			return rng.Uint64()
		}
		return fuzzU64[rng.Intn(len(fuzzU64))]
	}
	m := raft.SnapshotMeta{Version: raft.SnapshotVersion([]int{0, 1, 1, 1, 2, -1}[rng.Intn(6)]), ID: pick(), Index: u64(), Term: u64(),
		ConfigurationIndex: u64()}
	if i < len(fuzzStrings) {
		m.ID = fuzzStrings[i] // every pool string occurs as an ID at least once
	}
	switch rng.Intn(3) {
	case 0:
		m.Peers = nil
	case 1:
		m.Peers = []byte{}
	default:
		m.Peers = make([]byte, 1+rng.Intn(12))
		rng.Read(m.Peers)
	}
	switch rng.Intn(4) {
	case 0:
		m.Configuration.Servers = nil
	case 1:
		m.Configuration.Servers = []raft.Server{}
	default:
		n := 1 + rng.Intn(3)
		for k := 0; k < n; k++ {
			m.Configuration.Servers = append(m.Configuration.Servers, raft.Server{
				Suffrage: raft.ServerSuffrage([]int{0, 1, 2, 7}[rng.Intn(4)]), ID: raft.ServerID(pick()), Address: raft.ServerAddress(pick())})
		}
	}
	return m
}

// coerce is what encoding/json does to a string it encodes: every byte that is not part of a
// valid UTF-8 sequence becomes U+FFFD.
func coerce(s string) string {
	var b strings.Builder
	for i := 0; i < len(s); {
		r, w := utf8.DecodeRuneInString(s[i:])
		if r == utf8.RuneError && w == 1 {
			b.WriteString("\uFFFD")
		} else {
			b.WriteString(s[i : i+w])
		}
		i += w
	}
	return b.String()
}

func coerceMeta(m raft.SnapshotMeta) raft.SnapshotMeta {
	m.ID = coerce(m.ID)
	if m.Configuration.Servers != nil {
		ss := make([]raft.Server, len(m.Configuration.Servers))
		for i, s := range m.Configuration.Servers {
			ss[i] = raft.Server{Suffrage: s.Suffrage, ID: raft.ServerID(coerce(string(s.ID))), Address: raft.ServerAddress(coerce(string(s.Address)))}
		}
		m.Configuration.Servers = ss
	}
	return m
}

func validMeta(m *raft.SnapshotMeta) bool {
	ok := utf8.ValidString(m.ID)
	for _, s := range m.Configuration.Servers {
		ok = ok && utf8.ValidString(string(s.ID)) && utf8.ValidString(string(s.Address))
	}
	return ok
}

// parseSums is the reader's line codec, stdlib only.
func parseSums(b []byte) (lines [][2]string, bad int, scanErr error) {
	s := bufio.NewScanner(bytes.NewReader(b))
	for s.Scan() {
		sha := make([]byte, sha256.Size)
		var file string
		if _, err := fmt.Sscanf(s.Text(), "%x  %s", &sha, &file); err != nil {
			bad++
			continue
		}
		lines = append(lines, [2]string{hex.EncodeToString(sha), file})
	}
	return lines, bad, s.Err()
}

type hypCounts map[string]int

func testHypotheses(h hypCounts, m *raft.SnapshotMeta, payload []byte, rng *rand.Rand, splits bool) {
	var eb bytes.Buffer
	if err := json.NewEncoder(&eb).Encode(m); err != nil {
		h["enc_error"]++
		return
	}
	enc := eb.Bytes()
	// enc_nonempty
	if len(enc) > 0 {
		h["enc_nonempty/ok"]++
	} else {
		h["enc_nonempty/FAIL"]++
	}
	// dec_enc: decoding the encoding into the zero struct gives back the struct
	var back raft.SnapshotMeta
	p := &back
	if err := json.Unmarshal(enc, &p); err == nil && p == &back && reflect.DeepEqual(back, *m) {
		h["dec_enc/ok"]++
	} else if !validMeta(m) && err == nil && reflect.DeepEqual(back, coerceMeta(*m)) {
		h["dec_enc/FAIL-invalid-utf8-replaced"]++
	} else {
		h["dec_enc/FAIL-other"]++
	}
	// dec_empty: the empty input does not decode, whatever the current struct
	cur := *m
	q := &cur
	if err := json.Unmarshal([]byte{}, &q); err != nil {
		h["dec_empty/ok"]++
	} else {
		h["dec_empty/FAIL"]++
	}
	// dec_pieces: enc = a ++ b ++ c with a, b non-empty: a and b do not both decode
	if splits {
		for i := 1; i < len(enc); i++ {
			var x raft.SnapshotMeta
			px := &x
			if json.Unmarshal(enc[:i], &px) != nil {
				h["dec_pieces/prefix-fails"]++
				continue
			}
			for j := i + 1; j <= len(enc); j++ {
				y := x
				py := &y
				if json.Unmarshal(enc[i:j], &py) != nil {
					h["dec_pieces/second-fails"]++
				} else {
					h["dec_pieces/FAIL"]++
				}
			}
		}
	}
	// parse_print / scan_print on the lines the writer writes, in both orders
	lm := fmt.Sprintf("%x  %s\n", sha256.Sum256(enc), "meta.json")
	ls := fmt.Sprintf("%x  %s\n", sha256.Sum256(payload), "state.bin")
	em, es := sha256.Sum256(enc), sha256.Sum256(payload)
	for _, txt := range []string{lm + ls, ls + lm} {
		lines, bad, serr := parseSums([]byte(txt))
		want := [][2]string{{hex.EncodeToString(em[:]), "meta.json"}, {hex.EncodeToString(es[:]), "state.bin"}}
		if txt == ls+lm {
			want[0], want[1] = want[1], want[0]
		}
		if bad == 0 && serr == nil && reflect.DeepEqual(lines, want) {
			h["parse_print/ok"]++
		} else {
			h["parse_print/FAIL"]++
		}
		if serr == nil {
			h["scan_print/ok"]++
		} else {
			h["scan_print/FAIL"]++
		}
	}
}

// fuzzPhase writes archives for generated metadata through consul's writer, reads them back
// through consul's reader and emits them as intact cases (oracle: DeepEqual with the original,
// state bytes equal; Coq: the view equals the model's write).
func fuzzPhase(e *emitter, rng *rand.Rand, thorough bool, orders map[string]int) map[string]interface{} {
	n := 160
	if thorough {
		n = 1200
	}
	h := hypCounts{}
	// parse_empty: no lines, no error
	if lines, bad, serr := parseSums(nil); len(lines) == 0 && bad == 0 && serr == nil {
		h["parse_empty/ok"]++
	} else {
		h["parse_empty/FAIL"]++
	}
	sizeClasses := map[string]int{}
	var writerErrs []string
	for i := 0; i < n; i++ {
		m := genMeta(rng, i)
		st := make([]byte, []int{0, 1, 5, 37, 64}[rng.Intn(5)])
		rng.Read(st)
		// Size: the length of the state (what raft guarantees), or not
		cls := "size=len"
		m.Size = int64(len(st))
		if i%4 == 1 {
			switch rng.Intn(4) {
			case 0:
				if len(st) > 0 {
					m.Size = int64(rng.Intn(len(st)))
					cls = "size<len"
				}
			case 1:
				m.Size = int64(len(st) + 1 + rng.Intn(5))
				cls = "size>len"
			case 2:
				m.Size = -1 - int64(rng.Intn(3))
				cls = "size<0"
			default:
				if len(st) > 0 {
					m.Size = 0
					cls = "size<len"
				}
			}
		}
		sizeClasses[cls]++
		payload := st
		if cls == "size<len" {
			payload = st[:m.Size]
		}
		testHypotheses(h, &m, payload, rng, i < 40 || thorough && i < 200)

		for _, gz := range []bool{false, true} {
			var buf bytes.Buffer
			var werr error
			if gz {
				zw := gzip.NewWriter(&buf)
				werr = snapshot.VerifWrite(zw, &m, bytes.NewReader(st))
				zw.Close()
			} else {
				werr = snapshot.VerifWrite(&buf, &m, bytes.NewReader(st))
			}
			if cls == "size>len" || cls == "size<0" {
				// the writer must refuse: no archive may come out of a payload shorter than announced
				if werr == nil {
					c := Case{Type: "case", ID: e.id, Kind: "fuzz-writer-accepted-" + cls, Gz: gz, Oracle: "writer-accepted-short-payload",
						Replay: toFuzz(&m, st), Members: []Member{}, Dec: []DecEntry{}, Lines: []Line{}}
					e.id++
					e.line(&c)
				} else if len(writerErrs) < 4 {
					writerErrs = append(writerErrs, cls+": "+werr.Error())
				}
				sizeClasses[cls+"/writer-refused"]++
				continue
			}
			if werr != nil && !validMeta(&m) {
				// a writer that refuses, loudly, metadata JSON cannot hold loses nothing
				sizeClasses["invalid-utf8/writer-refused"]++
				continue
			}
			if werr != nil {
				c := Case{Type: "case", ID: e.id, Kind: "fuzz-writer-failed", Gz: gz, Oracle: "writer-failed: " + werr.Error(),
					Replay: toFuzz(&m, st), Members: []Member{}, Dec: []DecEntry{}, Lines: []Line{}}
				e.id++
				e.line(&c)
				continue
			}
			data := buf.Bytes()
			ms := membersOf(data, gz)
			wi := writeInfo(&m, payload, ms, newMetaIDs())
			orders[fmt.Sprintf("written-by-consul/ord=%v", wi.Ord)]++
			mm := m
			o := &origin{bi: e.newBase(ms), meta: &mm, state: payload, baseMs: ms, write: wi, fuzz: toFuzz(&m, st)}
			o.isFuzz = true
			kind := "identity-fuzz"
			if cls != "size=len" {
				kind = "identity-fuzz-" + cls
			}
			if gz {
				kind += "+gz"
			}
			c := e.emit(o, mutation{kind, gz, data}, true)
			if c.Oracle == "roundtrip-metadata-differs" {
				sizeClasses[fmt.Sprintf("roundtrip-differs/%v/%v", c.Sig["cause"], c.Sig["read_back"])]++
			}
		}
	}
	res := map[string]interface{}{"metadata_values": n, "size_classes": sizeClasses, "counts": h, "writer_errors": writerErrs}
	return res
}

// replayFuzz re-runs one metadata round trip on the real writer and reader.
func replayFuzz(raw json.RawMessage) {
	var f fuzzMeta
	if err := json.Unmarshal(raw, &f); err != nil {
		panic(err)
	}
	m, st := fromFuzz(&f)
	var buf bytes.Buffer
	if err := snapshot.VerifWrite(&buf, &m, bytes.NewReader(st)); err != nil {
		fmt.Printf("{\"writer_error\":%q}\n", err.Error())
		return
	}
	var back raft.SnapshotMeta
	var out bytes.Buffer
	err := snapshot.VerifRead(bytes.NewReader(buf.Bytes()), &back, &out)
	j, _ := json.Marshal(map[string]interface{}{
		"read_error": fmt.Sprint(err), "original": fmt.Sprintf("%#v", m), "read_back": fmt.Sprintf("%#v", back),
		"metadata_equal": reflect.DeepEqual(m, back), "state_equal": bytes.Equal(out.Bytes(), st),
		"state_len": len(st), "read_state_len": out.Len(),
	})
	fmt.Println(string(j))
}
