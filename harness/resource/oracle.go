package main

import (
	"fmt"
	"strconv"
	"strings"
)

func subjectOf(q JQuery) string {
	if q.P == "*" || q.N == "*" {
		return q.G + "/" + q.K + "/*"
	}
	return q.G + "/" + q.K + "/" + q.P + "/" + q.N
}

// The direct oracle: the clauses of property C18 evaluated on the outputs of the real store
// only. It knows nothing of the Coq model. It reads a sequential schedule (scheduled mode, or
// the witness linearization of a concurrent history) and keeps, from outputs alone:
//   * the commit list of the current epoch (an epoch ends at a restore): every successful write
//     and every delete that hit the live row, in order, with the table after each commit;
//   * per watch the delivered events.
// Clauses:
//   cas-exclusive        two successful writes presented the same non-empty version for one id in one epoch
//   cas-stale-accepted   a successful write presented a version other than the live row's (or non-empty for a dead id)
//   uid-changed          a successful write changed the uid of a live row / was accepted with another uid
//   state-diverged       a snapshot/list/read shows rows that the successful operations do not explain
//                        (e.g. a delete by a stale lifetime that removed the row)
//   watch-*              initial listing is not a state of the store at or before the open; an event is stale,
//                        duplicated, out of commit order or skipped; the drained watch is incomplete
//   read-older-than-event a read returned data older than an event already delivered for that id

type commit struct {
	seq   int
	epoch int
	key   string
	kind  string // upsert delete
	res   JRes
}

type owatch struct {
	q         JQuery
	epoch     int
	openSeq   int // number of commits of the epoch at open time
	listing   []JRes
	live      []JOut // events after end-of-snapshot
	gotEOS    bool
	closed    bool // closed by the caller, or force-closed (saw watchclosed)
	released  bool // Close was called (the topic buffer reference is dropped)
	blocked   bool // the last Next returned noevent
	malformed bool
	subject   string
	residue   string // for a watch opened after a restore: batches of the earlier epoch still queued at its open ("queued"), or an unreleased watch
	// of its own epoch and subject that had them ("inherited": they share the topic buffer and the cached snapshot)
}

type orc struct {
	c       *JCase
	epoch   int
	cur     map[string]JRes
	commits []commit            // of the current epoch
	states  []map[string]JRes   // states[i] = table after i commits of the current epoch
	casSeen map[string]int      // epoch|key|version -> step of the successful write
	watches []*owatch
	queued  int
	floor   map[string]int // key -> minimal commit count a read must reflect (current epoch)
	fail    func(kind string, step int, detail string, extra map[string]string)
	done    bool
}

func copyMap(m map[string]JRes) map[string]JRes {
	c := make(map[string]JRes, len(m))
	for k, v := range m {
		c[k] = v
	}
	return c
}

func qMatches(q JQuery, r JRes) bool {
	if q.G != r.ID.G || q.K != r.ID.K {
		return false
	}
	if q.P != "*" && q.P != r.ID.P {
		return false
	}
	if q.N != "*" && q.N != r.ID.N {
		return false
	}
	return strings.HasPrefix(r.ID.Nm, q.Pre)
}

func listingOf(state map[string]JRes, q JQuery) []JRes {
	var l []JRes
	for _, r := range state {
		if qMatches(q, r) {
			l = append(l, r)
		}
	}
	return sortedByKey(l)
}

func sameList(a, b []JRes) bool {
	if len(a) != len(b) {
		return false
	}
	for i := range a {
		if !resEq(a[i], b[i]) {
			return false
		}
	}
	return true
}

func (o *orc) addCommit(kind string, r JRes) {
	o.commits = append(o.commits, commit{seq: len(o.commits) + 1, epoch: o.epoch, key: r.ID.key(), kind: kind, res: r})
	o.states = append(o.states, copyMap(o.cur))
	o.queued++
}

// expected live events of a watch whose snapshot reflects t commits
func (o *orc) expectedAfter(w *owatch, t int, commits []commit) []commit {
	var l []commit
	for _, c := range commits[t:] {
		if qMatches(w.q, c.res) {
			l = append(l, c)
		}
	}
	return l
}

func evIs(e JOut, c commit) bool {
	return e.Ev == c.kind && e.Res != nil && resEq(*e.Res, c.res)
}

// checkWatch validates what watch w received so far against the commit list of ITS epoch.
func (o *orc) checkWatch(wi int, w *owatch, commits []commit, states []map[string]JRes, step int, final bool, queueEmpty bool) {
	if w.malformed || !w.gotEOS {
		if final && !w.malformed && !w.closed && w.blocked && queueEmpty && !w.gotEOS {
			o.fail("watch-no-snapshot", step, fmt.Sprintf("watch %d never produced end-of-snapshot", wi), nil)
		}
		return
	}
	// 1. the listing is the match set of some state at or before the open
	best, bestErr, bestKind := -1, "", ""
	for t := w.openSeq; t >= 0; t-- {
		if !sameList(sortedByKey(w.listing), listingOf(states[t], w.q)) {
			continue
		}
		exp := o.expectedAfter(w, t, commits)
		ok := true
		for i, e := range w.live {
			if i >= len(exp) || !evIs(e, exp[i]) {
				ok = false
				if best < 0 {
					best = t
					bestKind, bestErr = o.classify(w, e, i, exp, commits, t)
				}
				break
			}
		}
		if ok {
			if final && !w.closed && w.blocked && queueEmpty && len(w.live) != len(exp) {
				o.fail("watch-incomplete", step, fmt.Sprintf("watch %d drained with %d live events, %d committed matching events after its snapshot point %d", wi, len(w.live), len(exp), t),
					map[string]string{"watch": fmt.Sprint(wi)})
			}
			return
		}
	}
	if best < 0 {
		o.fail("watch-snapshot-not-a-state", step, fmt.Sprintf("watch %d: initial listing %v equals the match set of no state at or before the open", wi, w.listing),
			map[string]string{"watch": fmt.Sprint(wi)})
		return
	}
	o.fail(bestKind, step, fmt.Sprintf("watch %d (snapshot point %d): %s", wi, best, bestErr), map[string]string{"watch": fmt.Sprint(wi)})
}

func (o *orc) classify(w *owatch, e JOut, i int, exp []commit, commits []commit, t int) (string, string) {
	// where does the offending event come from?
	for _, c := range commits {
		if evIs(e, c) {
			if c.seq <= t {
				return "watch-stale-event", fmt.Sprintf("live event #%d %s %s v%s was committed at %d, not after the snapshot point", i, e.Ev, e.Res.ID.Nm, e.Res.Ver, c.seq)
			}
			for j := 0; j < i && j < len(w.live); j++ {
				if evIs(w.live[j], c) {
					return "watch-duplicate-event", fmt.Sprintf("live event #%d %s %s v%s delivered twice", i, e.Ev, e.Res.ID.Nm, e.Res.Ver)
				}
			}
			if i < len(exp) {
				return "watch-skipped-event", fmt.Sprintf("live event #%d is commit %d but commit %d (%s %s v%s) was expected first", i, c.seq, exp[i].seq, exp[i].kind, exp[i].res.ID.Nm, exp[i].res.Ver)
			}
			return "watch-out-of-order", fmt.Sprintf("live event #%d is commit %d", i, c.seq)
		}
	}
	v := ""
	if e.Res != nil {
		v = e.Res.ID.Nm + " v" + e.Res.Ver
	}
	return "watch-foreign-event", fmt.Sprintf("live event #%d %s %s is no commit of the watch's epoch (stale event of an earlier epoch or invented)", i, e.Ev, v)
}

type epochRec struct {
	commits []commit
	states  []map[string]JRes
}

func oracleSched(c *JCase) {
	o := &orc{c: c, cur: map[string]JRes{}, casSeen: map[string]int{}, floor: map[string]int{}}
	o.states = []map[string]JRes{{}}
	epochs := map[int]*epochRec{}
	o.fail = func(kind string, step int, detail string, extra map[string]string) {
		if o.done {
			return
		}
		o.done = true
		c.Oracle = fmt.Sprintf("%s: step %d: %s", kind, step, detail)
		c.Sig = map[string]string{"kind": kind}
		for k, v := range extra {
			c.Sig[k] = v
		}
		if wi, ok := extra["watch"]; ok {
			n, _ := strconv.Atoi(wi)
			c.Sig["residue"] = o.watches[n].residue
			if o.watches[n].residue != "none" {
				c.Sig["class"] = "watch-after-restore-residue"
			}
		}
	}
	mal := c.Mode == "sched-malformed"
	writeCalls, casOff := 0, false // writeCalls: the highest version the backend can have handed out so far
	staleDel := map[string]int{}   // key -> step of a delete that returned ok without matching the live row (uid or version)
	diverged := func(step int, key string, detail string) {
		if j, ok := staleDel[key]; ok {
			if _, live := o.cur[key]; live {
				o.fail("delete-stale-accepted", step, fmt.Sprintf("the delete at step %d presented a uid/version that did not match the live row, yet the row is gone: %s", j, detail), nil)
				return
			}
		}
		o.fail("state-diverged", step, detail, nil)
	}
	staleQueued := 0 // batches committed before the latest restore and still unpublished
	saveEpoch := func() { epochs[o.epoch] = &epochRec{o.commits, o.states} }
	restoresSoFar := 0

	for i, s := range c.Steps {
		op, out := s.Op, s.Out
		switch op.T {
		case "write", "writes":
			presented := op.Res.Ver
			if op.T == "writes" {
				presented = op.Vsn
			}
			if op.T == "write" {
				writeCalls++
			} else if v, err := strconv.Atoi(op.Res.Ver); err == nil && v > writeCalls {
				writeCalls = v
			}
			okW := out.T == "res" || (op.T == "writes" && out.T == "ok")
			if !okW {
				break
			}
			stored := *op.Res
			if out.T == "res" {
				stored = *out.Res
				exp := *op.Res
				exp.Ver = stored.Ver
				if !resEq(exp, stored) {
					o.fail("write-result-altered", i, "the returned resource differs from the one written in more than the version", nil)
				}
			}
			key := stored.ID.key()
			if presented != "" {
				ck := fmt.Sprintf("%d|%s|%s", o.epoch, key, presented)
				if j, dup := o.casSeen[ck]; dup && !casOff {
					o.fail("cas-exclusive", i, fmt.Sprintf("writes at steps %d and %d both presented version %s for %s and both succeeded", j, i, presented, stored.ID.Nm),
						map[string]string{"restores_before": fmt.Sprint(restoresSoFar)})
				}
				o.casSeen[ck] = i
			}
			if cur, live := o.cur[key]; live {
				if cur.Uid != stored.Uid {
					o.fail("uid-changed", i, fmt.Sprintf("write accepted with uid %q over live row with uid %q", stored.Uid, cur.Uid), nil)
				} else if cur.Ver != presented {
					o.fail("cas-stale-accepted", i, fmt.Sprintf("write presenting version %q accepted, live version is %q", presented, cur.Ver), nil)
				}
			} else if presented != "" {
				o.fail("cas-stale-accepted", i, fmt.Sprintf("write presenting version %q accepted for an id that is not stored (old lifetime)", presented), nil)
			}
			o.cur[key] = stored
			delete(staleDel, key)
			o.addCommit("upsert", stored)
		case "delete":
			if out.T != "ok" {
				break
			}
			if cur, live := o.cur[op.ID.key()]; live && cur.Uid == op.Uid && cur.Ver == op.Vsn {
				delete(o.cur, op.ID.key())
				delete(staleDel, op.ID.key())
				o.addCommit("delete", cur)
			} else if live {
				staleDel[op.ID.key()] = i
			}
		case "publish":
			if out.B {
				o.queued--
				if staleQueued > 0 {
					staleQueued--
				}
			}
		case "restore":
			saveEpoch()
			restoresSoFar++
			o.epoch++
			o.cur = map[string]JRes{}
			for _, e := range op.List {
				o.cur[e.ID.key()] = e
				if v, err := strconv.Atoi(e.Ver); err != nil || v > writeCalls || v < 1 {
					// outside the contract of a restore (versions the backend never handed out):
					// version freshness, hence the exclusion clause, is not promised afterwards
					casOff = true
					c.Note = "restore installed a version the backend had not handed out"
				}
			}
			staleQueued = o.queued
			o.commits = nil
			o.states = []map[string]JRes{copyMap(o.cur)}
			o.floor = map[string]int{}
			// NB: o.queued is NOT reset: batches committed before the restore are still queued.
		case "snapshot":
			var exp []JRes
			for _, r := range o.cur {
				exp = append(exp, r)
			}
			if !sameList(sortedByKey(exp), sortedByKey(out.List)) {
				got := map[string]bool{}
				for _, r := range out.List {
					got[r.ID.key()] = true
				}
				key := ""
				for _, r := range exp {
					if _, st := staleDel[r.ID.key()]; st && !got[r.ID.key()] {
						key = r.ID.key()
					}
				}
				diverged(i, key, fmt.Sprintf("snapshot shows %v, the successful operations explain %v", sortedByKey(out.List), sortedByKey(exp)))
			}
		case "list":
			if mal || out.T != "list" {
				break
			}
			if exp := listingOf(o.cur, *op.Q); !sameList(exp, sortedByKey(out.List)) {
				o.fail("state-diverged", i, fmt.Sprintf("list %v shows %v, expected %v", *op.Q, out.List, exp), nil)
			}
		case "listowner":
			if mal || out.T != "list" {
				break
			}
			var exp []JRes
			for _, r := range o.cur {
				if r.Own != nil && r.Own.ID == *op.ID && r.Own.Uid == op.Uid {
					exp = append(exp, r)
				}
			}
			if !sameList(sortedByKey(exp), sortedByKey(out.List)) {
				o.fail("state-diverged", i, fmt.Sprintf("list-by-owner %s/%s shows %v, expected %v", op.ID.Nm, op.Uid, out.List, sortedByKey(exp)), nil)
			}
		case "read":
			key := op.ID.key()
			cur, live := o.cur[key]
			var got *JRes
			if out.T == "res" || out.T == "gvm" {
				got = out.Res
			}
			// read-after-event: the answer must be the row of some state at or after the floor
			if fl, has := o.floor[key]; has && op.Uid == "" {
				ok := false
				for t := fl; t < len(o.states); t++ {
					r, in := o.states[t][key]
					if (got == nil && !in) || (got != nil && in && resEq(*got, r)) {
						ok = true
						break
					}
				}
				if !ok {
					o.fail("read-older-than-event", i, fmt.Sprintf("read of %s returned %v; an event reflecting commit %d of that id had been delivered", op.ID.Nm, got, fl), nil)
				}
			}
			if op.Uid == "" || (live && op.Uid == cur.Uid) {
				if live != (got != nil) || (live && !resEq(*got, cur)) {
					diverged(i, key, fmt.Sprintf("read of %s returned %v, expected stored=%v %v", op.ID.Nm, got, live, cur))
				}
			} else if got != nil {
				// a read naming a uid other than the live row's (a deleted lifetime) must not be answered, whatever the GroupVersion
				if live {
					o.fail("read-by-stale-uid-answered", i, fmt.Sprintf("read of %s with uid %q (group version %q) returned %v; the live row has uid %q", op.ID.Nm, op.Uid, op.GV, *got, cur.Uid), nil)
				} else {
					diverged(i, key, fmt.Sprintf("read of %s with uid %q returned %v, nothing is stored", op.ID.Nm, op.Uid, *got))
				}
			}
			if got != nil && live && resEq(*got, cur) && ((out.T == "gvm") != (cur.GV != op.GV)) {
				o.fail("read-group-version-rule", i, fmt.Sprintf("read of %s asking %q, stored %q, answered %s", op.ID.Nm, op.GV, cur.GV, out.T), nil)
			}
		case "watch":
			if out.T == "watch" {
				w := &owatch{q: *op.Q, epoch: o.epoch, openSeq: len(o.commits), malformed: mal, subject: subjectOf(*op.Q), residue: "none"}
				if o.epoch > 0 {
					buf := false
					for _, e := range o.watches {
						if e.subject == w.subject && !e.released && e.epoch == o.epoch && e.residue != "none" {
							buf = true
						}
					}
					switch {
					case buf && staleQueued > 0:
						w.residue = "inherited+queued"
					case buf:
						w.residue = "inherited"
					case staleQueued > 0:
						w.residue = "queued"
					}
				}
				o.watches = append(o.watches, w)
			}
		case "close":
			if op.W >= 0 && op.W < len(o.watches) {
				o.watches[op.W].closed = true
				o.watches[op.W].released = true
			}
		case "next":
			if op.W < 0 || op.W >= len(o.watches) {
				break
			}
			w := o.watches[op.W]
			w.blocked = out.T == "noevent"
			if out.T == "err" {
				w.closed = true
			}
			if out.T != "event" {
				break
			}
			switch {
			case out.Ev == "eos":
				if w.gotEOS {
					o.fail("watch-second-eos", i, fmt.Sprintf("watch %d got a second end-of-snapshot", op.W), map[string]string{"watch": fmt.Sprint(op.W)})
				}
				w.gotEOS = true
			case !w.gotEOS:
				if out.Ev != "upsert" {
					o.fail("watch-delete-in-snapshot", i, "", map[string]string{"watch": fmt.Sprint(op.W)})
				}
				w.listing = append(w.listing, *out.Res)
			default:
				w.live = append(w.live, out)
			}
			if !w.malformed && out.Res != nil && !qMatches(w.q, *out.Res) {
				o.fail("watch-unmatched-event", i, fmt.Sprintf("watch %d %v received an event for %v", op.W, w.q, out.Res.ID), map[string]string{"watch": fmt.Sprint(op.W)})
			}
			// incremental check (prefix property) and read-after-event floor
			commits, states := o.commits, o.states
			if w.epoch != o.epoch {
				commits, states = epochs[w.epoch].commits, epochs[w.epoch].states
			}
			o.checkWatch(op.W, w, commits, states, i, false, false)
			if w.epoch == o.epoch && out.Res != nil && !w.malformed {
				for _, cm := range o.commits {
					if evIs(out, cm) || (out.Ev == "upsert" && cm.kind == "upsert" && resEq(*out.Res, cm.res)) {
						if cm.seq > o.floor[cm.key] {
							o.floor[cm.key] = cm.seq
						}
					}
				}
			}
		}
		if o.done {
			break
		}
	}
	if !o.done {
		saveEpoch()
		for wi, w := range o.watches {
			e := epochs[w.epoch]
			o.checkWatch(wi, w, e.commits, e.states, len(c.Steps), true, o.queued == 0 && w.epoch == o.epoch)
			if o.done {
				break
			}
		}
	}
	// stats for the evidence
	st := map[string]int{}
	for _, s := range c.Steps {
		st["op_"+s.Op.T]++
		k := s.Out.T
		if k == "err" {
			k = "err_" + s.Out.Err
		}
		if k == "event" {
			k = "event_" + s.Out.Ev
		}
		st["out_"+k]++
	}
	st["watches"] = len(o.watches)
	st["restores"] = restoresSoFar
	c.Stats = st
}
