package main

// Hand-written schedules run before the generated ones: the commit/publication gap, snapshot-cache
// reuse, and restore with surviving topic buffers / queued batches.

func mkRes(name, uid, ver string, data int) *JRes {
	return &JRes{ID: JID{G: "g", K: "k", P: "p", N: "n", Nm: name}, GV: "v1", Uid: uid, Ver: ver, Data: data}
}

func runOps(mode string, ops []JOp) *JCase {
	x := newSchedExec()
	c := &JCase{Mode: mode}
	for _, op := range ops {
		c.Steps = append(c.Steps, JStep{op, x.do(op)})
	}
	oracleSched(c)
	return c
}

func corpusCases() []*JCase {
	q := &JQuery{G: "g", K: "k", P: "p", N: "n"}
	qw := &JQuery{G: "g", K: "k", P: "*", N: "*"}
	nx := func(w int) JOp { return JOp{T: "next", W: w} }
	pub := JOp{T: "publish"}
	var out []*JCase

	// 1. watch opened while two commits are queued (DESIGN section 9 finding 13, repaired by b361306)
	out = append(out, runOps("sched", []JOp{
		{T: "write", Res: mkRes("a", "u1", "", 1)},
		{T: "write", Res: mkRes("a", "u1", "1", 2)},
		{T: "watch", Q: q}, nx(0), nx(0), nx(0), pub, nx(0), pub, nx(0),
		{T: "write", Res: mkRes("a", "u1", "2", 3)}, nx(0), pub, nx(0), nx(0),
		{T: "snapshot"},
	}))
	// 2. second watch on the same subject reuses the cached snapshot
	out = append(out, runOps("sched", []JOp{
		{T: "write", Res: mkRes("a", "u1", "", 1)}, pub,
		{T: "watch", Q: q}, nx(0), nx(0),
		{T: "write", Res: mkRes("b", "u2", "", 2)},
		{T: "watch", Q: q}, nx(1), nx(1), nx(1), pub, nx(1), nx(1), nx(0), nx(0),
		{T: "evict", Q: q}, {T: "watch", Q: q}, nx(2), nx(2), nx(2), nx(2),
		{T: "watch", Q: qw}, nx(3), nx(3), nx(3), nx(3),
		{T: "snapshot"},
	}))
	// 3. restore while an earlier watch of the subject is not yet closed: before 2bf672d the topic buffer
	// survived and its old head was spliced after the new snapshot; RefreshTopic now drops it
	out = append(out, runOps("sched", []JOp{
		{T: "watch", Q: q}, nx(0),
		{T: "write", Res: mkRes("a", "u1", "", 1)}, pub, nx(0),
		{T: "restore", List: []JRes{}},
		{T: "watch", Q: q}, nx(1), nx(1), nx(1),
		{T: "write", Res: mkRes("b", "u2", "", 2)}, pub, nx(1), nx(1), nx(0),
		{T: "snapshot"},
	}))
	// 4. restore while a committed batch is still queued (stale upsert delivered before d82b299)
	out = append(out, runOps("sched", []JOp{
		{T: "write", Res: mkRes("a", "u1", "", 1)},
		{T: "restore", List: []JRes{}},
		{T: "watch", Q: q}, nx(0), nx(0), pub, nx(0), nx(0),
		{T: "snapshot"},
	}))
	// 5. restore, all earlier watches closed and queue drained first: the clean case
	out = append(out, runOps("sched", []JOp{
		{T: "watch", Q: q}, nx(0),
		{T: "write", Res: mkRes("a", "u1", "", 1)}, pub, nx(0),
		{T: "restore", List: []JRes{*mkRes("b", "u2", "1", 7)}},
		nx(0), {T: "close", W: 0},
		{T: "watch", Q: q}, nx(1), nx(1), nx(1),
		{T: "write", Res: mkRes("b", "u2", "1", 8)}, pub, nx(1), nx(1),
		{T: "snapshot"},
	}))
	// 6. delete + re-create: the old lifetime can neither write nor delete
	out = append(out, runOps("sched", []JOp{
		{T: "write", Res: mkRes("a", "u1", "", 1)},
		{T: "delete", ID: &JID{G: "g", K: "k", P: "p", N: "n", Nm: "a"}, GV: "v1", Uid: "u1", Vsn: "1"},
		{T: "write", Res: mkRes("a", "u2", "", 2)},
		{T: "write", Res: mkRes("a", "u1", "1", 3)},
		{T: "write", Res: mkRes("a", "u2", "1", 3)},
		{T: "delete", ID: &JID{G: "g", K: "k", P: "p", N: "n", Nm: "a"}, GV: "v1", Uid: "u1", Vsn: "1"},
		{T: "delete", ID: &JID{G: "g", K: "k", P: "p", N: "n", Nm: "a"}, GV: "v1", Uid: "u2", Vsn: "1"},
		{T: "read", ID: &JID{G: "g", K: "k", P: "p", N: "n", Nm: "a"}, GV: "v1"},
		{T: "read", ID: &JID{G: "g", K: "k", P: "p", N: "n", Nm: "a"}, GV: "v2"},
		{T: "read", ID: &JID{G: "g", K: "k", P: "p", N: "n", Nm: "a"}, GV: "v1", Uid: "u1"},
		{T: "snapshot"},
	}))
	return out
}
