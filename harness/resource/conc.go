package main

import (
	"context"
	"errors"
	"fmt"
	"math/rand"
	"sort"
	"strconv"
	"sync"
	"sync/atomic"
	"time"

	"github.com/hashicorp/go-hclog"
	"google.golang.org/grpc"

	"github.com/hashicorp/consul/internal/storage"
	"github.com/hashicorp/consul/internal/storage/inmem"
	"github.com/hashicorp/consul/internal/storage/raft"
)

// ---------------------------------------------------------------- a single-node Raft stand-in

// raftHandle applies each log entry to the backend's FSM side synchronously and in index order,
// as the Raft FSM goroutine does (cf. internal/storage/raft/conformance_test.go).
type raftHandle struct {
	mu      sync.Mutex
	index   uint64
	backend *raft.Backend
}

func (h *raftHandle) Apply(msg []byte) (any, error) {
	h.mu.Lock()
	defer h.mu.Unlock()
	h.index++
	rsp := h.backend.Apply(msg, h.index)
	if err, ok := rsp.(error); ok {
		return nil, err
	}
	return rsp, nil
}
func (h *raftHandle) IsLeader() bool                                { return true }
func (h *raftHandle) EnsureStrongConsistency(context.Context) error { return nil }
func (h *raftHandle) DialLeader() (*grpc.ClientConn, error) {
	return nil, errors.New("leader does not dial itself")
}

// ---------------------------------------------------------------- recording

type cop struct {
	op         JOp
	out        JOut
	start, end int64
	worker     int
	pos        int // commit position (1..m) or 0
	gap        int // for non-commits: number of commits before it
}

type wrec struct {
	q       JQuery
	openEnd int64
	events  []JOut
	reads   []JOut // the read made right after each event (same index)
	err     string
}

func nextEvent(ctx context.Context, w storage.Watch) (JOut, error) {
	ev, err := w.Next(ctx)
	if err != nil {
		return JOut{}, err
	}
	switch {
	case ev.GetUpsert() != nil:
		r := fromPB(ev.GetUpsert().Resource)
		return JOut{T: "event", Ev: "upsert", Res: &r}, nil
	case ev.GetDelete() != nil:
		r := fromPB(ev.GetDelete().Resource)
		return JOut{T: "event", Ev: "delete", Res: &r}, nil
	}
	return JOut{T: "event", Ev: "eos"}, nil
}

// ---------------------------------------------------------------- one concurrent history

func runConcurrent(seed int64, useRaft bool) *JCase {
	rng := rand.New(rand.NewSource(seed))
	c := &JCase{Mode: "conc-inmem", Seed: seed}
	ctx, cancel := context.WithCancel(context.Background())
	defer cancel()

	var be storage.Backend
	if useRaft {
		c.Mode = "conc-raft"
		h := &raftHandle{}
		b, err := raft.NewBackend(h, hclog.NewNullLogger())
		if err != nil {
			panic(err)
		}
		h.backend = b
		go b.Run(ctx)
		be = b
	} else {
		b, err := inmem.NewBackend()
		if err != nil {
			panic(err)
		}
		go b.Run(ctx)
		be = b
	}

	var clock int64
	tick := func() int64 { return atomic.AddInt64(&clock, 1) }

	ids := []JID{{G: "g", K: "k", P: "p", N: "n", Nm: "a"}, {G: "g", K: "k", P: "p", N: "n", Nm: "ab"}, {G: "g", K: "k", P: "p", N: "m", Nm: "a"}}
	if rng.Intn(3) == 0 {
		ids = ids[:1+rng.Intn(2)]
	}
	marker := JID{G: "g", K: "k", P: "p", N: "n", Nm: "zz"}
	typ := storage.UnversionedType{Group: "g", Kind: "k"}
	ten := func(p, n string) *JID { return &JID{P: p, N: n} }

	// the global watcher: everything of type g/k, opened before any write
	gw, err := be.WatchList(ctx, typ, pbID(*ten("*", "*"), "", "").Tenancy, "")
	if err != nil {
		panic(err)
	}
	var global []JOut
	gdone := make(chan struct{})
	go func() {
		defer close(gdone)
		for {
			ev, err := nextEvent(ctx, gw)
			if err != nil {
				return
			}
			global = append(global, ev)
			if ev.Res != nil && ev.Res.ID == marker {
				return
			}
		}
	}()

	nWorkers := 2 + rng.Intn(5)
	nOps := 6 + rng.Intn(14)
	recs := make([][]*cop, nWorkers)
	var wg sync.WaitGroup
	for w := 0; w < nWorkers; w++ {
		wg.Add(1)
		wseed := rng.Int63()
		go func(w int) {
			defer wg.Done()
			r := rand.New(rand.NewSource(wseed))
			known := map[string]JRes{} // what this worker last saw per id
			for i := 0; i < nOps; i++ {
				id := ids[r.Intn(len(ids))]
				var op JOp
				cur, have := known[id.key()]
				switch x := r.Intn(100); {
				case x < 45:
					res := JRes{ID: id, GV: "v1", Uid: "u" + strconv.Itoa(1+r.Intn(2)), Data: r.Intn(50)}
					if have && r.Intn(10) < 8 {
						res.Uid, res.Ver = cur.Uid, cur.Ver
					} else if r.Intn(3) == 0 {
						res.Ver = strconv.Itoa(1 + r.Intn(30))
					}
					if r.Intn(4) == 0 {
						res.Own = &JOwner{ID: ids[0], Uid: "u1"}
					}
					op = JOp{T: "write", Res: &res}
				case x < 60:
					op = JOp{T: "delete", ID: &id, GV: "v1", Uid: "u" + strconv.Itoa(1+r.Intn(2)), Vsn: strconv.Itoa(1 + r.Intn(30))}
					if have && r.Intn(10) < 8 {
						op.Uid, op.Vsn = cur.Uid, cur.Ver
					}
				case x < 85:
					op = JOp{T: "read", ID: &id, GV: "v1"}
				case x < 95:
					q := &JQuery{G: "g", K: "k", P: "p", N: []string{"n", "*"}[r.Intn(2)], Pre: []string{"", "a", "ab"}[r.Intn(3)]}
					op = JOp{T: "list", Q: q}
				default:
					op = JOp{T: "listowner", ID: &ids[0], Uid: "u1"}
				}
				rec := &cop{op: op, worker: w, start: tick()}
				switch op.T {
				case "write":
					res, err := be.WriteCAS(ctx, toPB(*op.Res))
					if err != nil {
						rec.out = errOut(err)
					} else {
						s := fromPB(res)
						rec.out = JOut{T: "res", Res: &s}
						known[id.key()] = s
					}
				case "delete":
					if err := be.DeleteCAS(ctx, pbID(*op.ID, op.GV, op.Uid), op.Vsn); err != nil {
						rec.out = errOut(err)
					} else {
						rec.out = JOut{T: "ok"}
					}
				case "read":
					res, err := be.Read(ctx, storage.EventualConsistency, pbID(*op.ID, op.GV, ""))
					if err != nil {
						rec.out = errOut(err)
						if rec.out.Err == "notfound" {
							delete(known, id.key())
						}
					} else {
						s := fromPB(res)
						rec.out = JOut{T: "res", Res: &s}
						known[id.key()] = s
					}
				case "list":
					l, err := be.List(ctx, storage.EventualConsistency, typ, pbID(JID{P: op.Q.P, N: op.Q.N}, "", "").Tenancy, op.Q.Pre)
					if err != nil {
						rec.out = errOut(err)
					} else {
						rec.out = JOut{T: "list", List: fromPBList(l)}
					}
				case "listowner":
					l, err := be.ListByOwner(ctx, pbID(*op.ID, "v1", op.Uid))
					if err != nil {
						rec.out = errOut(err)
					} else {
						rec.out = JOut{T: "list", List: fromPBList(l)}
					}
				}
				rec.end = tick()
				recs[w] = append(recs[w], rec)
				if r.Intn(4) == 0 {
					time.Sleep(time.Duration(r.Intn(40)) * time.Microsecond)
				}
			}
		}(w)
	}

	// extra watchers with their own queries, opened while the writers run; each reads the id
	// of every event right after receiving it
	nWatch := 1 + rng.Intn(3)
	wrecs := make([]*wrec, nWatch)
	wctx, wcancel := context.WithCancel(ctx)
	var wwg sync.WaitGroup
	for i := 0; i < nWatch; i++ {
		q := JQuery{G: "g", K: "k", P: "p", N: []string{"n", "*", "m"}[rng.Intn(3)], Pre: []string{"", "", "a", "ab"}[rng.Intn(4)]}
		wr := &wrec{q: q}
		wrecs[i] = wr
		delay := time.Duration(rng.Intn(300)) * time.Microsecond
		wwg.Add(1)
		go func() {
			defer wwg.Done()
			time.Sleep(delay)
			w, err := be.WatchList(wctx, typ, pbID(JID{P: q.P, N: q.N}, "", "").Tenancy, q.Pre)
			if err != nil {
				wr.err = err.Error()
				return
			}
			wr.openEnd = tick()
			defer w.Close()
			for {
				ev, err := nextEvent(wctx, w)
				if err != nil {
					return
				}
				var rd JOut
				if ev.Res != nil {
					res, err := be.Read(wctx, storage.EventualConsistency, pbID(ev.Res.ID, ev.Res.GV, ""))
					if err != nil {
						rd = errOut(err)
					} else {
						s := fromPB(res)
						rd = JOut{T: "res", Res: &s}
					}
				}
				wr.events = append(wr.events, ev)
				wr.reads = append(wr.reads, rd)
				if ev.Res != nil && ev.Res.ID == marker {
					return
				}
			}
		}()
	}

	wg.Wait()
	// the marker: the last commit; every watcher that can see it stops at it
	mrec := &cop{op: JOp{T: "write", Res: &JRes{ID: marker, GV: "v1", Uid: "um", Data: 0}}, worker: nWorkers, start: tick()}
	mres, err := be.WriteCAS(ctx, toPB(*mrec.op.Res))
	if err != nil {
		panic(err)
	}
	ms := fromPB(mres)
	mrec.out = JOut{T: "res", Res: &ms}
	mrec.end = tick()
	select {
	case <-gdone:
	case <-time.After(20 * time.Second):
		c.Oracle = "conc-global-watch-stalled: the wildcard watch did not deliver the marker commit within 20s"
		c.Sig = map[string]string{"kind": "conc-global-watch-stalled"}
		wcancel()
		return c
	}
	// watchers that cannot see the marker are stopped after a grace period
	done := make(chan struct{})
	go func() { wwg.Wait(); close(done) }()
	select {
	case <-done:
	case <-time.After(30 * time.Millisecond):
	}
	wcancel()
	wwg.Wait()
	gw.Close()

	var all []*cop
	for _, l := range recs {
		all = append(all, l...)
	}
	all = append(all, mrec)
	linearize(c, all, global, wrecs)
	c.Stats = map[string]int{"workers": nWorkers, "ops": len(all), "commits": len(global) - 1, "watchers": nWatch}
	if c.Oracle != "" {
		for _, o := range all {
			c.History = append(c.History, JHist{o.worker, o.start, o.end, o.op, o.out})
		}
		sort.Slice(c.History, func(i, j int) bool { return c.History[i].Start < c.History[j].Start })
		c.Watched = global
		c.Note = "concurrent history: not replayable deterministically; re-run with the same -seed (the schedule is the runtime's)"
	}
	if c.Oracle == "" {
		oracleSched(c) // the clauses of the property on the witness history (CAS exclusion, uids, lifetimes, reads)
		st := c.Stats
		st["workers"], st["ops"], st["commits"], st["watchers"] = nWorkers, len(all), len(global)-1, nWatch
	}
	return c
}

// ---------------------------------------------------------------- witness linearization

func failConc(c *JCase, kind, detail string) {
	if c.Oracle == "" {
		c.Oracle = kind + ": " + detail
		c.Sig = map[string]string{"kind": kind}
	}
}

func applyEv(state map[string]JRes, e JOut) {
	if e.Ev == "upsert" {
		state[e.Res.ID.key()] = *e.Res
	} else if e.Ev == "delete" {
		delete(state, e.Res.ID.key())
	}
}

// consistent: would the store in `state` have answered `out` to the (non-committing) op?
func consistent(state map[string]JRes, o *cop) bool {
	op, out := o.op, o.out
	switch op.T {
	case "write":
		cur, live := state[op.Res.ID.key()]
		switch out.Err {
		case "wronguid":
			return live && cur.Uid != op.Res.Uid
		case "cas":
			return (!live && op.Res.Ver != "") || (live && cur.Uid == op.Res.Uid && cur.Ver != op.Res.Ver)
		}
		return false
	case "delete":
		cur, live := state[op.ID.key()]
		if out.T == "ok" { // a delete that hit nothing
			return !live || cur.Uid != op.Uid
		}
		return out.Err == "cas" && live && cur.Uid == op.Uid && cur.Ver != op.Vsn
	case "read":
		cur, live := state[op.ID.key()]
		switch out.T {
		case "res":
			return live && cur.GV == op.GV && resEq(cur, *out.Res)
		case "gvm":
			return live && cur.GV != op.GV && resEq(cur, *out.Res)
		}
		return out.Err == "notfound" && !live
	case "list":
		return sameList(listingOf(state, *op.Q), sortedByKey(out.List))
	case "listowner":
		var l []JRes
		for _, r := range state {
			if r.Own != nil && r.Own.ID == *op.ID && r.Own.Uid == op.Uid {
				l = append(l, r)
			}
		}
		return sameList(sortedByKey(l), sortedByKey(out.List))
	}
	return false
}

func linearize(c *JCase, all []*cop, global []JOut, wrecs []*wrec) {
	// the global watch: end-of-snapshot first (the store was empty), then the commits in order
	if len(global) == 0 || global[0].Ev != "eos" {
		failConc(c, "conc-global-watch", "the wildcard watch opened on the empty store did not start with end-of-snapshot")
		return
	}
	commits := global[1:]
	m := len(commits)
	// table after p commits
	states := make([]map[string]JRes, m+1)
	states[0] = map[string]JRes{}
	for p, e := range commits {
		s := copyMap(states[p])
		applyEv(s, e)
		states[p+1] = s
	}
	// candidates: the operations that can have made each commit. A successful write is identified by
	// its fresh version; a delete event can belong to any successful delete with the same id, uid and
	// version (the others hit nothing), so all attributions are tried.
	cands := make([][]*cop, m)
	for p, e := range commits {
		for _, o := range all {
			switch {
			case e.Ev == "upsert" && o.op.T == "write" && o.out.T == "res" && resEq(*o.out.Res, *e.Res):
			case e.Ev == "delete" && o.op.T == "delete" && o.out.T == "ok" && *o.op.ID == e.Res.ID && o.op.Uid == e.Res.Uid && o.op.Vsn == e.Res.Ver:
			default:
				continue
			}
			cands[p] = append(cands[p], o)
		}
		if len(cands[p]) == 0 {
			failConc(c, "conc-event-without-operation", fmt.Sprintf("commit %d (%s %v) was made by no recorded operation", p+1, e.Ev, *e.Res))
			return
		}
		sort.Slice(cands[p], func(i, j int) bool { return cands[p][i].end < cands[p][j].end })
	}
	evCount := map[string]int{}
	for _, e := range commits {
		if e.Ev == "upsert" {
			evCount[e.Res.ID.key()+"|"+e.Res.Ver]++
		}
	}
	for _, o := range all {
		if o.op.T == "write" && o.out.T == "res" && evCount[o.out.Res.ID.key()+"|"+o.out.Res.Ver] != 1 {
			failConc(c, "conc-write-without-event", fmt.Sprintf("successful write %v reached the wildcard watch %d times", *o.out.Res, evCount[o.out.Res.ID.key()+"|"+o.out.Res.Ver]))
			return
		}
	}
	byPos := make([]*cop, m+1)
	used := map[*cop]bool{}
	firstKind, firstDetail := "", ""
	tries := 0
	var attempt func(p int) bool
	attempt = func(p int) bool {
		if p == m {
			tries++
			kind, detail := place(c, all, byPos, states, m)
			if kind == "" {
				return true
			}
			if firstKind == "" {
				firstKind, firstDetail = kind, detail
			}
			return false
		}
		for _, o := range cands[p] {
			if used[o] || tries > 200 {
				continue
			}
			// real time: o must not have returned before an earlier commit was invoked
			okRT := true
			for q := 1; q <= p; q++ {
				if byPos[q].start > o.end {
					okRT = false
				}
			}
			if !okRT {
				continue
			}
			used[o], byPos[p+1] = true, o
			if attempt(p + 1) {
				return true
			}
			used[o] = false
		}
		return false
	}
	if !attempt(0) {
		if firstKind == "" {
			firstKind, firstDetail = "conc-commit-order-vs-real-time", "no attribution of the commits to operations respects the order in which the operations returned and were invoked"
		}
		failConc(c, firstKind, firstDetail)
		return
	}
	// the watchers, against the commit order
	for wi, w := range wrecs {
		checkConcWatch(c, wi, w, commits, states)
	}
}

// place puts the non-committing operations between the commits (attributed by byPos) and, on
// success, writes the witness history into c.Steps.
func place(c *JCase, all []*cop, byPos []*cop, states []map[string]JRes, m int) (string, string) {
	for _, o := range all {
		o.pos = 0
	}
	for p := 1; p <= m; p++ {
		byPos[p].pos = p
	}
	var rest []*cop
	for _, o := range all {
		if o.pos == 0 {
			rest = append(rest, o)
		}
	}
	sort.Slice(rest, func(i, j int) bool { return rest[i].start < rest[j].start })
	for i, o := range rest {
		lo, hi := 0, m
		for p := 1; p <= m; p++ {
			if byPos[p].end < o.start && p > lo {
				lo = p
			}
			if byPos[p].start > o.end && p-1 < hi {
				hi = p - 1
			}
		}
		for _, e := range rest[:i] {
			if e.end < o.start && e.gap > lo {
				lo = e.gap
			}
		}
		o.gap = -1
		for g := lo; g <= hi; g++ {
			if consistent(states[g], o) {
				o.gap = g
				break
			}
		}
		if o.gap < 0 {
			ob, _ := jsonStr(o.op)
			return "conc-no-linearization", fmt.Sprintf("%s -> %v (worker %d, [%d,%d]) is explained by no state between commits %d and %d", ob, o.out, o.worker, o.start, o.end, lo, hi)
		}
	}
	// the witness history, as Store-level steps
	gaps := make([][]*cop, m+1)
	for _, o := range rest {
		gaps[o.gap] = append(gaps[o.gap], o)
	}
	c.Steps = nil
	emitOp := func(o *cop) {
		op, out := o.op, o.out
		if op.T == "write" {
			if out.T == "res" {
				op = JOp{T: "writes", Res: out.Res, Vsn: o.op.Res.Ver}
				out = JOut{T: "ok"}
			} else {
				// the version the backend drew for a refused write is not observable: any will do
				r := *op.Res
				op = JOp{T: "writes", Res: &r, Vsn: o.op.Res.Ver}
				op.Res.Ver = "999999"
			}
		}
		c.Steps = append(c.Steps, JStep{op, out})
	}
	for g := 0; g <= m; g++ {
		if g > 0 {
			emitOp(byPos[g])
		}
		for _, o := range gaps[g] {
			emitOp(o)
		}
	}
	return "", ""
}

func checkConcWatch(c *JCase, wi int, w *wrec, commits []JOut, states []map[string]JRes) {
	if w.err != "" || len(w.events) == 0 {
		return
	}
	var listing []JRes
	i := 0
	for ; i < len(w.events) && w.events[i].Ev != "eos"; i++ {
		if w.events[i].Ev != "upsert" {
			failConc(c, "conc-watch-delete-in-snapshot", fmt.Sprintf("watcher %d", wi))
			return
		}
		listing = append(listing, *w.events[i].Res)
	}
	if i == len(w.events) {
		return // stopped inside the snapshot
	}
	live := w.events[i+1:]
	liveReads := w.reads[i+1:]
	m := len(commits)
	okT := -1
	for t := m; t >= 0 && okT < 0; t-- {
		if !sameList(sortedByKey(listing), listingOf(states[t], w.q)) {
			continue
		}
		var exp []JOut
		for _, e := range commits[t:] {
			if qMatches(w.q, *e.Res) {
				exp = append(exp, e)
			}
		}
		good := len(live) <= len(exp)
		for j := 0; good && j < len(live); j++ {
			good = live[j].Ev == exp[j].Ev && resEq(*live[j].Res, *exp[j].Res)
		}
		if good {
			okT = t
			// complete when the watcher ran up to the marker
			if n := len(live); n > 0 && live[n-1].Res.ID.Nm == "zz" && n != len(exp) {
				failConc(c, "conc-watch-incomplete", fmt.Sprintf("watcher %d saw the marker after %d live events, %d matching commits follow its snapshot point %d", wi, n, len(exp), t))
				return
			}
		}
	}
	if okT < 0 {
		failConc(c, "conc-watch-sequence", fmt.Sprintf("watcher %d %v: listing %v then %d live events is not (match set of a state, then the matching commits after it in order)", wi, w.q, listing, len(live)))
		return
	}
	// read-after-event: the read made after event j must show the id at or after that commit
	pos := okT
	for j, e := range live {
		for pos < len(commits) && !(commits[pos].Ev == e.Ev && resEq(*commits[pos].Res, *e.Res)) {
			pos++
		}
		pos++ // number of commits reflected by event j
		key := e.Res.ID.key()
		rd := liveReads[j]
		ok := false
		for t := pos; t <= len(commits) && !ok; t++ {
			r, in := states[t][key]
			ok = (rd.T == "err" && rd.Err == "notfound" && !in) || ((rd.T == "res" || rd.T == "gvm") && in && resEq(*rd.Res, r))
		}
		if !ok {
			failConc(c, "conc-read-older-than-event", fmt.Sprintf("watcher %d: after %s %s v%s the read returned %v", wi, e.Ev, e.Res.ID.Nm, e.Res.Ver, rd))
			return
		}
	}
	for j := 0; j < i; j++ { // reads after snapshot events: at or after the snapshot point
		e, rd := w.events[j], w.reads[j]
		ok := false
		for t := okT; t <= len(commits) && !ok; t++ {
			r, in := states[t][e.Res.ID.key()]
			ok = (rd.T == "err" && rd.Err == "notfound" && !in) || ((rd.T == "res" || rd.T == "gvm") && in && resEq(*rd.Res, r))
		}
		if !ok {
			failConc(c, "conc-read-older-than-event", fmt.Sprintf("watcher %d: after the snapshot row %s v%s the read returned %v", wi, e.Res.ID.Nm, e.Res.Ver, rd))
			return
		}
	}
}
