package main

func runConcurrent(seed int64, raft bool) *JCase { return &JCase{Mode: "conc-stub", Seed: seed} }
