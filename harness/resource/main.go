// Harness for property C18 (resource store: version CAS, stable UIDs, ordered watches).
//
// Compiled inside consul's module by the build overlay as
// github.com/hashicorp/consul/internal/verifharness/resource (-tags verif).
//
// Modes (all randomness from -seed):
//   - scheduled: the real inmem.Backend/Store WITHOUT its Run goroutine; a generated schedule of
//     write / delete / read / list / list-by-owner / watch-open / watch-next / watch-close /
//     publish-one / restore / snapshot / cache-evict steps is executed deterministically and
//     every output recorded (the Coq model replays the same schedule).
//   - concurrent: N goroutines against the real store with its Run goroutine (inmem, and the
//     Raft-backed store in the thorough tier); a witness linearization is built from what the
//     store itself produced (commit order seen by a wildcard watch) and emitted as a linear
//     history of Store-level steps for the model to replay.
//
// Each output line is one case: {"mode","steps":[{"op":..,"out":..}],"oracle":"","sig":{..},"stats":{..}}.
package main

import (
	"bufio"
	"encoding/json"
	"flag"
	"fmt"
	"math/rand"
	"os"
	"sort"
	"strconv"
	"sync"

	"google.golang.org/protobuf/types/known/anypb"

	"github.com/hashicorp/consul/proto-public/pbresource"
)

// ---------------------------------------------------------------- JSON shapes

type JID struct {
	G, K, P, N, Nm string
}

type JOwner struct {
	ID  JID    `json:"id"`
	Uid string `json:"uid"`
}

type JRes struct {
	ID   JID     `json:"id"`
	GV   string  `json:"gv"`
	Uid  string  `json:"uid"`
	Ver  string  `json:"ver"` // decimal or ""
	Data int     `json:"data"`
	Own  *JOwner `json:"own,omitempty"`
}

type JQuery struct {
	G, K, P, N, Pre string
}

type JOp struct {
	T    string  `json:"t"` // write writes delete read list listowner watch next close publish restore snapshot evict
	Res  *JRes   `json:"res,omitempty"`
	Vsn  string  `json:"vsn,omitempty"` // writes / delete: presented version
	ID   *JID    `json:"id,omitempty"`
	GV   string  `json:"gv,omitempty"`
	Uid  string  `json:"uid,omitempty"`
	Q    *JQuery `json:"q,omitempty"`
	W    int     `json:"w,omitempty"`
	List []JRes  `json:"list,omitempty"`
}

type JOut struct {
	T    string `json:"t"` // ok res list err gvm event noevent watch bool
	Res  *JRes  `json:"res,omitempty"`
	List []JRes `json:"list"`
	Err  string `json:"err,omitempty"` // notfound cas wronguid watchclosed other
	Ev   string `json:"ev,omitempty"`  // upsert delete eos
	W    int    `json:"w,omitempty"`
	B    bool   `json:"b,omitempty"`
}

type JStep struct {
	Op  JOp  `json:"op"`
	Out JOut `json:"out"`
}

type JCase struct {
	Mode   string            `json:"mode"`
	Seed   int64             `json:"seed"`
	Steps  []JStep           `json:"steps"`
	Oracle string            `json:"oracle"`
	Sig    map[string]string `json:"sig,omitempty"`
	Stats  map[string]int    `json:"stats,omitempty"`
	Note   string            `json:"note,omitempty"`
	// concurrent mode, on failure: the recorded history (logical invocation/response times per op)
	History []JHist `json:"history,omitempty"`
	Watched []JOut  `json:"global_watch,omitempty"`
}

type JHist struct {
	Worker int   `json:"worker"`
	Start  int64 `json:"start"`
	End    int64 `json:"end"`
	Op     JOp   `json:"op"`
	Out    JOut  `json:"out"`
}

// ---------------------------------------------------------------- conversions

func (i JID) key() string { return i.G + "\x00" + i.K + "\x00" + i.P + "\x00" + i.N + "\x00" + i.Nm + "\x00" }

func pbID(i JID, gv, uid string) *pbresource.ID {
	return &pbresource.ID{
		Type:    &pbresource.Type{Group: i.G, GroupVersion: gv, Kind: i.K},
		Tenancy: &pbresource.Tenancy{Partition: i.P, Namespace: i.N},
		Name:    i.Nm,
		Uid:     uid,
	}
}

func toPB(r JRes) *pbresource.Resource {
	res := &pbresource.Resource{
		Id:      pbID(r.ID, r.GV, r.Uid),
		Version: r.Ver,
		Data:    &anypb.Any{TypeUrl: "verif/data", Value: []byte(strconv.Itoa(r.Data))},
	}
	if r.Own != nil {
		res.Owner = pbID(r.Own.ID, "v1", r.Own.Uid)
	}
	return res
}

func fromPBID(id *pbresource.ID) JID {
	return JID{G: id.Type.Group, K: id.Type.Kind, P: id.Tenancy.Partition, N: id.Tenancy.Namespace, Nm: id.Name}
}

func fromPB(r *pbresource.Resource) JRes {
	d := 0
	if r.Data != nil {
		d, _ = strconv.Atoi(string(r.Data.Value))
	}
	out := JRes{ID: fromPBID(r.Id), GV: r.Id.Type.GroupVersion, Uid: r.Id.Uid, Ver: r.Version, Data: d}
	if r.Owner != nil {
		out.Own = &JOwner{ID: fromPBID(r.Owner), Uid: r.Owner.Uid}
	}
	return out
}

func fromPBList(l []*pbresource.Resource) []JRes {
	out := make([]JRes, 0, len(l))
	for _, r := range l {
		out = append(out, fromPB(r))
	}
	return out
}

func (r JRes) String() string {
	o := ""
	if r.Own != nil {
		o = " owner=" + r.Own.ID.Nm + "/" + r.Own.Uid
	}
	return fmt.Sprintf("{%s/%s/%s/%s/%s gv=%s uid=%s v%s data=%d%s}", r.ID.G, r.ID.K, r.ID.P, r.ID.N, r.ID.Nm, r.GV, r.Uid, r.Ver, r.Data, o)
}

func (o JOut) String() string {
	b, _ := json.Marshal(o)
	return string(b)
}

func resEq(a, b JRes) bool {
	if a.ID != b.ID || a.GV != b.GV || a.Uid != b.Uid || a.Ver != b.Ver || a.Data != b.Data {
		return false
	}
	if (a.Own == nil) != (b.Own == nil) {
		return false
	}
	return a.Own == nil || *a.Own == *b.Own
}

func sortedByKey(l []JRes) []JRes {
	c := append([]JRes(nil), l...)
	sort.Slice(c, func(i, j int) bool { return c[i].ID.key() < c[j].ID.key() })
	return c
}

func jsonStr(v any) (string, error) {
	b, err := json.Marshal(v)
	return string(b), err
}

// ---------------------------------------------------------------- main

func main() {
	seed := flag.Int64("seed", 1, "PRNG seed")
	tier := flag.String("tier", "quick", "quick|thorough")
	out := flag.String("out", "", "output file (JSON lines)")
	replay := flag.String("replay", "", "replay file: re-executes the schedule in it on the real store")
	race := flag.Bool("conc", true, "run the concurrent histories as well")
	shrink := flag.String("shrink", "", "case file (one JSON case): print the case with a minimised schedule")
	oSched := flag.Int("nsched", -1, "override: number of generated schedules")
	oConc := flag.Int("nconc", -1, "override: number of concurrent histories (inmem)")
	oRaft := flag.Int("nraft", -1, "override: number of concurrent histories (raft-backed)")
	oRest := flag.Int("nrestore", -1, "override: number of concurrent histories with restores and re-opening watchers")
	flag.Parse()

	if *replay != "" {
		os.Exit(doReplay(*replay))
	}
	if *shrink != "" {
		os.Exit(doShrink(*shrink))
	}
	if *out == "" {
		fmt.Fprintln(os.Stderr, "need -out")
		os.Exit(2)
	}
	f, err := os.Create(*out)
	if err != nil {
		panic(err)
	}
	w := bufio.NewWriterSize(f, 1<<20)
	var mu sync.Mutex
	emit := func(c *JCase) {
		b, err := json.Marshal(c)
		if err != nil {
			panic(err)
		}
		mu.Lock()
		w.Write(b)
		w.WriteByte('\n')
		mu.Unlock()
	}

	nSched, nMal, nConc, nRaft := 1200, 200, 450, 150
	if *tier == "thorough" {
		nSched, nMal, nConc, nRaft = 12000, 2000, 3000, 1000
	}
	if *oSched >= 0 {
		nSched, nMal = *oSched, *oSched/6
	}
	if *oConc >= 0 {
		nConc = *oConc
	}
	if *oRaft >= 0 {
		nRaft = *oRaft
	}
	rng := rand.New(rand.NewSource(*seed))

	// fixed corpus of hand-written schedules first (gap, cache, restore corner cases)
	for i, c := range corpusCases() {
		c.Seed = int64(-1 - i)
		emit(c)
	}
	if *tier == "thorough" && *oSched < 0 {
		runExhaustive(5, emit)
	}
	runSchedBatch(rng, nSched, false, emit)
	runSchedBatch(rng, nMal, true, emit)
	if *race {
		for i := 0; i < nConc; i++ {
			emit(runConcurrent(rng.Int63(), false))
		}
		for i := 0; i < nRaft; i++ {
			emit(runConcurrent(rng.Int63(), true))
		}
		nRest := 700
		if *tier == "thorough" {
			nRest = 4000
		}
		if *oRest >= 0 {
			nRest = *oRest
		}
		deadlocks := 0
		for i := 0; i < nRest && deadlocks < 1; i++ { // goroutines of a deadlocked store stay blocked: stop at the first
			c := runConcRestore(rng.Int63())
			if c.Sig != nil && (c.Sig["kind"] == "conc-restore-deadlock" || c.Sig["kind"] == "conc-restore-stalled") {
				deadlocks++
			}
			emit(c)
		}
	}
	w.Flush()
	f.Close()
}
