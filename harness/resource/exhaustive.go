package main

import "strconv"

// Thorough tier: every schedule of a fixed length over a small symbolic alphabet on one id
// (write-or-update, delete, watch-open, next on the first two watches, publish-one, restore to empty,
// close the first watch), each followed by a drain (publish everything, read every watch dry).

var exhAlphabet = []string{"W", "D", "O", "N0", "N1", "P", "R", "C"}

func runExhaustive(depth int, emit func(*JCase)) int {
	n := 1
	for i := 0; i < depth; i++ {
		n *= len(exhAlphabet)
	}
	q := &JQuery{G: "g", K: "k", P: "p", N: "n"}
	id := JID{G: "g", K: "k", P: "p", N: "n", Nm: "a"}
	for code := 0; code < n; code++ {
		x := newSchedExec()
		c := &JCase{Mode: "sched-exhaustive", Seed: int64(code)}
		var cur *JRes
		nWatch, uidN := 0, 0
		do := func(op JOp) JOut {
			out := x.do(op)
			c.Steps = append(c.Steps, JStep{op, out})
			return out
		}
		k := code
		for i := 0; i < depth; i++ {
			sym := exhAlphabet[k%len(exhAlphabet)]
			k /= len(exhAlphabet)
			switch sym {
			case "W":
				res := JRes{ID: id, GV: "v1", Data: i}
				if cur != nil {
					res.Uid, res.Ver = cur.Uid, cur.Ver
				} else {
					uidN++
					res.Uid = "u" + strconv.Itoa(uidN)
				}
				if out := do(JOp{T: "write", Res: &res}); out.T == "res" {
					cur = out.Res
				}
			case "D":
				op := JOp{T: "delete", ID: &id, GV: "v1", Uid: "u1", Vsn: "1"}
				if cur != nil {
					op.Uid, op.Vsn = cur.Uid, cur.Ver
				}
				if out := do(op); out.T == "ok" {
					cur = nil
				}
			case "O":
				do(JOp{T: "watch", Q: q})
				nWatch++
			case "N0":
				do(JOp{T: "next", W: 0})
			case "N1":
				do(JOp{T: "next", W: 1})
			case "P":
				do(JOp{T: "publish"})
			case "R":
				do(JOp{T: "restore", List: []JRes{}})
				cur = nil
			case "C":
				do(JOp{T: "close", W: 0})
			}
		}
		for x.queued() > 0 {
			do(JOp{T: "publish"})
		}
		for w := 0; w < nWatch; w++ {
			for j := 0; j < 50; j++ {
				if out := do(JOp{T: "next", W: w}); out.T != "event" {
					break
				}
			}
		}
		do(JOp{T: "snapshot"})
		oracleSched(c)
		emit(c)
	}
	return n
}
