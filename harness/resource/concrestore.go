package main

import (
	"context"
	"errors"
	"fmt"
	"math/rand"
	"runtime"
	"strconv"
	"strings"
	"sync"
	"sync/atomic"
	"time"

	"github.com/hashicorp/consul/internal/storage"
	"github.com/hashicorp/consul/internal/storage/inmem"
)

// Concurrent histories WITH restores in the middle (the property's quantifier names them):
// writers, a restorer that takes snapshots and restores them, and watchers that re-open their watch
// when it is closed by a restore. Checked on the observations:
//   * progress: the history must finish. If nothing moves for a long time a goroutine dump is
//     taken and the blocked call sites named (a deadlock is permanent, slowness is not);
//   * every watch session (open .. closed): listing, end-of-snapshot, then per id a version chain:
//     each upsert presented exactly the version the session last saw for that id (or "" after a
//     delete / for an id not in the listing), each delete removed exactly that version - nothing
//     skipped, duplicated or reordered per id;
//   * after the last restore and the last write, a fresh watch's materialised view equals List.

type session struct {
	watcher int
	q       JQuery
	events  []JOut
	closed  string // "", "watchclosed", "stopped"
}

func runConcRestore(seed int64) *JCase {
	rng := rand.New(rand.NewSource(seed))
	c := &JCase{Mode: "conc-restore", Seed: seed}
	ctx, cancel := context.WithCancel(context.Background())
	defer cancel()
	b, err := inmem.NewBackend()
	if err != nil {
		panic(err)
	}
	go b.Run(ctx)
	store := b.VerifResStore()
	typ := storage.UnversionedType{Group: "g", Kind: "k"}
	ids := []JID{{G: "g", K: "k", P: "p", N: "n", Nm: "a"}, {G: "g", K: "k", P: "p", N: "n", Nm: "ab"}, {G: "g", K: "k", P: "p", N: "m", Nm: "a"}}

	var progress int64
	var presented sync.Map // key|newVersion -> presented version (from successful writes)
	var wg sync.WaitGroup
	stopWriters := make(chan struct{})

	nWriters := 1 + rng.Intn(3)
	for w := 0; w < nWriters; w++ {
		wg.Add(1)
		ws := rng.Int63()
		go func() {
			defer wg.Done()
			r := rand.New(rand.NewSource(ws))
			for i := 0; i < 40+r.Intn(60); i++ {
				select {
				case <-stopWriters:
					return
				default:
				}
				id := ids[r.Intn(len(ids))]
				cur, err := b.Read(ctx, storage.EventualConsistency, pbID(id, "v1", ""))
				atomic.AddInt64(&progress, 1)
				switch {
				case err == nil && r.Intn(5) == 0:
					_ = b.DeleteCAS(ctx, cur.Id, cur.Version)
				case err == nil:
					res := fromPB(cur)
					res.Data = r.Intn(50)
					if out, err := b.WriteCAS(ctx, toPB(res)); err == nil {
						presented.Store(id.key()+"|"+out.Version, res.Ver)
					}
				default:
					res := JRes{ID: id, GV: "v1", Uid: "u" + strconv.Itoa(1+r.Intn(3)), Data: r.Intn(50)}
					if out, err := b.WriteCAS(ctx, toPB(res)); err == nil {
						presented.Store(id.key()+"|"+out.Version, "")
					}
				}
				atomic.AddInt64(&progress, 1)
			}
		}()
	}

	// restorer
	nRestores := 2 + rng.Intn(5)
	restoresDone := make(chan struct{})
	var restoredVersions sync.Map // key|version -> true for rows installed by a restore
	go func() {
		defer close(restoresDone)
		r := rand.New(rand.NewSource(seed ^ 0x5eed))
		for i := 0; i < nRestores; i++ {
			time.Sleep(time.Duration(r.Intn(400)) * time.Microsecond)
			snap, err := store.Snapshot()
			if err != nil {
				continue
			}
			var rows []JRes
			for x := snap.Next(); x != nil; x = snap.Next() {
				rows = append(rows, fromPB(x))
			}
			time.Sleep(time.Duration(r.Intn(300)) * time.Microsecond)
			rs, err := store.Restore()
			if err != nil {
				continue
			}
			for _, row := range rows {
				_ = rs.Apply(toPB(row))
				restoredVersions.Store(row.ID.key()+"|"+row.Ver, true)
			}
			atomic.AddInt64(&progress, 1)
			rs.Commit()
			atomic.AddInt64(&progress, 1)
		}
	}()

	// watchers that re-open
	nWatchers := 2 + rng.Intn(3)
	var smu sync.Mutex
	var sessions []*session
	stopWatchers := make(chan struct{})
	var wwg sync.WaitGroup
	for w := 0; w < nWatchers; w++ {
		wwg.Add(1)
		q := JQuery{G: "g", K: "k", P: "p", N: []string{"n", "*", "m"}[rng.Intn(3)], Pre: []string{"", "", "a"}[rng.Intn(3)]}
		go func(w int) {
			defer wwg.Done()
			for {
				select {
				case <-stopWatchers:
					return
				default:
				}
				wctx, wcancel := context.WithCancel(ctx)
				go func() {
					select {
					case <-stopWatchers:
						wcancel()
					case <-wctx.Done():
					}
				}()
				watch, err := b.WatchList(wctx, typ, pbID(JID{P: q.P, N: q.N}, "", "").Tenancy, q.Pre)
				atomic.AddInt64(&progress, 1)
				if err != nil {
					wcancel()
					return
				}
				s := &session{watcher: w, q: q}
				smu.Lock()
				sessions = append(sessions, s)
				smu.Unlock()
				for {
					ev, err := nextEvent(wctx, watch)
					atomic.AddInt64(&progress, 1)
					if err != nil {
						if errors.Is(err, storage.ErrWatchClosed) {
							s.closed = "watchclosed"
						} else {
							s.closed = "stopped"
						}
						break
					}
					s.events = append(s.events, ev)
				}
				watch.Close()
				wcancel()
			}
		}(w)
	}

	// watchdog: all writers and the restorer must finish
	finished := make(chan struct{})
	go func() { wg.Wait(); <-restoresDone; close(finished) }()
	last, lastMove := int64(-1), time.Now()
	stuck, dump := false, ""
	commitWaits, subWaits := false, false
loop:
	for {
		select {
		case <-finished:
			break loop
		case <-time.After(200 * time.Millisecond):
			if p := atomic.LoadInt64(&progress); p != last {
				last, lastMove = p, time.Now()
				continue
			}
			idle := time.Since(lastMove)
			if idle < 4*time.Second {
				continue
			}
			// nothing completed for a while: slowness or a deadlock? look where the goroutines stand
			buf := make([]byte, 1<<20)
			buf = buf[:runtime.Stack(buf, true)]
			dump = string(buf)
			commitWaits, subWaits = false, false
			for _, g := range strings.Split(dump, "\n\n") {
				if strings.Contains(g, "(*Restoration).Commit") && strings.Contains(g, "RefreshAllTopics") && strings.Contains(g, "sync.(*RWMutex).Lock") {
					commitWaits = true
				}
				if strings.Contains(g, "(*EventPublisher).Subscribe") && strings.Contains(g, "(*Store).watchSnapshot") && strings.Contains(g, "sync.(*RWMutex).RLock") {
					subWaits = true
				}
			}
			if (commitWaits && subWaits) || idle > 90*time.Second {
				stuck = true
				break loop
			}
		}
	}
	if stuck {
		kind := "conc-restore-stalled"
		if commitWaits && subWaits {
			kind = "conc-restore-deadlock"
		}
		c.Oracle = kind + ": no operation completed for " + time.Since(lastMove).Round(time.Second).String() +
			"; goroutine dump: Restoration.Commit blocked on EventPublisher.lock inside RefreshAllTopics while holding Store.mu=" + strconv.FormatBool(commitWaits) +
			", Subscribe blocked on Store.mu.RLock inside watchSnapshot while holding EventPublisher.lock=" + strconv.FormatBool(subWaits)
		c.Sig = map[string]string{"kind": kind, "commit_in_refresh": strconv.FormatBool(commitWaits), "subscribe_in_snapshot": strconv.FormatBool(subWaits)}
		c.Note = stackSummary(dump)
		close(stopWriters)
		close(stopWatchers)
		return c
	}
	close(stopWriters)
	// quiescence: a fresh watch must materialise exactly what List shows
	time.Sleep(2 * time.Millisecond)
	close(stopWatchers)
	wwg.Wait()
	checkSessions(c, sessions, &presented, &restoredVersions)
	if c.Oracle == "" {
		checkFinalView(c, b, typ)
	}
	n := 0
	for _, s := range sessions {
		n += len(s.events)
	}
	c.Stats = map[string]int{"writers": nWriters, "restores": nRestores, "watchers": nWatchers, "sessions": len(sessions), "events": n}
	return c
}

func stackSummary(dump string) string {
	var keep []string
	for _, g := range strings.Split(dump, "\n\n") {
		if strings.Contains(g, "internal/storage/inmem") || strings.Contains(g, "agent/consul/stream") {
			lines := strings.Split(g, "\n")
			var fn []string
			for _, l := range lines {
				if strings.HasPrefix(l, "github.com/hashicorp/consul/") || strings.HasPrefix(l, "sync.") {
					fn = append(fn, strings.TrimSpace(strings.SplitN(l, "(0x", 2)[0]))
				}
			}
			if len(fn) > 6 {
				fn = fn[:6]
			}
			keep = append(keep, lines[0]+" "+strings.Join(fn, " <- "))
		}
	}
	if len(keep) > 12 {
		keep = keep[:12]
	}
	return strings.Join(keep, "\n")
}

// checkSessions: per session, listing / end-of-snapshot / per-id version chains.
func checkSessions(c *JCase, sessions []*session, presented, restored *sync.Map) {
	for si, s := range sessions {
		cur := map[string]*JRes{} // what the session knows per id
		seenEOS := false
		for i, e := range s.events {
			fail := func(kind, detail string) {
				if c.Oracle == "" {
					c.Oracle = fmt.Sprintf("%s: session %d (watcher %d %v) event %d: %s", kind, si, s.watcher, s.q, i, detail)
					c.Sig = map[string]string{"kind": kind}
					for _, x := range s.events {
						c.Watched = append(c.Watched, x)
					}
				}
			}
			switch {
			case e.Ev == "eos":
				if seenEOS {
					fail("restore-watch-second-eos", "")
				}
				seenEOS = true
			case !seenEOS:
				if e.Ev != "upsert" {
					fail("restore-watch-delete-in-snapshot", "")
				} else if _, dup := cur[e.Res.ID.key()]; dup {
					fail("restore-watch-duplicate-in-snapshot", e.Res.String())
				}
				r := *e.Res
				cur[r.ID.key()] = &r
			default:
				if !qMatches(s.q, *e.Res) {
					fail("restore-watch-unmatched-event", e.Res.String())
				}
				key := e.Res.ID.key()
				prev := cur[key]
				if e.Ev == "upsert" {
					pv, ok := presented.Load(key + "|" + e.Res.Ver)
					if !ok {
						fail("restore-watch-foreign-event", "upsert "+e.Res.String()+" is the result of no successful write")
						break
					}
					want := ""
					if prev != nil {
						want = prev.Ver
					}
					if pv.(string) != want {
						fail("restore-watch-chain-broken", fmt.Sprintf("upsert %v was written over version %q, the session last saw %q for that id (an event was skipped, duplicated, reordered or belongs to another epoch)", *e.Res, pv, want))
					}
					r := *e.Res
					cur[key] = &r
				} else {
					if prev == nil || prev.Ver != e.Res.Ver {
						pvs := "none"
						if prev != nil {
							pvs = prev.Ver
						}
						fail("restore-watch-chain-broken", fmt.Sprintf("delete of %v, the session last saw version %s for that id", *e.Res, pvs))
					}
					delete(cur, key)
				}
			}
		}
	}
}

func checkFinalView(c *JCase, b *inmem.Backend, typ storage.UnversionedType) {
	ctx, cancel := context.WithTimeout(context.Background(), 20*time.Second)
	defer cancel()
	ten := pbID(JID{P: "*", N: "*"}, "", "").Tenancy
	// wait until everything committed has been published: a marker write seen by the watch
	w, err := b.WatchList(ctx, typ, ten, "")
	if err != nil {
		return
	}
	defer w.Close()
	marker := JRes{ID: JID{G: "g", K: "k", P: "p", N: "n", Nm: "zz"}, GV: "v1", Uid: "um"}
	if cur, err := b.Read(ctx, storage.EventualConsistency, pbID(marker.ID, "v1", "")); err == nil {
		marker = fromPB(cur)
	}
	mres, err := b.WriteCAS(ctx, toPB(marker))
	if err != nil {
		return
	}
	view := map[string]JRes{}
	for {
		ev, err := nextEvent(ctx, w)
		if err != nil {
			c.Oracle = "restore-final-watch-stalled: the marker commit never reached a fresh wildcard watch: " + err.Error()
			c.Sig = map[string]string{"kind": "restore-final-watch-stalled"}
			return
		}
		applyEv(view, ev)
		if ev.Res != nil && ev.Res.ID == marker.ID && ev.Res.Ver == mres.Version {
			break
		}
	}
	l, err := b.List(ctx, storage.EventualConsistency, typ, ten, "")
	if err != nil {
		return
	}
	var got []JRes
	for _, r := range view {
		got = append(got, r)
	}
	if !sameList(sortedByKey(got), sortedByKey(fromPBList(l))) {
		c.Oracle = fmt.Sprintf("restore-final-view-diverged: materialised %v, List shows %v", sortedByKey(got), sortedByKey(fromPBList(l)))
		c.Sig = map[string]string{"kind": "restore-final-view-diverged"}
	}
}
