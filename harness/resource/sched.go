package main

import (
	"context"
	"encoding/json"
	"errors"
	"fmt"
	"math/rand"
	"os"
	"runtime"
	"strconv"
	"sync"
	"time"

	"github.com/hashicorp/consul/agent/consul/stream"
	"github.com/hashicorp/consul/internal/storage"
	"github.com/hashicorp/consul/internal/storage/inmem"
)

// ---------------------------------------------------------------- executor on the real store

// nbCtx makes Watch.Next non-blocking and deterministic: bufferItem.Next evaluates ctx.Done()
// when it enters its select; we hand it a channel that can never fire while the item the
// subscription stands on already has a successor, and an already closed one otherwise.
type nbCtx struct {
	context.Context
	sub *stream.Subscription
}

var closedCh = func() chan struct{} { c := make(chan struct{}); close(c); return c }()

func (c nbCtx) Done() <-chan struct{} {
	if stream.VerifResSubHasNext(c.sub) {
		return nil
	}
	return closedCh
}
func (c nbCtx) Err() error                  { return context.DeadlineExceeded }
func (c nbCtx) Deadline() (time.Time, bool) { return time.Time{}, false }

type schedExec struct {
	backend *inmem.Backend
	store   *inmem.Store
	watches []*inmem.Watch
}

func newSchedExec() *schedExec {
	b, err := inmem.NewBackend()
	if err != nil {
		panic(err)
	}
	return &schedExec{backend: b, store: b.VerifResStore()} // Run is NOT started
}

func errOut(err error) JOut {
	var gvm storage.GroupVersionMismatchError
	switch {
	case errors.Is(err, storage.ErrNotFound):
		return JOut{T: "err", Err: "notfound"}
	case errors.Is(err, storage.ErrCASFailure):
		return JOut{T: "err", Err: "cas"}
	case errors.Is(err, storage.ErrWrongUid):
		return JOut{T: "err", Err: "wronguid"}
	case errors.Is(err, storage.ErrWatchClosed):
		return JOut{T: "err", Err: "watchclosed"}
	case errors.As(err, &gvm):
		r := fromPB(gvm.Stored)
		return JOut{T: "gvm", Res: &r}
	}
	return JOut{T: "err", Err: "other"}
}

func (x *schedExec) queued() int { return x.store.VerifResQueued() }

func (x *schedExec) do(op JOp) JOut {
	ctx := context.Background()
	switch op.T {
	case "write":
		res, err := x.backend.WriteCAS(ctx, toPB(*op.Res))
		if err != nil {
			return errOut(err)
		}
		r := fromPB(res)
		return JOut{T: "res", Res: &r}
	case "writes":
		if err := x.store.WriteCAS(toPB(*op.Res), op.Vsn); err != nil {
			return errOut(err)
		}
		return JOut{T: "ok"}
	case "delete":
		if err := x.backend.DeleteCAS(ctx, pbID(*op.ID, op.GV, op.Uid), op.Vsn); err != nil {
			return errOut(err)
		}
		return JOut{T: "ok"}
	case "read":
		res, err := x.backend.Read(ctx, storage.EventualConsistency, pbID(*op.ID, op.GV, op.Uid))
		if err != nil {
			return errOut(err)
		}
		r := fromPB(res)
		return JOut{T: "res", Res: &r}
	case "list":
		q := op.Q
		l, err := x.backend.List(ctx, storage.EventualConsistency, storage.UnversionedType{Group: q.G, Kind: q.K},
			pbID(JID{P: q.P, N: q.N}, "", "").Tenancy, q.Pre)
		if err != nil {
			return errOut(err)
		}
		return JOut{T: "list", List: fromPBList(l)}
	case "listowner":
		l, err := x.backend.ListByOwner(ctx, pbID(*op.ID, "v1", op.Uid))
		if err != nil {
			return errOut(err)
		}
		return JOut{T: "list", List: fromPBList(l)}
	case "watch":
		q := op.Q
		w, err := x.store.WatchList(storage.UnversionedType{Group: q.G, Kind: q.K}, pbID(JID{P: q.P, N: q.N}, "", "").Tenancy, q.Pre)
		if err != nil {
			return errOut(err)
		}
		x.watches = append(x.watches, w)
		return JOut{T: "watch", W: len(x.watches) - 1}
	case "next":
		if op.W < 0 || op.W >= len(x.watches) {
			return JOut{T: "err", Err: "other"}
		}
		w := x.watches[op.W]
		ev, err := w.Next(nbCtx{context.Background(), inmem.VerifResWatchSub(w)})
		if errors.Is(err, context.DeadlineExceeded) {
			return JOut{T: "noevent"}
		}
		if err != nil {
			return errOut(err)
		}
		switch {
		case ev.GetUpsert() != nil:
			r := fromPB(ev.GetUpsert().Resource)
			return JOut{T: "event", Ev: "upsert", Res: &r}
		case ev.GetDelete() != nil:
			r := fromPB(ev.GetDelete().Resource)
			return JOut{T: "event", Ev: "delete", Res: &r}
		case ev.GetEndOfSnapshot() != nil:
			return JOut{T: "event", Ev: "eos"}
		}
		return JOut{T: "err", Err: "other"}
	case "close":
		if op.W < 0 || op.W >= len(x.watches) {
			return JOut{T: "err", Err: "other"}
		}
		x.watches[op.W].Close()
		return JOut{T: "ok"}
	case "publish":
		return JOut{T: "bool", B: x.store.VerifResPublishOne()}
	case "restore":
		r, err := x.store.Restore()
		if err != nil {
			return errOut(err)
		}
		for _, e := range op.List {
			if err := r.Apply(toPB(e)); err != nil {
				r.Abort()
				return errOut(err)
			}
		}
		r.Commit()
		return JOut{T: "ok"}
	case "snapshot":
		s, err := x.store.Snapshot()
		if err != nil {
			return errOut(err)
		}
		var l []JRes
		for r := s.Next(); r != nil; r = s.Next() {
			l = append(l, fromPB(r))
		}
		if l == nil {
			l = []JRes{}
		}
		return JOut{T: "list", List: l}
	case "evict":
		q := op.Q
		x.store.VerifResEvictSnapshot(storage.UnversionedType{Group: q.G, Kind: q.K}, pbID(JID{P: q.P, N: q.N}, "", "").Tenancy)
		return JOut{T: "ok"}
	}
	panic("unknown op " + op.T)
}

// ---------------------------------------------------------------- generator

var (
	uGroups = []string{"g"}
	uKinds  = []string{"k", "k2"}
	uParts  = []string{"p", "q"}
	uNs     = []string{"n", "m"}
	uNames  = []string{"a", "ab", "b", "abc"}
	uGVs    = []string{"v1", "v1", "v1", "v2"}
	uUids   = []string{"u1", "u2", "u3"}
	// strings that only occur in the malformed stream
	mStrs = []string{"", "*", "p", "n", "a", "ab", "k", "zz"}
)

func pick(r *rand.Rand, l []string) string { return l[r.Intn(len(l))] }

type gen struct {
	r        *rand.Rand
	mal      bool
	cur      map[string]JRes // what the generator believes is stored (from outputs only)
	lastSeen map[string][]JRes
	nWatch   int
	snaps    [][]JRes
	vsnSeen  int
	small    bool // few ids: more contention
	forced   []JOp // ops to issue before anything else (orderly clean-up after a restore)
	raft     bool  // Raft-shaped stream: Store-level writes whose new version is a strictly increasing caller-chosen index
	rv       int   // the last index handed out in that mode
}

func (g *gen) id() JID {
	if g.mal && g.r.Intn(4) == 0 {
		return JID{G: pick(g.r, []string{"g", "", "*"}), K: pick(g.r, mStrs), P: pick(g.r, mStrs), N: pick(g.r, mStrs), Nm: pick(g.r, mStrs)}
	}
	if g.small {
		return JID{G: "g", K: "k", P: "p", N: pick(g.r, uNs), Nm: pick(g.r, uNames[:2])}
	}
	return JID{G: pick(g.r, uGroups), K: pick(g.r, uKinds), P: pick(g.r, uParts), N: pick(g.r, uNs), Nm: pick(g.r, uNames)}
}

func (g *gen) query() *JQuery {
	q := &JQuery{G: "g", K: pick(g.r, uKinds), P: pick(g.r, uParts), N: pick(g.r, uNs)}
	if g.small {
		q.K, q.P = "k", "p"
	}
	switch g.r.Intn(10) {
	case 0, 1:
		q.P, q.N = "*", "*"
	case 2:
		q.N = "*"
	case 3:
		q.P = "*"
	}
	switch g.r.Intn(6) {
	case 0:
		q.Pre = "a"
	case 1:
		q.Pre = "ab"
	}
	if g.mal && g.r.Intn(3) == 0 {
		q.K, q.P, q.N, q.Pre = pick(g.r, mStrs), pick(g.r, mStrs), pick(g.r, mStrs), pick(g.r, []string{"", "a", "*", "abcd"})
	}
	return q
}

func (g *gen) anyVersion() string {
	switch g.r.Intn(4) {
	case 0:
		return ""
	case 1:
		return strconv.Itoa(g.vsnSeen + 1 + g.r.Intn(3)) // a version not handed out yet
	}
	if g.vsnSeen == 0 {
		return ""
	}
	return strconv.Itoa(1 + g.r.Intn(g.vsnSeen))
}

func (g *gen) owner() *JOwner {
	if g.r.Intn(3) != 0 {
		return nil
	}
	return &JOwner{ID: JID{G: "g", K: "k", P: "p", N: pick(g.r, uNs), Nm: pick(g.r, uNames[:2])}, Uid: pick(g.r, uUids[:2])}
}

func (g *gen) write() JOp {
	id := g.id()
	res := JRes{ID: id, GV: pick(g.r, uGVs), Uid: pick(g.r, uUids), Data: g.r.Intn(50), Own: g.owner()}
	cur, have := g.cur[id.key()]
	c := g.r.Intn(100)
	switch {
	case have && c < 60: // a well-formed update
		res.Uid, res.Ver = cur.Uid, cur.Ver
	case have && c < 72: // stale or future version, right uid
		res.Uid, res.Ver = cur.Uid, g.anyVersion()
	case have && c < 82: // right version, other uid
		res.Ver = cur.Ver
	case have && c < 90: // a version/uid pair seen earlier for this id (an old lifetime or an old version)
		if l := g.lastSeen[id.key()]; len(l) > 0 {
			o := l[g.r.Intn(len(l))]
			res.Uid, res.Ver = o.Uid, o.Ver
		}
	case !have && c < 75: // create
		res.Ver = ""
	case !have && c < 90:
		if l := g.lastSeen[id.key()]; len(l) > 0 {
			o := l[g.r.Intn(len(l))]
			res.Uid, res.Ver = o.Uid, o.Ver
		} else {
			res.Ver = g.anyVersion()
		}
	default:
		res.Ver = g.anyVersion()
	}
	if g.raft {
		// raft.Backend.Apply: the log index becomes the version, whatever the outcome
		g.rv += 1 + g.r.Intn(2)
		presented := res.Ver
		res.Ver = strconv.Itoa(g.rv)
		return JOp{T: "writes", Res: &res, Vsn: presented}
	}
	return JOp{T: "write", Res: &res}
}

func (g *gen) delete() JOp {
	id := g.id()
	op := JOp{T: "delete", ID: &id, GV: pick(g.r, uGVs), Uid: pick(g.r, uUids), Vsn: g.anyVersion()}
	if cur, have := g.cur[id.key()]; have {
		c := g.r.Intn(100)
		switch {
		case c < 60:
			op.Uid, op.Vsn = cur.Uid, cur.Ver
		case c < 75:
			op.Uid = cur.Uid
		case c < 85:
			op.Vsn = cur.Ver
		}
	} else if l := g.lastSeen[id.key()]; len(l) > 0 && g.r.Intn(2) == 0 {
		o := l[g.r.Intn(len(l))]
		op.Uid, op.Vsn = o.Uid, o.Ver
	}
	if g.mal && g.r.Intn(4) == 0 {
		op.Uid = ""
	}
	if g.raft {
		g.rv++ // a delete is a log entry too
	}
	if cur, have := g.cur[id.key()]; have && (cur.Uid != op.Uid || cur.Ver != op.Vsn) && g.r.Intn(2) == 0 {
		// look at the row right after a delete that must not have hit it
		rid := id
		g.forced = append(g.forced, JOp{T: "read", ID: &rid, GV: cur.GV})
	}
	return op
}

func (g *gen) next(x *schedExec) JOp {
	r := g.r
	if len(g.forced) > 0 {
		op := g.forced[0]
		g.forced = g.forced[1:]
		return op
	}
	if x.queued() >= 56 {
		return JOp{T: "publish"}
	}
	c := r.Intn(100)
	if c >= 94 && c < 96 && r.Intn(3) > 0 {
		c = 70 // restores are rare
	}
	switch {
	case c < 24:
		return g.write()
	case c < 32:
		return g.delete()
	case c < 39:
		id := g.id()
		op := JOp{T: "read", ID: &id, GV: pick(r, uGVs)}
		if cur, ok := g.cur[id.key()]; ok && r.Intn(3) > 0 {
			op.GV = cur.GV
		}
		if r.Intn(3) == 0 {
			op.Uid = pick(r, uUids)
		}
		return op
	case c < 44:
		return JOp{T: "list", Q: g.query()}
	case c < 47:
		o := g.owner()
		for o == nil {
			o = g.owner()
		}
		return JOp{T: "listowner", ID: &o.ID, Uid: o.Uid}
	case c < 55:
		if g.nWatch < 12 {
			g.nWatch++
			return JOp{T: "watch", Q: g.query()}
		}
		fallthrough
	case c < 78:
		if g.nWatch == 0 {
			g.nWatch++
			return JOp{T: "watch", Q: g.query()}
		}
		return JOp{T: "next", W: r.Intn(g.nWatch)}
	case c < 81:
		if g.nWatch == 0 {
			return JOp{T: "publish"}
		}
		return JOp{T: "close", W: r.Intn(g.nWatch)}
	case c < 94:
		return JOp{T: "publish"}
	case c < 96:
		var l []JRes
		if len(g.snaps) > 0 && r.Intn(2) == 0 {
			l = g.snaps[r.Intn(len(g.snaps))]
		} else {
			n := r.Intn(4)
			if g.vsnSeen == 0 && !g.mal {
				n = 0 // contract of a restore: no version above what the backend has handed out
			}
			for i := 0; i < n; i++ {
				v := 1 + r.Intn(g.vsnSeen+1)
				if v > g.vsnSeen && !g.mal {
					v = g.vsnSeen
				}
				l = append(l, JRes{ID: g.id(), GV: pick(r, uGVs), Uid: pick(r, uUids), Ver: strconv.Itoa(v), Data: r.Intn(50), Own: g.owner()})
			}
		}
		if l == nil {
			l = []JRes{}
		}
		if r.Intn(10) < 6 {
			// the orderly aftermath: every watch is released and the queue drained before anything else
			for w := 0; w < g.nWatch; w++ {
				g.forced = append(g.forced, JOp{T: "close", W: w})
			}
			for i := 0; i < x.queued(); i++ {
				g.forced = append(g.forced, JOp{T: "publish"})
			}
		}
		return JOp{T: "restore", List: l}
	case c < 98:
		return JOp{T: "snapshot"}
	default:
		return JOp{T: "evict", Q: g.query()}
	}
}

// observe keeps the generator's belief about the stored rows up to date, from outputs only.
func (g *gen) observe(op JOp, out JOut) {
	switch op.T {
	case "writes":
		g.vsnSeen = g.rv
		if out.T == "ok" {
			k := op.Res.ID.key()
			g.cur[k] = *op.Res
			g.lastSeen[k] = append(g.lastSeen[k], *op.Res)
		}
	case "write":
		g.vsnSeen++ // Backend.vsn is bumped by every WriteCAS call
		if out.T == "res" {
			k := out.Res.ID.key()
			g.cur[k] = *out.Res
			g.lastSeen[k] = append(g.lastSeen[k], *out.Res)
		}
	case "read":
		if out.T == "res" || out.T == "gvm" {
			g.cur[out.Res.ID.key()] = *out.Res
		}
	case "delete":
		if out.T == "ok" {
			if cur, ok := g.cur[op.ID.key()]; ok && cur.Uid == op.Uid && cur.Ver == op.Vsn {
				delete(g.cur, op.ID.key())
			}
		}
	case "restore":
		g.cur = map[string]JRes{}
		for _, e := range op.List {
			g.cur[e.ID.key()] = e
		}
	case "snapshot":
		g.snaps = append(g.snaps, out.List)
	}
}

func runSched(seed int64, mal bool) *JCase {
	r := rand.New(rand.NewSource(seed))
	g := &gen{r: r, mal: mal, cur: map[string]JRes{}, lastSeen: map[string][]JRes{}, small: r.Intn(3) > 0, raft: !mal && r.Intn(4) == 0}
	x := newSchedExec()
	n := 15 + r.Intn(50)
	if r.Intn(10) == 0 {
		n = 120 + r.Intn(80)
	}
	c := &JCase{Mode: "sched", Seed: seed}
	if mal {
		c.Mode = "sched-malformed"
	}
	if g.raft {
		c.Mode = "sched-raftshape"
	}
	for i := 0; i < n; i++ {
		op := g.next(x)
		out := x.do(op)
		g.observe(op, out)
		c.Steps = append(c.Steps, JStep{op, out})
	}
	// drain: publish everything, then read every watch dry, so that completeness is observable
	for x.queued() > 0 {
		op := JOp{T: "publish"}
		c.Steps = append(c.Steps, JStep{op, x.do(op)})
	}
	for w := 0; w < g.nWatch; w++ {
		for j := 0; j < 400; j++ {
			op := JOp{T: "next", W: w}
			out := x.do(op)
			c.Steps = append(c.Steps, JStep{op, out})
			if out.T != "event" {
				break
			}
		}
	}
	fin := JOp{T: "snapshot"}
	c.Steps = append(c.Steps, JStep{fin, x.do(fin)})
	oracleSched(c)
	return c
}

func runSchedBatch(rng *rand.Rand, n int, mal bool, emit func(*JCase)) {
	seeds := make([]int64, n)
	for i := range seeds {
		seeds[i] = rng.Int63()
	}
	workers := 4
	if runtime.NumCPU() < workers {
		workers = runtime.NumCPU()
	}
	res := make([]*JCase, n)
	var wg sync.WaitGroup
	ch := make(chan int, n)
	for i := 0; i < n; i++ {
		ch <- i
	}
	close(ch)
	for w := 0; w < workers; w++ {
		wg.Add(1)
		go func() {
			defer wg.Done()
			for i := range ch {
				res[i] = runSched(seeds[i], mal)
			}
		}()
	}
	wg.Wait()
	for _, c := range res {
		emit(c)
	}
}

// ---------------------------------------------------------------- shrinking

func oracleKind(ops []JOp, mode string) string {
	x := newSchedExec()
	c := &JCase{Mode: mode}
	for _, op := range ops {
		if (op.T == "write" || op.T == "writes" || op.T == "delete") && x.queued() >= 60 {
			return "" // would block on publishCh
		}
		c.Steps = append(c.Steps, JStep{op, x.do(op)})
	}
	oracleSched(c)
	if c.Sig == nil {
		return ""
	}
	return c.Sig["kind"] + "|" + c.Sig["class"]
}

// doShrink minimises the schedule of a failing case (delta debugging on the op list, re-running
// the real store each time) and prints the shrunk case.
func doShrink(path string) int {
	b, err := os.ReadFile(path)
	if err != nil {
		fmt.Println(err)
		return 2
	}
	var c JCase
	if err := json.Unmarshal(b, &c); err != nil {
		fmt.Println(err)
		return 2
	}
	ops := make([]JOp, len(c.Steps))
	for i, s := range c.Steps {
		ops[i] = s.Op
	}
	want := oracleKind(ops, c.Mode)
	if want == "" {
		// not reproducible sequentially: keep as is
		os.Stdout.Write(b)
		return 0
	}
	for chunk := len(ops) / 2; chunk >= 1; {
		removed := false
		for i := 0; i+chunk <= len(ops); {
			cand := append(append([]JOp{}, ops[:i]...), ops[i+chunk:]...)
			if oracleKind(cand, c.Mode) == want {
				ops = cand
				removed = true
			} else {
				i += chunk
			}
		}
		if !removed || chunk > len(ops) {
			chunk /= 2
		}
	}
	out := runOps(c.Mode, ops)
	out.Seed = c.Seed
	out.Note = "shrunk from " + strconv.Itoa(len(c.Steps)) + " steps"
	ob, _ := json.Marshal(out)
	os.Stdout.Write(ob)
	return 0
}

// ---------------------------------------------------------------- replay

// doReplay re-executes the ops of a replay file (a case, or {"case": case}) on the real store and
// reports whether the recorded outputs and the oracle verdict reproduce.
func doReplay(path string) int {
	b, err := os.ReadFile(path)
	if err != nil {
		fmt.Println("cannot read", path, err)
		return 2
	}
	var wrap struct {
		Case *JCase `json:"case"`
	}
	var c JCase
	if json.Unmarshal(b, &wrap) == nil && wrap.Case != nil {
		c = *wrap.Case
	} else if err := json.Unmarshal(b, &c); err != nil {
		fmt.Println("bad replay file", err)
		return 2
	}
	if len(c.Steps) == 0 {
		fmt.Println("replay file has no schedule (a proof or build failure is replayed by ./check)")
		return 2
	}
	x := newSchedExec()
	n := &JCase{Mode: c.Mode, Seed: c.Seed}
	for i, s := range c.Steps {
		out := x.do(s.Op)
		n.Steps = append(n.Steps, JStep{s.Op, out})
		ob, _ := json.Marshal(out)
		eb, _ := json.Marshal(s.Out)
		mark := ""
		if string(ob) != string(eb) {
			mark = "   <-- recorded: " + string(eb)
		}
		opb, _ := json.Marshal(s.Op)
		fmt.Printf("%3d %s -> %s%s\n", i, opb, ob, mark)
	}
	oracleSched(n)
	fmt.Println("oracle:", n.Oracle)
	if n.Oracle != "" {
		return 1
	}
	return 0
}
