package main

// Directed probes: small scripted inputs run on the real handler, printed for a human.
// `peering -probe <name>`.

import (
	"encoding/json"
	"fmt"

	"github.com/hashicorp/consul/agent/structs"
	"github.com/hashicorp/consul/api"
	"github.com/hashicorp/consul/types"
)

func probeInst(node, nodeID, svcName, svcID string, checks ...*structs.HealthCheck) structs.CheckServiceNode {
	return structs.CheckServiceNode{
		Node:    &structs.Node{ID: types.NodeID(nodeID), Node: node, Address: "10.0.0.1", Datacenter: "dc-x"},
		Service: &structs.NodeService{ID: svcID, Service: svcName, Port: 80, Weights: &structs.Weights{Passing: 1, Warning: 1}},
		Checks:  checks,
	}
}

func probeDump(title string, im *importer, err error) {
	c := dumpCat(im.store)
	fmt.Println("==", title, "err:", err)
	for _, o := range im.be.log {
		fmt.Printf("   call %s peer=%q node=%q id=%q svc=%v chks=%d fail=%v\n", o.Kind, o.Peer, o.Node, o.ID, o.RS != nil, len(o.RC), o.Fail)
	}
	im.be.log = nil
	for _, n := range c.Nodes {
		fmt.Printf("   node  %q/%q id=%q\n", n.Peer, n.Name, n.ID)
	}
	for _, s := range c.Svcs {
		fmt.Printf("   svc   %q/%q/%q name=%q\n", s.Peer, s.Node, s.ID, s.Name)
	}
	for _, k := range c.Chks {
		fmt.Printf("   chk   %q/%q/%q sid=%q status=%d\n", k.Peer, k.Node, k.ID, k.SID, k.Status)
	}
}

func doProbe(name string) {
	im := newImporter(false)
	switch name {
	case "node-case":
		err := im.upsertService(peerA, "web", []structs.CheckServiceNode{probeInst("Node1", "", "web", "web1")})
		probeDump("stored Node1/web1", im, err)
		err = im.upsertService(peerA, "web", []structs.CheckServiceNode{probeInst("node1", "", "web", "web1")})
		probeDump("received node1/web1 (same instance, node respelled)", im, err)
	case "svcid-case":
		err := im.upsertService(peerA, "web", []structs.CheckServiceNode{probeInst("n1", "", "web", "Web1")})
		probeDump("stored n1/Web1", im, err)
		err = im.upsertService(peerA, "web", []structs.CheckServiceNode{probeInst("n1", "", "web", "web1")})
		probeDump("received n1/web1 (service id respelled)", im, err)
	case "chkid-case":
		k := func(id string) *structs.HealthCheck {
			return &structs.HealthCheck{Node: "n1", CheckID: types.CheckID(id), Name: "c", Status: api.HealthPassing, ServiceID: "web1", ServiceName: "web"}
		}
		err := im.upsertService(peerA, "web", []structs.CheckServiceNode{probeInst("n1", "", "web", "web1", k("Chk"))})
		probeDump("stored n1/web1 + check Chk", im, err)
		err = im.upsertService(peerA, "web", []structs.CheckServiceNode{probeInst("n1", "", "web", "web1", k("chk"))})
		probeDump("received check chk (check id respelled)", im, err)
	case "list-case":
		err := im.upsertService(peerA, "web", []structs.CheckServiceNode{probeInst("n1", "", "web", "web1")})
		probeDump("stored n1/web1 of service web", im, err)
		err = im.upsertList(peerA, []string{"Web"})
		probeDump("exported-service list [Web]", im, err)
	case "svcname-case":
		err := im.upsertService(peerA, "web", []structs.CheckServiceNode{probeInst("n1", "", "web", "web1")})
		probeDump("stored n1/web1 of service web", im, err)
		err = im.upsertService(peerA, "Web", []structs.CheckServiceNode{probeInst("n1", "", "Web", "web1")})
		probeDump("received resource Web with instance web1 of service Web", im, err)
	case "node-locality":
		in := probeInst("n1", "", "web", "web1")
		in.Node.Locality = &structs.Locality{Region: "us-east-1", Zone: "a"}
		in.Service.Locality = &structs.Locality{Region: "us-east-1", Zone: "a"}
		err := im.upsertService(peerA, "web", []structs.CheckServiceNode{in})
		probeDump("received n1 with node and service locality us-east-1/a", im, err)
		_, csn, _ := im.store.CheckServiceNodes(nil, "web", nil, peerA)
		for _, c := range csn {
			fmt.Printf("   stored node locality=%v service locality=%v\n", c.Node.Locality, c.Service.Locality)
		}
	default:
		fmt.Println("unknown probe")
	}
	_ = json.Marshal
}
