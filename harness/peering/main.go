// Correspondence harness for property C17 (peering: imports mirror exactly what was exported
// and touch nothing else).
//
// Import side: a real state.Store is the importing cluster's catalog. The real peerstream
// handlers ((*Server).handleUpsert -> handleUpdateService / handleUpsertExportedServiceList)
// are called through the verif hook with a Backend whose CatalogRegister / CatalogDeregister
// are applied to that store exactly as the FSM applies them (msgpack round trip of the request,
// then EnsureRegistration / DeleteService / DeleteCheck / DeleteNode). For every event the harness
// records the catalog before, the event, the list of Backend calls, the error class and the
// catalog after; plus a dump of every table of the store, used by the model-independent oracle
// (rows that are not keyed by the event's peer must be identical before and after).
//
// Events come from two streams:
//   - sim: a second real state.Store plays the exporting cluster; it is mutated by random
//     catalog operations (register / deregister instances, move an instance to another node,
//     change check status, rename a node keeping its ID, replace a node under the same name) and
//     the snapshot sent is what CheckServiceNodes returns there, either flattened like the real
//     subscription manager does ("<id>:overall-check") or raw (node level and service level checks).
//   - malformed: instance lists drawn directly from the universe (wrong service names, checks
//     that name another node or service, duplicates with different content, proxies with
//     upstreams, status "").
//
// Export side: Store.ExportedServicesForPeer on generated exported-services config entries
// (exact names, wildcard, several peers, the "consul" service, discovery chains).
package main

import (
	"bufio"
	"crypto/sha256"
	"encoding/binary"
	"encoding/json"
	"flag"
	"fmt"
	"math/rand"
	"os"
	"reflect"
	"sort"
	"strings"

	"github.com/hashicorp/go-hclog"
	"google.golang.org/protobuf/types/known/anypb"

	"github.com/hashicorp/consul/acl"
	"github.com/hashicorp/consul/agent/consul/state"
	"github.com/hashicorp/consul/agent/consul/stream"
	"github.com/hashicorp/consul/agent/grpc-external/services/peerstream"
	"github.com/hashicorp/consul/agent/netutil"
	"github.com/hashicorp/consul/agent/structs"
	"github.com/hashicorp/consul/api"
	"github.com/hashicorp/consul/proto/private/pbpeering"
	"github.com/hashicorp/consul/proto/private/pbpeerstream"
	"github.com/hashicorp/consul/proto/private/pbservice"
	"github.com/hashicorp/consul/types"
)

// ---------------------------------------------------------------- rows as the model sees them

type NodeRow struct {
	Peer string `json:"peer"`
	Name string `json:"name"`
	ID   string `json:"id"`
	Body uint64 `json:"body"`
	Loc  string `json:"loc,omitempty"` // locality, only looked at by the oracle
}

type SvcRow struct {
	Peer   string   `json:"peer"`
	Node   string   `json:"node"`
	ID     string   `json:"id"`
	Name   string   `json:"name"`
	Tags   uint64   `json:"tags"`
	Body   uint64   `json:"body"`
	Kind   int      `json:"kind"` // 0 typical, 1 connect-proxy, 2 anything else
	Native bool     `json:"native"`
	Dest   string   `json:"dest"`
	Ups    []string `json:"ups"`
	PM     bool     `json:"pm"`            // Connect.PeerMeta != nil
	VIP    string   `json:"vip,omitempty"` // consul-virtual tagged address (projected out of Body)
}

type ChkRow struct {
	Peer   string `json:"peer"`
	Node   string `json:"node"`
	ID     string `json:"id"`
	SID    string `json:"sid"`
	SName  string `json:"sname"`
	STags  uint64 `json:"stags"`
	Status int    `json:"status"`
	Body   uint64 `json:"body"`
}

type TopoRow struct {
	Up   string   `json:"up"`
	Down string   `json:"down"`
	Refs []string `json:"refs"`
}

type Cat struct {
	Nodes []NodeRow `json:"nodes"`
	Svcs  []SvcRow  `json:"svcs"`
	Chks  []ChkRow  `json:"chks"`
	Topo  []TopoRow `json:"topo"`
}

type Inst struct {
	Node NodeRow  `json:"node"`
	Svc  SvcRow   `json:"svc"`
	Chks []ChkRow `json:"chks"`
}

type Op struct {
	Kind string   `json:"kind"` // "reg" | "dsvc" | "dchk" | "dnode"
	Peer string   `json:"peer"`
	Node string   `json:"node"`
	ID   string   `json:"id,omitempty"` // service id / check id of a deregistration
	RN   *NodeRow `json:"rn,omitempty"`
	RS   *SvcRow  `json:"rs,omitempty"`
	RC   []ChkRow `json:"rc,omitempty"`
	Fail bool     `json:"fail,omitempty"`
}

type Case struct {
	ID      int                    `json:"id"`
	World   int                    `json:"world"`
	Step    int                    `json:"step"`
	Kind    string                 `json:"kind"` // upsert | list | export
	Gen     string                 `json:"gen"`
	VIP     bool                   `json:"vip"`
	Peer    string                 `json:"peer"`
	Service string                 `json:"service,omitempty"`
	Export  []Inst                 `json:"export,omitempty"`
	Names   []string               `json:"names,omitempty"`
	Before  *Cat                   `json:"before,omitempty"`
	After   *Cat                   `json:"after,omitempty"`
	Ops     []Op                   `json:"ops,omitempty"`
	Err     int                    `json:"err"`
	ErrMsg  string                 `json:"errmsg,omitempty"`
	HNodes  []string               `json:"hnodes,omitempty"`
	HSvcs   [][2]string            `json:"hsvcs,omitempty"`
	HChks   []ChkRow               `json:"hchks,omitempty"`
	HNames  []string               `json:"hnames,omitempty"`
	Flags   map[string]bool        `json:"flags,omitempty"`
	Oracle  string                 `json:"oracle"`
	Sig     map[string]interface{} `json:"sig,omitempty"`
	ToCoq   bool                   `json:"to_coq"`
	// export side
	Entry     []ExpSvc `json:"entry,omitempty"`
	Typical   []string `json:"typical,omitempty"`
	Connect   []string `json:"connect,omitempty"`
	Chains    []string `json:"chains,omitempty"`
	PeerKnown bool     `json:"peer_known"`
	BadChains []string `json:"bad_chains,omitempty"`
	Tgw       []string `json:"tgw,omitempty"`
	GotSvcs   []string `json:"got_svcs,omitempty"`
	GotChains []string `json:"got_chains,omitempty"`
	// replay material: the raw events in a form the harness can re-run
	Replay *ReplayWorld `json:"replay,omitempty"`
}

type ExpSvc struct {
	Name  string   `json:"name"`
	Peers []string `json:"peers"`
}

// ---------------------------------------------------------------- hashing / projection

func h48(v interface{}) uint64 {
	b, err := json.Marshal(v)
	if err != nil {
		panic(err)
	}
	s := sha256.Sum256(b)
	return binary.BigEndian.Uint64(s[:8]) >> 16
}

var statusCode = map[string]int{"": 0, api.HealthPassing: 1, api.HealthWarning: 2, api.HealthCritical: 3, api.HealthMaint: 4}

func nodeRow(n *structs.Node) NodeRow {
	loc := ""
	if n.Locality != nil {
		loc = n.Locality.Region + "/" + n.Locality.Zone
	}
	return NodeRow{Peer: n.PeerName, Name: n.Node, ID: string(n.ID),
		Body: h48(struct {
			A, D string
			T, M map[string]string
		}{n.Address, n.Datacenter, n.TaggedAddresses, n.Meta}), Loc: loc}
}

func svcRow(node string, s *structs.NodeService) SvcRow {
	cp := *s
	cp.ID, cp.Service, cp.Tags, cp.PeerName = "", "", nil, ""
	cp.RaftIndex = structs.RaftIndex{}
	vip := ""
	if a, ok := cp.TaggedAddresses[structs.TaggedAddressVirtualIP]; ok {
		vip = fmt.Sprintf("%s:%d", a.Address, a.Port)
		m := map[string]structs.ServiceAddress{}
		for k, v := range cp.TaggedAddresses {
			if k != structs.TaggedAddressVirtualIP {
				m[k] = v
			}
		}
		if len(m) == 0 {
			m = nil
		}
		cp.TaggedAddresses = m
	}
	kind := 2
	switch s.Kind {
	case structs.ServiceKindTypical:
		kind = 0
	case structs.ServiceKindConnectProxy:
		kind = 1
	}
	ups := []string{}
	for _, u := range s.Proxy.Upstreams {
		ups = append(ups, u.DestinationName)
	}
	return SvcRow{Peer: s.PeerName, Node: node, ID: s.ID, Name: s.Service, Tags: h48(s.Tags), Body: h48(cp),
		Kind: kind, Native: s.Connect.Native, Dest: s.Proxy.DestinationServiceName, Ups: ups, PM: s.Connect.PeerMeta != nil, VIP: vip}
}

func svcRowCmp(r SvcRow) SvcRow { return r }

func chkRow(c *structs.HealthCheck) ChkRow {
	st, ok := statusCode[c.Status]
	if !ok {
		st = 9
	}
	return ChkRow{Peer: c.PeerName, Node: c.Node, ID: string(c.CheckID), SID: c.ServiceID, SName: c.ServiceName,
		STags: h48(c.ServiceTags), Status: st,
		Body: h48(struct {
			N, No, O string
			D        structs.HealthCheckDefinition
		}{c.Name, c.Notes, c.Output, c.Definition})}
}

func sortCat(c *Cat) {
	sort.Slice(c.Nodes, func(i, j int) bool {
		return fmt.Sprint(c.Nodes[i].Peer, "\x00", c.Nodes[i].Name) < fmt.Sprint(c.Nodes[j].Peer, "\x00", c.Nodes[j].Name)
	})
	sort.Slice(c.Svcs, func(i, j int) bool {
		return fmt.Sprint(c.Svcs[i].Peer, "\x00", c.Svcs[i].Node, "\x00", c.Svcs[i].ID) < fmt.Sprint(c.Svcs[j].Peer, "\x00", c.Svcs[j].Node, "\x00", c.Svcs[j].ID)
	})
	sort.Slice(c.Chks, func(i, j int) bool {
		return fmt.Sprint(c.Chks[i].Peer, "\x00", c.Chks[i].Node, "\x00", c.Chks[i].ID) < fmt.Sprint(c.Chks[j].Peer, "\x00", c.Chks[j].Node, "\x00", c.Chks[j].ID)
	})
	sort.Slice(c.Topo, func(i, j int) bool { return c.Topo[i].Up+"\x00"+c.Topo[i].Down < c.Topo[j].Up+"\x00"+c.Topo[j].Down })
}

// dumpCat: the three catalog tables and the mesh-topology table, in the model's shape.
func dumpCat(s *state.Store) *Cat {
	c := &Cat{Nodes: []NodeRow{}, Svcs: []SvcRow{}, Chks: []ChkRow{}, Topo: []TopoRow{}}
	err := s.WalkAllTables(func(table string, item interface{}) bool {
		switch v := item.(type) {
		case *structs.Node:
			c.Nodes = append(c.Nodes, nodeRow(v))
		case *structs.ServiceNode:
			c.Svcs = append(c.Svcs, svcRow(v.Node, v.ToNodeService()))
		case *structs.HealthCheck:
			c.Chks = append(c.Chks, chkRow(v))
		default:
			if table == "mesh-topology" {
				b, _ := json.Marshal(item)
				var t struct {
					Upstream, Downstream struct{ Name string }
					Refs                 map[string]struct{}
				}
				if err := json.Unmarshal(b, &t); err != nil {
					panic(err)
				}
				refs := []string{}
				for r := range t.Refs {
					refs = append(refs, r)
				}
				sort.Strings(refs)
				c.Topo = append(c.Topo, TopoRow{Up: t.Upstream.Name, Down: t.Downstream.Name, Refs: refs})
			}
		}
		return true
	})
	if err != nil {
		panic(err)
	}
	sortCat(c)
	return c
}

// fullDump: every row of every table as "table|json", for the frame oracle. Raft indexes of
// catalog rows are kept: a row of another peer must not even be re-stamped.
func fullDump(s *state.Store) map[string][]string {
	out := map[string][]string{}
	err := s.WalkAllTables(func(table string, item interface{}) bool {
		var b []byte
		switch v := item.(type) {
		case *structs.HealthCheck:
			b, _ = json.Marshal(struct {
				C  ChkRow
				CI uint64
				MI uint64
				T  string
			}{chkRow(v), v.CreateIndex, v.ModifyIndex, v.Type})
		default:
			b, _ = json.Marshal(item)
		}
		out[table] = append(out[table], string(b))
		return true
	})
	if err != nil {
		panic(err)
	}
	for k := range out {
		sort.Strings(out[k])
	}
	return out
}

// rowPeer extracts the peer a full-dump row is keyed by ("" = local, "?" = table has no peer key).
func rowPeer(table, row string) string {
	var m map[string]interface{}
	if err := json.Unmarshal([]byte(row), &m); err != nil {
		return "?"
	}
	switch table {
	case "nodes", "services":
		p, _ := m["PeerName"].(string)
		return p
	case "checks":
		if c, ok := m["C"].(map[string]interface{}); ok {
			p, _ := c["peer"].(string)
			return p
		}
	case "index":
		k, _ := m["Key"].(string)
		if strings.HasPrefix(k, "peer.") {
			rest := k[len("peer."):]
			if i := strings.Index(rest, ":"); i >= 0 {
				p := rest[:i]
				if p == structs.LocalPeerKeyword {
					return ""
				}
				return p
			}
		}
		// un-prefixed keys ("nodes", "services", "checks", "service_kind.<k>", "mesh-topology",
		// "service-virtual-ips", ...) are table-wide watermarks over all peers by design
		return "*"
	case "free-virtual-ips":
		// the virtual IP allocator (counter and free list) is one pool for local and imported services
		return "*"
	case "service-virtual-ips":
		if sv, ok := m["Service"].(map[string]interface{}); ok {
			p, _ := sv["Peer"].(string)
			return p
		}
	}
	return "?"
}

// ---------------------------------------------------------------- the importing side

type backend struct {
	store *state.Store
	idx   uint64
	log   []Op
}

func (b *backend) Subscribe(req *stream.SubscribeRequest) (*stream.Subscription, error) {
	return nil, fmt.Errorf("not used")
}
func (b *backend) IsLeader() bool                                           { return true }
func (b *backend) SetLeaderAddress(string)                                  {}
func (b *backend) GetLeaderAddress() string                                 { return "" }
func (b *backend) ValidateProposedPeeringSecret(string) (bool, error)       { return true, nil }
func (b *backend) PeeringSecretsWrite(*pbpeering.SecretsWriteRequest) error { return nil }
func (b *backend) PeeringTerminateByID(*pbpeering.PeeringTerminateByIDRequest) error {
	return nil
}
func (b *backend) PeeringTrustBundleWrite(*pbpeering.PeeringTrustBundleWriteRequest) error {
	return nil
}
func (b *backend) PeeringWrite(*pbpeering.PeeringWriteRequest) error { return nil }

// CatalogRegister: what leaderRaftApply + FSM.applyRegister do (encode, decode, EnsureRegistration).
func (b *backend) CatalogRegister(req *structs.RegisterRequest) error {
	op := Op{Kind: "reg", Peer: req.PeerName, Node: req.Node}
	n := &structs.Node{ID: req.ID, Node: req.Node, Address: req.Address, Datacenter: req.Datacenter,
		TaggedAddresses: req.TaggedAddresses, Meta: req.NodeMeta, PeerName: req.PeerName, Locality: req.Locality}
	nr := nodeRow(n)
	op.RN = &nr
	if req.Service != nil {
		sr := svcRow(req.Node, req.Service)
		op.RS = &sr
	}
	if req.Check != nil {
		op.RC = append(op.RC, chkRow(req.Check))
	}
	for _, c := range req.Checks {
		op.RC = append(op.RC, chkRow(c))
	}
	if os.Getenv("VERIF_DEBUG_SAME") != "" && req.Service != nil {
		_, ex, _ := b.store.NodeService(nil, req.Node, req.Service.ID, nil, req.PeerName)
		if ex != nil && reflect.DeepEqual(svcRow(req.Node, ex), svcRowCmp(svcRow(req.Node, req.Service))) {
			a, c := reflect.ValueOf(*ex), reflect.ValueOf(*req.Service)
			for i := 0; i < a.NumField(); i++ {
				if !reflect.DeepEqual(a.Field(i).Interface(), c.Field(i).Interface()) {
					fmt.Fprintf(os.Stderr, "SAME-HASH-DIFF field %s: stored %#v received %#v\n", a.Type().Field(i).Name, a.Field(i).Interface(), c.Field(i).Interface())
				}
			}
		}
	}
	buf, err := structs.Encode(structs.RegisterRequestType, req)
	if err != nil {
		panic(err)
	}
	var dec structs.RegisterRequest
	if err := structs.Decode(buf[1:], &dec); err != nil {
		panic(err)
	}
	b.idx++
	err = b.store.EnsureRegistration(b.idx, &dec)
	op.Fail = err != nil
	b.log = append(b.log, op)
	return err
}

// CatalogDeregister: FSM.applyDeregister.
func (b *backend) CatalogDeregister(req *structs.DeregisterRequest) error {
	buf, err := structs.Encode(structs.DeregisterRequestType, req)
	if err != nil {
		panic(err)
	}
	var dec structs.DeregisterRequest
	if err := structs.Decode(buf[1:], &dec); err != nil {
		panic(err)
	}
	b.idx++
	op := Op{Peer: dec.PeerName, Node: dec.Node}
	if dec.ServiceID != "" {
		op.Kind, op.ID = "dsvc", dec.ServiceID
		err = b.store.DeleteService(b.idx, dec.Node, dec.ServiceID, &dec.EnterpriseMeta, dec.PeerName)
	} else if dec.CheckID != "" {
		op.Kind, op.ID = "dchk", string(dec.CheckID)
		err = b.store.DeleteCheck(b.idx, dec.Node, dec.CheckID, &dec.EnterpriseMeta, dec.PeerName)
	} else {
		op.Kind = "dnode"
		err = b.store.DeleteNode(b.idx, dec.Node, &dec.EnterpriseMeta, dec.PeerName)
	}
	op.Fail = err != nil
	b.log = append(b.log, op)
	return err
}

type importer struct {
	store *state.Store
	be    *backend
	srv   *peerstream.Server
	st    *peerstream.MutableStatus
}

func newImporter(vip bool) *importer {
	store := state.NewStateStore(nil)
	be := &backend{store: store, idx: 10}
	if vip {
		be.idx++
		if err := store.SystemMetadataSet(be.idx, &structs.SystemMetadataEntry{Key: structs.SystemMetadataVirtualIPsEnabled, Value: "true"}); err != nil {
			panic(err)
		}
	}
	srv := peerstream.NewServer(peerstream.Config{
		Backend:        be,
		GetStore:       func() peerstream.StateStore { return store },
		Logger:         hclog.NewNullLogger(),
		Datacenter:     "dc1",
		ConnectEnabled: true,
	})
	return &importer{store: store, be: be, srv: srv, st: peerstream.VerifNewMutableStatus()}
}

func errClass(err error) int {
	if err == nil {
		return 0
	}
	m := err.Error()
	switch {
	case strings.Contains(m, "is reserved by node"):
		return 1
	case strings.Contains(m, "failed to read imported services"):
		return 5
	case strings.Contains(m, state.ErrMissingNode.Error()):
		return 2
	case strings.Contains(m, state.ErrMissingService.Error()):
		return 3
	case strings.Contains(m, "does not match node"):
		return 4
	case strings.Contains(m, "multiple peer names"):
		return 6
	}
	return 99
}

func (im *importer) upsertService(peer, service string, nodes []structs.CheckServiceNode) error {
	pb := &pbpeerstream.ExportedService{}
	for i := range nodes {
		pb.Nodes = append(pb.Nodes, pbservice.NewCheckServiceNodeFromStructs(&nodes[i]))
	}
	any, err := anypb.New(pb)
	if err != nil {
		panic(err)
	}
	return im.srv.VerifHandleUpsert(peer, "", im.st, pbpeerstream.TypeURLExportedService, service, any)
}

func (im *importer) upsertList(peer string, names []string) error {
	any, err := anypb.New(&pbpeerstream.ExportedServiceList{Services: names})
	if err != nil {
		panic(err)
	}
	return im.srv.VerifHandleUpsert(peer, "", im.st, pbpeerstream.TypeURLExportedServiceList, "exported-service-list", any)
}

// ---------------------------------------------------------------- universe

const (
	peerA = "peer-a"
	peerB = "peer-b"
)

var (
	nodeNames = []string{"n1", "n2", "n3", "n4"}
	nodeIDs   = []string{"", "11111111-1111-1111-1111-111111111111", "22222222-2222-2222-2222-222222222222",
		"33333333-3333-3333-3333-333333333333", "44444444-4444-4444-4444-444444444444"}
	svcNames = []string{"web", "api", "db"}
	svcIDs   = map[string][]string{"web": {"web1", "web2", "x1"}, "api": {"api1", "x1"}, "db": {"db1"},
		"web-sidecar-proxy": {"web-sidecar-proxy", "web-sidecar-proxy-instance-0"}, "api-sidecar-proxy": {"api-sidecar-proxy"}}
	chkIDs = []string{"serfHealth", "maint", "c1", "c2"}
	stats  = []string{api.HealthPassing, api.HealthWarning, api.HealthCritical}
)

func pick(r *rand.Rand, l []string) string { return l[r.Intn(len(l))] }

func mkNode(r *rand.Rand, name, id string) *structs.Node {
	n := &structs.Node{ID: types.NodeID(id), Node: name, Address: fmt.Sprintf("10.0.0.%d", 1+r.Intn(3)), Datacenter: "dc-x"}
	if r.Intn(3) == 0 {
		n.Meta = map[string]string{"rack": pick(r, []string{"a", "b"})}
	}
	if r.Intn(4) == 0 {
		n.TaggedAddresses = map[string]string{"wan": "192.168.0.1"}
	}
	if r.Intn(8) == 0 {
		n.Locality = &structs.Locality{Region: "r1", Zone: pick(r, []string{"a", "b"})}
	}
	return n
}

func mkSvc(r *rand.Rand, name, id string) *structs.NodeService {
	s := &structs.NodeService{ID: id, Service: name, Port: 8000 + r.Intn(3), Weights: &structs.Weights{Passing: 1, Warning: 1}}
	if r.Intn(3) == 0 {
		s.Tags = []string{pick(r, []string{"v1", "v2"})}
	}
	if r.Intn(4) == 0 {
		s.Meta = map[string]string{"ver": pick(r, []string{"1", "2"})}
	}
	if strings.HasSuffix(name, "-sidecar-proxy") {
		s.Kind = structs.ServiceKindConnectProxy
		s.Proxy.DestinationServiceName = strings.TrimSuffix(name, "-sidecar-proxy")
		s.Proxy.DestinationServiceID = strings.TrimSuffix(id, "-sidecar-proxy")
		s.Connect.PeerMeta = &structs.PeeringServiceMeta{SNI: []string{"sni." + name}, SpiffeID: []string{"spiffe://x/" + name}, Protocol: "tcp"}
	}
	return s
}

func mkChk(r *rand.Rand, node, id, sid, sname string) *structs.HealthCheck {
	c := &structs.HealthCheck{Node: node, CheckID: types.CheckID(id), Name: id, Status: pick(r, stats), ServiceID: sid, ServiceName: sname}
	if r.Intn(3) == 0 {
		c.Output = pick(r, []string{"ok", "slow"})
	}
	return c
}

// ---------------------------------------------------------------- exporter simulation

type exporter struct {
	store *state.Store
	idx   uint64
}

func newExporter() *exporter { return &exporter{store: state.NewStateStore(nil), idx: 10} }

func (e *exporter) reg(req *structs.RegisterRequest) error {
	e.idx++
	return e.store.EnsureRegistration(e.idx, req)
}

func (e *exporter) mutate(r *rand.Rand) string {
	switch k := r.Intn(14); {
	case k < 4: // register / update an instance with checks
		node := pick(r, nodeNames[:3])
		name := pick(r, svcNames[:2])
		id := pick(r, svcIDs[name])
		_, ex, _ := e.store.GetNode(node, nil, "")
		var n *structs.Node
		if ex != nil && r.Intn(4) != 0 {
			n = ex
		} else if ex != nil {
			n = mkNode(r, node, string(ex.ID))
		} else {
			n = mkNode(r, node, nodeIDs[r.Intn(len(nodeIDs))])
		}
		req := &structs.RegisterRequest{ID: n.ID, Node: n.Node, Address: n.Address, Datacenter: n.Datacenter,
			TaggedAddresses: n.TaggedAddresses, NodeMeta: n.Meta, Service: mkSvc(r, name, id)}
		if r.Intn(2) == 0 {
			req.Checks = append(req.Checks, mkChk(r, node, pick(r, []string{"c1", "c2", id + "-hc"}), id, name))
		}
		if r.Intn(3) == 0 {
			req.Checks = append(req.Checks, mkChk(r, node, pick(r, []string{"serfHealth", "maint"}), "", ""))
		}
		if err := e.reg(req); err != nil {
			return "reg-failed"
		}
		return "reg"
	case k < 6: // deregister an instance
		_, all, _ := e.store.ServiceDump(nil, "", false, nil, "")
		if len(all) == 0 {
			return "noop"
		}
		c := all[r.Intn(len(all))]
		e.idx++
		e.store.DeleteService(e.idx, c.Node.Node, c.Service.ID, nil, "")
		return "dereg-svc"
	case k < 7: // change a check
		_, cs, _ := e.store.ChecksInState(nil, api.HealthAny, nil, "")
		if len(cs) == 0 {
			return "noop"
		}
		c := cs[r.Intn(len(cs))].Clone()
		if r.Intn(4) == 0 {
			e.idx++
			e.store.DeleteCheck(e.idx, c.Node, c.CheckID, nil, "")
			return "dereg-chk"
		}
		c.Status = pick(r, stats)
		e.idx++
		e.store.EnsureCheck(e.idx, c)
		return "chk-status"
	case k < 8: // move an instance to another node
		_, all, _ := e.store.ServiceDump(nil, "", false, nil, "")
		if len(all) == 0 {
			return "noop"
		}
		c := all[r.Intn(len(all))]
		to := pick(r, nodeNames[:3])
		if to == c.Node.Node {
			return "noop"
		}
		_, ex, _ := e.store.GetNode(to, nil, "")
		n := ex
		if n == nil {
			n = mkNode(r, to, nodeIDs[r.Intn(len(nodeIDs))])
		}
		e.idx++
		e.store.DeleteService(e.idx, c.Node.Node, c.Service.ID, nil, "")
		svc := *c.Service
		svc.RaftIndex = structs.RaftIndex{}
		req := &structs.RegisterRequest{ID: n.ID, Node: n.Node, Address: n.Address, Datacenter: n.Datacenter,
			TaggedAddresses: n.TaggedAddresses, NodeMeta: n.Meta, Service: &svc}
		if err := e.reg(req); err != nil {
			return "move-failed"
		}
		return "move"
	case k < 9: // delete a node
		e.idx++
		e.store.DeleteNode(e.idx, pick(r, nodeNames[:3]), nil, "")
		return "dereg-node"
	case k < 10: // rename a node keeping its ID (agent restarted under a new name), services follow
		_, ns, _ := e.store.Nodes(nil, nil, "")
		var cand []*structs.Node
		for _, n := range ns {
			if n.ID != "" {
				cand = append(cand, n)
			}
		}
		if len(cand) == 0 {
			return "noop"
		}
		old := cand[r.Intn(len(cand))]
		to := pick(r, nodeNames)
		if to == old.Node {
			return "noop"
		}
		_, nsl, _ := e.store.NodeServices(nil, old.Node, nil, "")
		n := *old
		n.Node = to
		n.RaftIndex = structs.RaftIndex{}
		e.idx++
		if err := e.store.EnsureNode(e.idx, &n); err != nil {
			return "rename-failed"
		}
		if nsl != nil {
			for _, s := range nsl.Services {
				svc := *s
				svc.RaftIndex = structs.RaftIndex{}
				e.reg(&structs.RegisterRequest{ID: n.ID, Node: n.Node, Address: n.Address, Datacenter: n.Datacenter,
					TaggedAddresses: n.TaggedAddresses, NodeMeta: n.Meta, Service: &svc})
			}
		}
		return "rename"
	case k < 11: // takeover: the machine behind node a comes back as b (same ID); a new machine takes the name a with the same services
		_, ns, _ := e.store.Nodes(nil, nil, "")
		var cand []*structs.Node
		used := map[string]bool{}
		usedName := map[string]bool{}
		for _, n := range ns {
			used[string(n.ID)] = true
			usedName[n.Node] = true
			if n.ID != "" {
				cand = append(cand, n)
			}
		}
		if len(cand) == 0 {
			return "noop"
		}
		old := cand[r.Intn(len(cand))]
		to, newID := "", ""
		for _, nn := range nodeNames {
			if !usedName[nn] {
				to = nn
			}
		}
		for _, id := range nodeIDs[1:] {
			if !used[id] {
				newID = id
			}
		}
		if to == "" || newID == "" {
			return "noop"
		}
		_, nsl, _ := e.store.NodeServices(nil, old.Node, nil, "")
		n := *old
		n.Node = to
		n.RaftIndex = structs.RaftIndex{}
		e.idx++
		if err := e.store.EnsureNode(e.idx, &n); err != nil {
			return "takeover-failed"
		}
		fresh := *old
		fresh.ID = types.NodeID(newID)
		fresh.RaftIndex = structs.RaftIndex{}
		if nsl != nil {
			for _, s := range nsl.Services {
				for _, nd := range []*structs.Node{&n, &fresh} {
					svc := *s
					svc.RaftIndex = structs.RaftIndex{}
					e.reg(&structs.RegisterRequest{ID: nd.ID, Node: nd.Node, Address: nd.Address, Datacenter: nd.Datacenter,
						TaggedAddresses: nd.TaggedAddresses, NodeMeta: nd.Meta, Service: &svc})
				}
			}
		}
		return "takeover"
	case k < 12: // a check id changes owner: node-level <-> check of an instance on that node
		_, cs, _ := e.store.ChecksInState(nil, api.HealthAny, nil, "")
		if len(cs) == 0 {
			return "noop"
		}
		c := cs[r.Intn(len(cs))].Clone()
		if c.ServiceID != "" {
			c.ServiceID, c.ServiceName, c.ServiceTags = "", "", nil
		} else {
			_, nsl, _ := e.store.NodeServices(nil, c.Node, nil, "")
			if nsl == nil || len(nsl.Services) == 0 {
				return "noop"
			}
			ids := []string{}
			for id := range nsl.Services {
				ids = append(ids, id)
			}
			sort.Strings(ids)
			c.ServiceID = ids[r.Intn(len(ids))]
		}
		c.RaftIndex = structs.RaftIndex{}
		e.idx++
		if err := e.store.EnsureCheck(e.idx, c); err != nil {
			return "chk-owner-failed"
		}
		return "chk-owner"
	default: // replace a node: same name, other ID (old one had no healthy serf check, or no ID)
		_, ns, _ := e.store.Nodes(nil, nil, "")
		if len(ns) == 0 {
			return "noop"
		}
		old := ns[r.Intn(len(ns))]
		n := mkNode(r, old.Node, nodeIDs[1+r.Intn(len(nodeIDs)-1)])
		e.idx++
		if err := e.store.EnsureNode(e.idx, n); err != nil {
			return "replace-failed"
		}
		return "replace"
	}
}

// snapshot: what the exporting cluster would send for one service name.
func (e *exporter) snapshot(name string, flatten bool) []structs.CheckServiceNode {
	_, csn, err := e.store.CheckServiceNodes(nil, name, nil, "")
	if err != nil {
		panic(err)
	}
	out := []structs.CheckServiceNode{}
	for _, c := range csn {
		n := *c.Node
		n.RaftIndex = structs.RaftIndex{}
		s := *c.Service
		s.RaftIndex = structs.RaftIndex{}
		var cs structs.HealthChecks
		if flatten {
			if len(c.Checks) > 0 {
				st := api.HealthPassing
				for _, k := range c.Checks {
					if statusCode[k.Status] > statusCode[st] {
						st = k.Status
					}
				}
				cs = structs.HealthChecks{{CheckID: types.CheckID(s.ID + ":overall-check"), Name: "overall-check", Status: st,
					Node: n.Node, ServiceID: s.ID, ServiceName: s.Service}}
			}
		} else {
			for _, k := range c.Checks {
				kk := *k
				kk.RaftIndex = structs.RaftIndex{}
				cs = append(cs, &kk)
			}
		}
		out = append(out, structs.CheckServiceNode{Node: &n, Service: &s, Checks: cs})
	}
	return out
}

// sidecarSnapshot: the synthetic "<svc>-sidecar-proxy" export built from mesh gateway instances.
func sidecarSnapshot(r *rand.Rand, name string) []structs.CheckServiceNode {
	out := []structs.CheckServiceNode{}
	k := r.Intn(3)
	for i := 0; i < k; i++ {
		node := nodeNames[i]
		id := name
		if k > 1 {
			id = fmt.Sprintf("%s-instance-%d", name, i)
		}
		s := mkSvc(r, name, id)
		s.Tags, s.Meta = nil, nil
		n := &structs.Node{ID: types.NodeID(nodeIDs[i+1]), Node: node, Address: "10.9.0.1", Datacenter: "dc-x"}
		out = append(out, structs.CheckServiceNode{Node: n, Service: s, Checks: structs.HealthChecks{
			{CheckID: types.CheckID(id + ":overall-check"), Name: "overall-check", Status: pick(r, stats), Node: node, ServiceID: id, ServiceName: name}}})
	}
	return out
}

// malformed: instance lists a conforming exporter never sends.
func malformed(r *rand.Rand, name string) []structs.CheckServiceNode {
	out := []structs.CheckServiceNode{}
	k := 1 + r.Intn(4)
	for i := 0; i < k; i++ {
		node := pick(r, nodeNames)
		n := mkNode(r, node, nodeIDs[r.Intn(len(nodeIDs))])
		sname := name
		if r.Intn(5) == 0 {
			sname = pick(r, svcNames)
		}
		ids := svcIDs[sname]
		if ids == nil {
			ids = []string{"x1"}
		}
		s := mkSvc(r, sname, pick(r, ids))
		switch r.Intn(10) {
		case 0:
			s.Connect.Native = true
		case 1:
			s.Kind = structs.ServiceKindMeshGateway
		}
		if r.Intn(4) == 0 { // a proxy that names upstreams
			s.Kind = structs.ServiceKindConnectProxy
			s.Proxy.DestinationServiceName = pick(r, svcNames)
			for j := 0; j < 1+r.Intn(2); j++ {
				s.Proxy.Upstreams = append(s.Proxy.Upstreams, structs.Upstream{DestinationName: pick(r, svcNames), LocalBindPort: 9000 + j})
			}
		}
		var cs structs.HealthChecks
		for j := 0; j < r.Intn(3); j++ {
			cnode, sid, csn := node, s.ID, sname
			switch r.Intn(8) {
			case 0:
				cnode = pick(r, nodeNames)
			case 1:
				sid = pick(r, []string{"web1", "api1", "zz"})
			case 2, 3:
				sid, csn = "", ""
			}
			c := mkChk(r, cnode, pick(r, chkIDs), sid, csn)
			if r.Intn(6) == 0 {
				c.Status = ""
			}
			cs = append(cs, c)
		}
		out = append(out, structs.CheckServiceNode{Node: n, Service: s, Checks: cs})
	}
	return out
}

// ---------------------------------------------------------------- seeding the importer

// seedImporter: local rows and rows of the other peer whose names collide with what peer-a sends,
// including a local proxy with upstreams (mesh-topology rows).
func seedImporter(r *rand.Rand, im *importer) {
	// rows of the other peer arrive the way imported rows always do: through the handler
	// (protobuf -> structs -> msgpack -> store), one snapshot per service name
	byName := map[string][]structs.CheckServiceNode{}
	for _, peer := range []string{"", peerB} {
		for _, node := range nodeNames[:3] {
			if r.Intn(3) == 0 {
				continue
			}
			n := mkNode(r, node, nodeIDs[r.Intn(len(nodeIDs))])
			for j := 0; j < 1+r.Intn(2); j++ {
				name := pick(r, svcNames)
				s := mkSvc(r, name, pick(r, svcIDs[name]))
				var checks structs.HealthChecks
				checks = append(checks, mkChk(r, node, pick(r, chkIDs[2:]), s.ID, name))
				if r.Intn(2) == 0 {
					checks = append(checks, mkChk(r, node, pick(r, chkIDs[:2]), "", ""))
				}
				if peer != "" {
					nn := *n
					byName[name] = append(byName[name], structs.CheckServiceNode{Node: &nn, Service: s, Checks: checks})
					continue
				}
				req := &structs.RegisterRequest{ID: n.ID, Node: n.Node, Address: n.Address, Datacenter: n.Datacenter,
					TaggedAddresses: n.TaggedAddresses, NodeMeta: n.Meta, Service: s, Checks: checks}
				im.be.idx++
				if err := im.store.EnsureRegistration(im.be.idx, req); err != nil {
					continue
				}
			}
			if peer == "" && r.Intn(2) == 0 { // local sidecar with upstreams
				s := mkSvc(r, "web-sidecar-proxy", "web-sidecar-proxy")
				s.Connect.PeerMeta = nil
				s.Proxy.Upstreams = structs.Upstreams{{DestinationName: pick(r, svcNames), LocalBindPort: 9001}}
				im.be.idx++
				im.store.EnsureRegistration(im.be.idx, &structs.RegisterRequest{ID: n.ID, Node: n.Node, Address: n.Address, Datacenter: n.Datacenter,
					TaggedAddresses: n.TaggedAddresses, NodeMeta: n.Meta, Service: s})
			}
		}
	}
	for _, name := range svcNames {
		if nodes := byName[name]; len(nodes) > 0 {
			_ = im.upsertService(peerB, name, nodes)
		}
	}
	im.be.log = nil
}

// ---------------------------------------------------------------- one event = one case

func toInsts(peer string, nodes []structs.CheckServiceNode) []Inst {
	out := []Inst{}
	for _, c := range nodes {
		n := nodeRow(c.Node)
		n.Peer = peer
		s := svcRow(c.Node.Node, c.Service)
		s.Peer = peer
		in := Inst{Node: n, Svc: s, Chks: []ChkRow{}}
		for _, k := range c.Checks {
			kr := chkRow(k)
			kr.Peer = peer
			in.Chks = append(in.Chks, kr)
		}
		out = append(out, in)
	}
	return out
}

func hints(c *Case, before *Cat) {
	seenN := map[string]bool{}
	seenS := map[[2]string]bool{}
	seenC := map[ChkRow]bool{}
	svcName := map[[2]string]string{}
	for _, s := range before.Svcs {
		if s.Peer == c.Peer {
			svcName[[2]string{s.Node, s.ID}] = s.Name
		}
	}
	seenName := map[string]bool{}
	for _, o := range c.Ops {
		switch o.Kind {
		case "reg":
			if !seenN[o.Node] {
				seenN[o.Node] = true
				c.HNodes = append(c.HNodes, o.Node)
			}
			if o.RS != nil {
				k := [2]string{o.Node, o.RS.ID}
				if !seenS[k] {
					seenS[k] = true
					c.HSvcs = append(c.HSvcs, k)
				}
			}
			for _, k := range o.RC {
				if !seenC[k] {
					seenC[k] = true
					c.HChks = append(c.HChks, k)
				}
			}
		case "dsvc":
			if n, ok := svcName[[2]string{o.Node, o.ID}]; ok && !seenName[n] {
				seenName[n] = true
				c.HNames = append(c.HNames, n)
			}
		}
	}
}

type ReplayWorld struct {
	Seed   int64 `json:"seed"`
	World  int   `json:"world"`
	Step   int   `json:"step"`
	VIP    bool  `json:"vip"`
	Resp   bool  `json:"resp,omitempty"`
	Export int   `json:"export,omitempty"` // 1 + index of an export-side case (then World/Step are unused)
}

// ---------------------------------------------------------------- direct oracle (model independent)

type oracleIn struct {
	peer, service string
	kind          string
	nodes         []structs.CheckServiceNode // the received snapshot (structs, before the handler touched it)
	names         []string
	fullBefore    map[string][]string
	fullAfter     map[string][]string
	catBefore     *Cat
	catAfter      *Cat
	ops           []Op
	err           error
	im            *importer
}

// rows (not keyed by the event's peer) that the last diffTables call found removed / added
type changedRow struct {
	table, row string
	added      bool
}

var lastChanged []changedRow

// frameCause: the recorded defect, if any, that explains EVERY changed row of a frame failure.
//
//	imported-connect-instance  ensureServiceTxn runs checkGatewayWildcardsAndUpdate for an imported
//	    connect-proxy / connect-native instance: each local gateway with a "*" service gets a
//	    FromWildcard gateway-services row for the instance's destination name (existing
//	    wildcard-derived rows of that name are re-stamped), ingress gateways also a mesh-topology row
func frameCause(in *oracleIn) string {
	dests := map[string]bool{}
	for _, c := range in.nodes {
		if c.Service.Kind == structs.ServiceKindConnectProxy {
			dests[strings.ToLower(c.Service.Proxy.DestinationServiceName)] = true
		} else if c.Service.Connect.Native {
			dests[strings.ToLower(c.Service.Service)] = true
		}
	}
	if len(dests) == 0 || len(lastChanged) == 0 {
		return "none"
	}
	for _, ch := range lastChanged {
		var m map[string]interface{}
		if err := json.Unmarshal([]byte(ch.row), &m); err != nil {
			return "none"
		}
		name := func(k string) string {
			if o, ok := m[k].(map[string]interface{}); ok {
				n, _ := o["Name"].(string)
				return strings.ToLower(n)
			}
			return ""
		}
		switch ch.table {
		case "gateway-services":
			if fw, _ := m["FromWildcard"].(bool); !fw || !dests[name("Service")] {
				return "none"
			}
		case "mesh-topology":
			refs, _ := m["Refs"].(map[string]interface{})
			if !dests[name("Upstream")] || len(refs) != 0 {
				return "none"
			}
		default:
			return "none"
		}
	}
	return "imported-connect-instance"
}

func diffTables(peer string, a, b map[string][]string) []string {
	var bad []string
	tables := map[string]bool{}
	for t := range a {
		tables[t] = true
	}
	for t := range b {
		tables[t] = true
	}
	for t := range tables {
		fa, fb := []string{}, []string{}
		for _, r := range a[t] {
			if rp := rowPeer(t, r); rp != peer && rp != "*" {
				fa = append(fa, r)
			}
		}
		for _, r := range b[t] {
			if rp := rowPeer(t, r); rp != peer && rp != "*" {
				fb = append(fb, r)
			}
		}
		if !reflect.DeepEqual(fa, fb) {
			bad = append(bad, t)
		}
	}
	sort.Strings(bad)
	lastChanged = lastChanged[:0]
	for _, t := range bad {
		sa, sb := map[string]bool{}, map[string]bool{}
		for _, r := range a[t] {
			sa[r] = true
		}
		for _, r := range b[t] {
			sb[r] = true
		}
		for _, r := range a[t] {
			if rp := rowPeer(t, r); !sb[r] && rp != peer && rp != "*" {
				lastChanged = append(lastChanged, changedRow{t, r, false})
			}
		}
		for _, r := range b[t] {
			if rp := rowPeer(t, r); !sa[r] && rp != peer && rp != "*" {
				lastChanged = append(lastChanged, changedRow{t, r, true})
			}
		}
	}
	if os.Getenv("VERIF_DEBUG_FRAME") != "" {
		for _, t := range bad {
			sa, sb := map[string]bool{}, map[string]bool{}
			for _, r := range a[t] {
				sa[r] = true
			}
			for _, r := range b[t] {
				sb[r] = true
			}
			for r := range sa {
				if !sb[r] && rowPeer(t, r) != peer {
					fmt.Fprintln(os.Stderr, "FRAME-", t, r)
				}
			}
			for r := range sb {
				if !sa[r] && rowPeer(t, r) != peer {
					fmt.Fprintln(os.Stderr, "FRAME+", t, r)
				}
			}
		}
	}
	return bad
}

// snapshot classification, computed from the received data and the prior catalog only
type snapClass struct {
	coherent   bool // what a catalog could have produced for this service name
	rename     bool // some snapshot node's ID is held by a stored node of the peer under another name
	idsStable  bool // no check id changes owner between the stored rows and the snapshot
	owned      bool // pre-existing checks in the snapshot's slots belong to stored instances of the service
	hasUps     bool // a connect service in the snapshot names upstreams
	storedUps  bool // a stored row of the peer in a snapshot slot names upstreams
	canonNames bool
	// causes, per row: where a recorded defect can show
	oldNames     map[string]bool    // stored node names of the peer whose ID the snapshot carries under another name
	ownerChanged map[[2]string]bool // (node, check id) stored and received with different service ids
	notOwned     map[[3]string]bool // (node, instance service id, check id): stored check in that slot, not listed, no retained owner
	respelled    map[string]bool    // lower-cased "node", "node\x00sid", "node\x00\x00cid": stored under another spelling than received
}

// classify evaluates, on the received data and the prior catalog only, the hypotheses of the
// theorems C17_mirror_partial / C17_same_peer_frame (the upstream flags only describe the input):
//
//	coherent  = Snapshot.snap_coh        rename    = not MirrorTop.ids_keep_names
//	idsStable = check_ids_keep_owner     owned     = slots_owned
//	hasUps / storedUps = the snapshot / a stored row of the peer names upstreams
func classify(in *oracleIn) snapClass {
	cl := snapClass{coherent: true, idsStable: true, owned: true, canonNames: true,
		oldNames: map[string]bool{}, ownerChanged: map[[2]string]bool{}, notOwned: map[[3]string]bool{}, respelled: map[string]bool{}}
	p, sn := in.peer, in.service
	lo := strings.ToLower
	type nk = [2]string
	nodeOf := map[string]NodeRow{}
	instKey := map[nk]bool{}
	chkByNode := map[nk]ChkRow{} // (node, id) -> row
	insts := toInsts(p, in.nodes)
	for _, i := range insts {
		if !strings.EqualFold(i.Svc.Name, sn) || i.Svc.ID == "" {
			cl.coherent = false
		}
		if o, ok := nodeOf[i.Node.Name]; ok {
			if o != i.Node {
				cl.coherent = false
			}
		} else {
			nodeOf[i.Node.Name] = i.Node // the handler keeps the first node record per name
		}
		k := nk{i.Node.Name, i.Svc.ID}
		if instKey[k] {
			cl.coherent = false
		}
		instKey[k] = true
		if len(i.Svc.Ups) > 0 {
			cl.hasUps = true
		}
		seen := map[string]bool{}
		for _, c := range i.Chks {
			if c.Node != i.Node.Name || (c.SID != "" && c.SID != i.Svc.ID) || seen[c.ID] || c.Status == 0 || c.Status == 9 || c.ID == "" {
				cl.coherent = false
			}
			seen[c.ID] = true
			if o, ok := chkByNode[nk{c.Node, c.ID}]; ok && o != c {
				cl.coherent = false
			}
			chkByNode[nk{c.Node, c.ID}] = c
		}
	}
	// node-level checks are listed under every instance of the node
	for _, i := range insts {
		for _, c := range i.Chks {
			if c.SID != "" {
				continue
			}
			for _, j := range insts {
				if j.Node.Name != i.Node.Name {
					continue
				}
				found := false
				for _, d := range j.Chks {
					if d == c {
						found = true
					}
				}
				if !found {
					cl.coherent = false
				}
			}
		}
	}
	// one node name per node ID inside the snapshot
	for _, i := range insts {
		for _, j := range insts {
			if i.Node.ID != "" && i.Node.ID == j.Node.ID && i.Node.Name != j.Node.Name {
				cl.coherent = false
			}
		}
	}
	// names that memdb holds to be the same (lower-cased keys) but that are spelled differently
	for _, i := range insts {
		for _, n := range in.catBefore.Nodes {
			if n.Peer == p && lo(n.Name) == lo(i.Node.Name) && n.Name != i.Node.Name {
				cl.respelled[lo(n.Name)] = true
			}
		}
		for _, z := range in.catBefore.Svcs {
			if z.Peer == p && lo(z.Node) == lo(i.Node.Name) && lo(z.ID) == lo(i.Svc.ID) && (z.Node != i.Node.Name || z.ID != i.Svc.ID) {
				cl.respelled[lo(z.Node)+"\x00"+lo(z.ID)] = true
			}
		}
		for _, k := range i.Chks {
			for _, c := range in.catBefore.Chks {
				if c.Peer == p && lo(c.Node) == lo(k.Node) && lo(c.ID) == lo(k.ID) && (c.Node != k.Node || c.ID != k.ID) {
					cl.respelled[lo(c.Node)+"\x00\x00"+lo(c.ID)] = true
				}
			}
		}
	}
	// ids_keep_names
	for _, n := range in.catBefore.Nodes {
		if n.Peer == p && n.ID != "" {
			for _, i := range insts {
				if i.Node.ID == n.ID && !strings.EqualFold(i.Node.Name, n.Name) {
					cl.rename = true
					cl.oldNames[lo(n.Name)] = true
				}
			}
		}
	}
	storedSvc := map[nk]SvcRow{}
	for _, s := range in.catBefore.Svcs {
		if s.Peer == p {
			storedSvc[nk{lo(s.Node), lo(s.ID)}] = s // a slot is what memdb holds it to be
			if len(s.Ups) > 0 {
				cl.storedUps = true
			}
		}
	}
	for _, c := range in.catBefore.Chks {
		if c.Peer != p {
			continue
		}
		// check_ids_keep_owner
		for _, i := range insts {
			for _, k := range i.Chks {
				if lo(c.Node) == lo(i.Node.Name) && lo(c.ID) == lo(k.ID) && lo(k.SID) != lo(c.SID) {
					cl.idsStable = false
					cl.ownerChanged[[2]string{lo(c.Node), lo(c.ID)}] = true
				}
			}
		}
		// slots_owned
		for _, i := range insts {
			if lo(c.Node) != lo(i.Node.Name) || !(c.SID == "" || lo(c.SID) == lo(i.Svc.ID)) {
				continue
			}
			listed := false
			for _, k := range i.Chks {
				if lo(k.ID) == lo(c.ID) {
					listed = true
				}
			}
			if listed {
				continue
			}
			ok := false
			for _, j := range insts {
				if lo(j.Node.Name) != lo(i.Node.Name) {
					continue
				}
				z, has := storedSvc[nk{lo(i.Node.Name), lo(j.Svc.ID)}]
				if has && strings.EqualFold(z.Name, sn) && (c.SID == "" || lo(j.Svc.ID) == lo(i.Svc.ID)) {
					ok = true
				}
			}
			if !ok {
				cl.owned = false
				cl.notOwned[[3]string{lo(i.Node.Name), lo(i.Svc.ID), lo(c.ID)}] = true
			}
		}
	}
	return cl
}

// expectedView: the received snapshot as CheckServiceNodes should return it afterwards.
type viewInst struct {
	Node NodeRow
	Svc  SvcRow
	Chks []ChkRow
}

func canonView(peer string, nodes structs.CheckServiceNodes, stripVIP bool) []viewInst {
	out := []viewInst{}
	for _, c := range nodes {
		// node names are compared the way the catalog compares them (strings.EqualFold /
		// lower-cased keys): an unchanged node keeps the spelling it was first stored with
		n := nodeRow(c.Node)
		n.Peer = peer
		n.Name = strings.ToLower(n.Name)
		s := svcRow(strings.ToLower(c.Node.Node), c.Service)
		s.Peer = peer
		if stripVIP {
			s.VIP = ""
		}
		v := viewInst{Node: n, Svc: s, Chks: []ChkRow{}}
		for _, k := range c.Checks {
			kr := chkRow(k)
			kr.Peer = peer
			kr.SName, kr.STags = "", 0
			kr.Node = strings.ToLower(kr.Node)
			v.Chks = append(v.Chks, kr)
		}
		sort.Slice(v.Chks, func(i, j int) bool { return v.Chks[i].ID < v.Chks[j].ID })
		out = append(out, v)
	}
	sort.Slice(out, func(i, j int) bool {
		return out[i].Node.Name+"\x00"+out[i].Svc.ID < out[j].Node.Name+"\x00"+out[j].Svc.ID
	})
	return out
}

// oracle evaluates every clause; when several fail, one that no recorded cause explains is
// reported first (so a recorded defect in the same event cannot hide it)
func oracle(in *oracleIn, vip bool) (string, map[string]interface{}, map[string]bool) {
	flags := map[string]bool{}
	type fail struct {
		msg string
		sig map[string]interface{}
	}
	var fails []fail
	pick := func() (string, map[string]interface{}, map[string]bool) {
		for _, f := range fails {
			if c, ok := f.sig["cause"]; !ok || c == "none" {
				return f.msg, f.sig, flags
			}
		}
		if len(fails) > 0 {
			return fails[0].msg, fails[0].sig, flags
		}
		return "", nil, flags
	}
	// 1. every backend call carries the peer name
	for _, o := range in.ops {
		if o.Peer != in.peer {
			return "op-without-peer:" + o.Kind, map[string]interface{}{"kind": "op-without-peer"}, flags
		}
		if o.RN != nil && o.RN.Peer != in.peer {
			return "op-node-without-peer", map[string]interface{}{"kind": "op-without-peer"}, flags
		}
		if o.RS != nil && o.RS.Peer != in.peer {
			return "op-service-without-peer", map[string]interface{}{"kind": "op-without-peer"}, flags
		}
		for _, k := range o.RC {
			if k.Peer != in.peer {
				return "op-check-without-peer", map[string]interface{}{"kind": "op-without-peer"}, flags
			}
		}
	}
	var cl snapClass
	if in.kind == "upsert" {
		cl = classify(in)
		flags["coherent"], flags["rename"], flags["ids_stable"], flags["owned"], flags["has_ups"], flags["stored_ups"] =
			cl.coherent, cl.rename, cl.idsStable, cl.owned, cl.hasUps, cl.storedUps
	}
	// 2. frame: nothing that is not keyed by the peer changes, in any table
	if bad := diffTables(in.peer, in.fullBefore, in.fullAfter); len(bad) > 0 {
		sig := map[string]interface{}{"kind": "frame", "tables": strings.Join(bad, ","), "cause": frameCause(in)}
		fails = append(fails, fail{"frame:" + strings.Join(bad, ","), sig})
	}
	if in.err != nil {
		flags["error"] = true
		return pick()
	}
	switch in.kind {
	case "upsert":
		if !cl.coherent {
			return pick() // not something a catalog sends: only the frame is owed
		}
		flags["mirror_applicable"] = !cl.rename && cl.idsStable && cl.owned
		// 3. mirror
		_, got, err := in.im.store.CheckServiceNodes(nil, in.service, nil, in.peer)
		if err != nil {
			return "mirror-read-failed:" + err.Error(), map[string]interface{}{"kind": "mirror-read-failed"}, flags
		}
		want := canonView(in.peer, in.nodes, false)
		have := canonView(in.peer, got, vip)
		if vip {
			for i := range want {
				want[i].Svc.VIP = ""
			}
		}
		if !reflect.DeepEqual(want, have) {
			// every difference must be explained by the cause of a recorded defect AT THAT ROW;
			// the first one that is not makes the whole event unexplained
			diffs := viewDiffs(want, have)
			first, firstCause := diffs[0], ""
			for i, d := range diffs {
				cause := diffCause(cl, d)
				if i == 0 {
					firstCause = cause
				}
				if cause == "none" {
					first, firstCause = d, cause
					break
				}
			}
			wb, _ := json.Marshal(want)
			hb, _ := json.Marshal(have)
			sig := map[string]interface{}{"kind": "mirror", "cause": firstCause, "diff": first.kind}
			fails = append(fails, fail{fmt.Sprintf("mirror(%s, %s at %s/%s/%s): want %s have %s", firstCause, first.kind, first.node, first.sid, first.cid, wb, hb), sig})
		}
		// 4. other services of the same peer keep their instances and service-level checks
		if msg, node := samePeerFrame(in); msg != "" {
			cause := "none"
			if cl.oldNames[strings.ToLower(node)] {
				cause = "node-id-moves" // the row sat on a node that the store deleted because its ID moved
			}
			fails = append(fails, fail{msg, map[string]interface{}{"kind": "same-peer-frame", "cause": cause}})
		}
	case "list":
		// 5. prune
		// a catalog service name is what memdb holds it to be: compared lower-cased
		keep := map[string]bool{}
		spelled := map[string]string{}
		for _, n := range in.names {
			keep[strings.ToLower(n)] = true
			keep[strings.ToLower(n+peerstream.VerifSyntheticProxySuffix)] = true
			spelled[strings.ToLower(n)] = n
			spelled[strings.ToLower(n+peerstream.VerifSyntheticProxySuffix)] = n + peerstream.VerifSyntheticProxySuffix
		}
		for _, s := range in.catAfter.Svcs {
			if s.Peer == in.peer && !keep[strings.ToLower(s.Name)] {
				fails = append(fails, fail{"prune: service " + s.Name + " still present", map[string]interface{}{"kind": "prune"}})
				break
			}
		}
		for _, s := range in.catBefore.Svcs {
			if s.Peer == in.peer && keep[strings.ToLower(s.Name)] {
				found := false
				for _, t := range in.catAfter.Svcs {
					if reflect.DeepEqual(t, s) {
						found = true
					}
				}
				if !found {
					cause := "none"
					if spelled[strings.ToLower(s.Name)] != s.Name {
						cause = "name-respelled" // the list spells the name differently from the rows
					}
					fails = append(fails, fail{"prune: exported service row removed " + s.Name, map[string]interface{}{"kind": "prune-too-much", "cause": cause}})
				}
			}
		}
	}
	return pick()
}

// viewDiffs lists the differences between the received and the stored view, row by row
type vdiff struct{ kind, node, sid, cid string }

func viewDiffs(want, have []viewInst) []vdiff {
	key := func(v viewInst) string { return v.Node.Name + "\x00" + v.Svc.ID }
	hm, wm := map[string]viewInst{}, map[string]viewInst{}
	for _, v := range have {
		hm[key(v)] = v
	}
	for _, v := range want {
		wm[key(v)] = v
	}
	out := []vdiff{}
	for _, w := range want {
		if _, ok := hm[key(w)]; !ok {
			out = append(out, vdiff{"missing-instance", w.Node.Name, w.Svc.ID, ""})
		}
	}
	for _, h := range have {
		if _, ok := wm[key(h)]; !ok {
			out = append(out, vdiff{"extra-instance", h.Node.Name, h.Svc.ID, ""})
		}
	}
	for _, w := range want {
		h, ok := hm[key(w)]
		if !ok {
			continue
		}
		wn, hn := w.Node, h.Node
		if wn.Loc != hn.Loc {
			out = append(out, vdiff{"node-locality", w.Node.Name, w.Svc.ID, hn.Loc})
		}
		wn.Loc, hn.Loc = "", ""
		if wn != hn || !reflect.DeepEqual(w.Svc, h.Svc) {
			out = append(out, vdiff{"content", w.Node.Name, w.Svc.ID, ""})
		}
		wc, hc := map[string]ChkRow{}, map[string]ChkRow{}
		for _, c := range w.Chks {
			wc[c.ID] = c
		}
		for _, c := range h.Chks {
			hc[c.ID] = c
		}
		for _, c := range w.Chks {
			if hcc, ok := hc[c.ID]; !ok {
				out = append(out, vdiff{"missing-check", w.Node.Name, w.Svc.ID, c.ID})
			} else if hcc != c {
				out = append(out, vdiff{"content", w.Node.Name, w.Svc.ID, c.ID})
			}
		}
		for _, c := range h.Chks {
			if _, ok := wc[c.ID]; !ok {
				out = append(out, vdiff{"extra-check", w.Node.Name, w.Svc.ID, c.ID})
			}
		}
	}
	if len(out) == 0 {
		out = append(out, vdiff{"order", "", "", ""})
	}
	return out
}

// diffCause: which recorded defect, if any, explains this difference at this row
//
//	node-id-moves        the row sits on a stored node whose ID the snapshot carries under another name
//	                     (ensureNodeTxn deleted that node; what "had not changed" on it was skipped)
//	check-owner-changes  a received check is missing and its id is stored on that node under another owner
//	slot-not-owned       an extra check is a stored one that no retained instance of the service owns
func diffCause(cl snapClass, d vdiff) string {
	lo := strings.ToLower
	if d.kind == "missing-instance" || d.kind == "missing-check" {
		// the handler's Go maps are keyed by the spelling, memdb by the lower-cased name: the row
		// is registered under the new spelling and deregistered under the old one (same key)
		if cl.respelled[lo(d.node)] || cl.respelled[lo(d.node)+"\x00"+lo(d.sid)] ||
			(d.cid != "" && cl.respelled[lo(d.node)+"\x00\x00"+lo(d.cid)]) {
			return "name-respelled"
		}
	}
	switch d.kind {
	case "node-locality":
		// Node.ToRegisterRequest does not carry Locality: imported nodes never have one
		if d.cid == "" {
			return "node-locality-dropped"
		}
	case "missing-instance":
		if cl.oldNames[lo(d.node)] {
			return "node-id-moves"
		}
	case "missing-check":
		if cl.oldNames[lo(d.node)] {
			return "node-id-moves"
		}
		if cl.ownerChanged[[2]string{lo(d.node), lo(d.cid)}] {
			return "check-owner-changes"
		}
	case "extra-check":
		if cl.notOwned[[3]string{lo(d.node), lo(d.sid), lo(d.cid)}] {
			return "slot-not-owned"
		}
	}
	return "none"
}

func anyStoredUps(in *oracleIn) bool {
	for _, s := range in.catBefore.Svcs {
		if s.Peer == in.peer && len(s.Ups) > 0 {
			return true
		}
	}
	return false
}

func samePeerFrame(in *oracleIn) (string, string) {
	// slots, nodes and check ids are what memdb holds them to be (lower-cased keys): a received
	// instance x1 on n1 IS the slot of a stored X1 on n1
	lo := strings.ToLower
	type nk = [2]string
	slot := map[nk]bool{}
	snapChk := map[nk]bool{}
	snapNode := map[string]bool{}
	for _, c := range in.nodes {
		slot[nk{lo(c.Node.Node), lo(c.Service.ID)}] = true
		snapNode[lo(c.Node.Node)] = true
		for _, k := range c.Checks {
			snapChk[nk{lo(c.Node.Node), lo(string(k.CheckID))}] = true
		}
	}
	after := map[[3]string]SvcRow{}
	for _, s := range in.catAfter.Svcs {
		after[[3]string{s.Peer, s.Node, s.ID}] = s
	}
	afterC := map[[3]string]ChkRow{}
	for _, c := range in.catAfter.Chks {
		afterC[[3]string{c.Peer, c.Node, c.ID}] = c
	}
	afterN := map[[2]string]NodeRow{}
	for _, n := range in.catAfter.Nodes {
		afterN[[2]string{n.Peer, n.Name}] = n
	}
	other := map[nk]bool{}
	hostsSn := map[string]bool{}
	for _, s := range in.catBefore.Svcs {
		if s.Peer == in.peer && strings.EqualFold(s.Name, in.service) {
			hostsSn[lo(s.Node)] = true
		}
	}
	for _, s := range in.catBefore.Svcs {
		if s.Peer != in.peer || strings.EqualFold(s.Name, in.service) || slot[nk{lo(s.Node), lo(s.ID)}] {
			continue
		}
		other[nk{lo(s.Node), lo(s.ID)}] = true
		if t, ok := after[[3]string{s.Peer, s.Node, s.ID}]; !ok || !reflect.DeepEqual(t, s) {
			return fmt.Sprintf("same-peer-frame: instance %s/%s of service %s changed", s.Node, s.ID, s.Name), s.Node
		}
		if !snapNode[lo(s.Node)] {
			for _, n := range in.catBefore.Nodes {
				if n.Peer == in.peer && n.Name == s.Node {
					if t, ok := afterN[[2]string{n.Peer, n.Name}]; !ok || t != n {
						return fmt.Sprintf("same-peer-frame: node %s of instance %s changed", n.Name, s.ID), n.Name
					}
				}
			}
		}
	}
	for _, c := range in.catBefore.Chks {
		if c.Peer != in.peer || c.SID == "" || !other[nk{lo(c.Node), lo(c.SID)}] || snapChk[nk{lo(c.Node), lo(c.ID)}] {
			continue
		}
		if t, ok := afterC[[3]string{c.Peer, c.Node, c.ID}]; !ok || t != c {
			return fmt.Sprintf("same-peer-frame: check %s/%s of instance %s changed", c.Node, c.ID, c.SID), c.Node
		}
	}
	// nodes that are not in the snapshot and host no instance of the service keep every row
	for _, n := range in.catBefore.Nodes {
		if n.Peer != in.peer || snapNode[lo(n.Name)] || hostsSn[lo(n.Name)] {
			continue
		}
		if t, ok := afterN[[2]string{n.Peer, n.Name}]; !ok || t != n {
			return fmt.Sprintf("same-peer-frame: uninvolved node %s changed", n.Name), n.Name
		}
		for _, c := range in.catBefore.Chks {
			if c.Peer == in.peer && c.Node == n.Name {
				if t, ok := afterC[[3]string{c.Peer, c.Node, c.ID}]; !ok || t != c {
					return fmt.Sprintf("same-peer-frame: check %s on uninvolved node %s changed", c.ID, n.Name), n.Name
				}
			}
		}
	}
	return "", ""
}

// ---------------------------------------------------------------- worlds

type world struct {
	r    *rand.Rand
	im   *importer
	ex   *exporter
	vip  bool
	resp bool // respelling world: names may differ in letter case between stored and received (oracle only)
	id   int
	step int
}

func newWorld(seed int64, id int, vip bool, resp bool) *world {
	r := rand.New(rand.NewSource(seed*1000003 + int64(id)))
	w := &world{r: r, im: newImporter(vip), ex: newExporter(), vip: vip, resp: resp, id: id}
	seedImporter(r, w.im)
	// local wildcard gateways only in the oracle-only worlds: gateway-services is outside the
	// Coq model (and the defect recorded as C17-gateway-services-imported also writes mesh-topology)
	if (vip || resp) && id%2 == 1 {
		seedGateways(w.im)
	}
	for i := 0; i < 3+r.Intn(5); i++ {
		w.ex.mutate(r)
	}
	return w
}

func (w *world) event(caseID int) *Case {
	r := w.r
	c := &Case{ID: caseID, World: w.id, Step: w.step, VIP: w.vip, Peer: peerA}
	w.step++
	for i := 0; i < r.Intn(3); i++ {
		w.ex.mutate(r)
	}
	if r.Intn(12) == 0 {
		c.Peer = peerB
	}
	before := dumpCat(w.im.store)
	fb := fullDump(w.im.store)
	w.im.be.log = nil
	in := &oracleIn{peer: c.Peer, fullBefore: fb, catBefore: before, im: w.im}
	var err error
	k := r.Intn(20)
	respellNow := w.resp && r.Intn(3) == 0
	switch {
	case k < 3:
		c.Kind, c.Gen = "list", "list"
		for _, n := range svcNames {
			if r.Intn(2) == 0 {
				if respellNow { // the exporter's config entry spells the name its own way
					c.Gen = "list-respelled"
					n = flipCase(n)
				}
				c.Names = append(c.Names, n)
			}
		}
		if c.Names == nil {
			c.Names = []string{}
		}
		in.kind, in.names = "list", c.Names
		err = w.im.upsertList(c.Peer, c.Names)
	default:
		c.Kind = "upsert"
		var nodes []structs.CheckServiceNode
		switch {
		case k < 9:
			c.Gen, c.Service = "sim-flat", pick(r, svcNames[:2])
			nodes = w.ex.snapshot(c.Service, true)
		case k < 14:
			c.Gen, c.Service = "sim-raw", pick(r, svcNames[:2])
			nodes = w.ex.snapshot(c.Service, false)
		case k < 16:
			c.Gen, c.Service = "sidecar", pick(r, []string{"web-sidecar-proxy", "api-sidecar-proxy"})
			nodes = sidecarSnapshot(r, c.Service)
		default:
			c.Gen, c.Service = "malformed", pick(r, svcNames)
			nodes = malformed(r, c.Service)
		}
		if respellNow {
			// what is stored, sent again with one name written in another letter case
			c.Service = pick(r, svcNames[:2])
			if re, what := respelled(r, w.im, c.Peer, c.Service); re != nil {
				c.Gen, nodes = "respelled-"+what, re
			}
		}
		c.Export = toInsts(c.Peer, nodes)
		// the oracle keeps its own copy: the handler rewrites the structs it receives
		cp := make([]structs.CheckServiceNode, len(nodes))
		for i := range nodes {
			n := *nodes[i].Node
			s := *nodes[i].Service
			var cs structs.HealthChecks
			for _, k := range nodes[i].Checks {
				kk := *k
				cs = append(cs, &kk)
			}
			cp[i] = structs.CheckServiceNode{Node: &n, Service: &s, Checks: cs}
		}
		in.kind, in.service, in.nodes = "upsert", c.Service, cp
		err = w.im.upsertService(c.Peer, c.Service, nodes)
	}
	c.Before = before
	c.After = dumpCat(w.im.store)
	c.Ops = append([]Op{}, w.im.be.log...)
	c.Err = errClass(err)
	if err != nil {
		c.ErrMsg = err.Error()
	}
	in.fullAfter, in.catAfter, in.ops, in.err = fullDump(w.im.store), c.After, c.Ops, err
	c.Oracle, c.Sig, c.Flags = oracle(in, w.vip)
	hints(c, before)
	c.ToCoq = !w.vip && !w.resp
	return c
}

func flipCase(x string) string {
	if x == "" {
		return x
	}
	if up := strings.ToUpper(x[:1]) + x[1:]; up != x {
		return up
	}
	return strings.ToLower(x)
}

// respelled: the instances stored for (peer, service), with one node name, service id or check
// id written in another letter case (an agent restarted under another spelling of its name;
// a service re-registered as "Web1"); nil when nothing is stored
func respelled(r *rand.Rand, im *importer, peer, service string) ([]structs.CheckServiceNode, string) {
	_, csn, err := im.store.CheckServiceNodes(nil, service, nil, peer)
	if err != nil || len(csn) == 0 {
		return nil, ""
	}
	out := []structs.CheckServiceNode{}
	for _, c := range csn {
		n := *c.Node
		n.RaftIndex, n.PeerName = structs.RaftIndex{}, ""
		s := *c.Service
		s.RaftIndex, s.PeerName = structs.RaftIndex{}, ""
		var cs structs.HealthChecks
		for _, k := range c.Checks {
			kk := *k
			kk.RaftIndex, kk.PeerName = structs.RaftIndex{}, ""
			cs = append(cs, &kk)
		}
		out = append(out, structs.CheckServiceNode{Node: &n, Service: &s, Checks: cs})
	}
	t := out[r.Intn(len(out))]
	what := []string{"node", "service-id", "check-id"}[r.Intn(3)]
	if what == "check-id" && len(t.Checks) == 0 {
		what = "node"
	}
	switch what {
	case "node":
		old, nw := t.Node.Node, flipCase(t.Node.Node)
		for _, c := range out {
			if c.Node.Node == old {
				c.Node.Node = nw
				for _, k := range c.Checks {
					k.Node = nw
				}
			}
		}
	case "service-id":
		old, nw := t.Service.ID, flipCase(t.Service.ID)
		t.Service.ID = nw
		for _, k := range t.Checks {
			if k.ServiceID == old {
				k.ServiceID = nw
			}
		}
	case "check-id":
		k := t.Checks[r.Intn(len(t.Checks))]
		old, nw := k.CheckID, types.CheckID(flipCase(string(k.CheckID)))
		for _, c := range out { // a node-level check is listed under every instance of the node
			if c.Node.Node == t.Node.Node {
				for _, kk := range c.Checks {
					if kk.CheckID == old {
						kk.CheckID = nw
					}
				}
			}
		}
	}
	return out, what
}

// seedGateways: local ingress and terminating gateways that take every service ("*"): the
// gateway-services table then has wildcard rows that ensureServiceTxn expands per service
func seedGateways(im *importer) {
	igw := &structs.IngressGatewayConfigEntry{Kind: structs.IngressGateway, Name: "igw",
		Listeners: []structs.IngressListener{{Port: 8080, Protocol: "http", Services: []structs.IngressService{{Name: "*"}}}}}
	tgw := &structs.TerminatingGatewayConfigEntry{Kind: structs.TerminatingGateway, Name: "tgw",
		Services: []structs.LinkedService{{Name: "*"}}}
	for _, e := range []structs.ConfigEntry{igw, tgw} {
		if err := e.Normalize(); err != nil {
			panic(err)
		}
		im.be.idx++
		if err := im.store.EnsureConfigEntry(im.be.idx, e); err != nil {
			panic(err)
		}
	}
}

// ---------------------------------------------------------------- export side

func exportCase(r *rand.Rand, id int) *Case {
	c := &Case{ID: id, Kind: "export", Gen: "export"}
	s := state.NewStateStore(nil)
	idx := uint64(10)
	peers := []string{"imp-a", "imp-b", "imp-c"}
	ids := map[string]string{"imp-a": "aaaaaaaa-0000-0000-0000-000000000001", "imp-b": "aaaaaaaa-0000-0000-0000-000000000002", "imp-c": "aaaaaaaa-0000-0000-0000-000000000003"}
	known := peers[:2+r.Intn(2)]
	for _, p := range known {
		idx++
		if err := s.PeeringWrite(idx, &pbpeering.PeeringWriteRequest{Peering: &pbpeering.Peering{ID: ids[p], Name: p, State: pbpeering.PeeringState_ACTIVE}}); err != nil {
			panic(err)
		}
	}
	idx++
	if err := s.CASetConfig(idx, &structs.CAConfiguration{ClusterID: "11111111-2222-3333-4444-555555555555", Provider: "consul"}); err != nil {
		panic(err)
	}
	names := []string{"web", "api", "db", "consul", "cache"}
	// local catalog
	for _, n := range names {
		if r.Intn(3) == 0 {
			continue
		}
		node := &structs.Node{Node: "ln" + n, Address: "10.1.0.1"}
		svc := &structs.NodeService{ID: n + "1", Service: n, Port: 80}
		if r.Intn(4) == 0 {
			svc.Connect.Native = true
		}
		idx++
		if err := s.EnsureRegistration(idx, &structs.RegisterRequest{Node: node.Node, Address: node.Address, Service: svc}); err != nil {
			panic(err)
		}
		if r.Intn(3) == 0 {
			px := &structs.NodeService{ID: n + "-sidecar-proxy", Service: n + "-sidecar-proxy", Kind: structs.ServiceKindConnectProxy, Port: 21000,
				Proxy: structs.ConnectProxyConfig{DestinationServiceName: n, DestinationServiceID: n + "1"}}
			idx++
			if err := s.EnsureRegistration(idx, &structs.RegisterRequest{Node: node.Node, Address: node.Address, Service: px}); err != nil {
				panic(err)
			}
		}
	}
	// discovery chains
	chains := []string{}
	for _, n := range []string{"web", "db", "ghost"} {
		if r.Intn(3) == 0 {
			e := &structs.ServiceResolverConfigEntry{Kind: structs.ServiceResolver, Name: n}
			if r.Intn(4) == 0 { // a chain that ends at the "consul" service is never exported
				e.Redirect = &structs.ServiceResolverRedirect{Service: "consul"}
				c.BadChains = append(c.BadChains, n)
			}
			if err := e.Normalize(); err != nil {
				panic(err)
			}
			idx++
			if err := s.EnsureConfigEntry(idx, e); err != nil {
				panic(err)
			}
			chains = append(chains, n)
		}
	}
	// a terminating gateway that serves some names: they are exported as connect services
	if r.Intn(3) == 0 {
		tg := &structs.TerminatingGatewayConfigEntry{Kind: structs.TerminatingGateway, Name: "tgw"}
		for _, n := range []string{"db", "cache", "api"} {
			if r.Intn(2) == 0 {
				tg.Services = append(tg.Services, structs.LinkedService{Name: n})
				c.Tgw = append(c.Tgw, n)
			}
		}
		if err := tg.Normalize(); err != nil {
			panic(err)
		}
		idx++
		if err := s.EnsureConfigEntry(idx, tg); err != nil {
			panic(err)
		}
	}
	// exported-services entry
	if r.Intn(8) != 0 {
		e := &structs.ExportedServicesConfigEntry{Name: "default"}
		pool := append([]string{"*"}, names...)
		pool = append(pool, "ghost")
		k := 1 + r.Intn(4)
		for i := 0; i < k; i++ {
			es := structs.ExportedService{Name: pick(r, pool)}
			for _, p := range peers {
				if r.Intn(2) == 0 {
					es.Consumers = append(es.Consumers, structs.ServiceConsumer{Peer: p})
				}
			}
			if len(es.Consumers) == 0 {
				es.Consumers = append(es.Consumers, structs.ServiceConsumer{Peer: pick(r, peers)})
			}
			e.Services = append(e.Services, es)
			ps := []string{}
			for _, cc := range es.Consumers {
				ps = append(ps, cc.Peer)
			}
			c.Entry = append(c.Entry, ExpSvc{Name: es.Name, Peers: ps})
		}
		if err := e.Normalize(); err != nil {
			panic(err)
		}
		idx++
		if err := s.EnsureConfigEntry(idx, e); err != nil {
			panic(err)
		}
	}
	if c.Entry == nil {
		c.Entry = []ExpSvc{}
	}
	c.Peer = pick(r, peers)
	for _, p := range known {
		if p == c.Peer {
			c.PeerKnown = true
		}
	}
	_, typ, err := s.ServiceNamesOfKind(nil, structs.ServiceKindTypical)
	if err != nil {
		panic(err)
	}
	c.Typical = []string{}
	for _, t := range typ {
		c.Typical = append(c.Typical, t.Service.Name)
	}
	_, con, err := s.ServiceNamesOfKind(nil, structs.ServiceKindConnectEnabled)
	if err != nil {
		panic(err)
	}
	c.Connect = []string{}
	for _, t := range con {
		c.Connect = append(c.Connect, t.Service.Name)
	}
	sort.Strings(chains)
	c.Chains = chains
	_, list, err := s.ExportedServicesForPeer(nil, ids[c.Peer], "dc1")
	if err != nil {
		c.Err, c.ErrMsg = 99, err.Error()
	}
	c.GotSvcs, c.GotChains = []string{}, []string{}
	if list != nil {
		for _, sn := range list.Services {
			c.GotSvcs = append(c.GotSvcs, sn.Name)
		}
		for sn := range list.DiscoChains {
			c.GotChains = append(c.GotChains, sn.Name)
		}
	}
	sort.Strings(c.GotSvcs)
	sort.Strings(c.GotChains)
	// direct oracle: every offered name is named (or covered by the wildcard) for this peer
	named := func(n string) bool {
		for _, e := range c.Entry {
			for _, p := range e.Peers {
				if p == c.Peer && (e.Name == n || e.Name == "*") {
					return true
				}
			}
		}
		return false
	}
	for _, n := range append(append([]string{}, c.GotSvcs...), c.GotChains...) {
		if !named(n) {
			c.Oracle = "export-not-named:" + n
			c.Sig = map[string]interface{}{"kind": "export-not-named"}
		}
		if n == "consul" {
			c.Oracle = "export-consul"
			c.Sig = map[string]interface{}{"kind": "export-consul"}
		}
	}
	c.ToCoq = true
	return c
}

// ---------------------------------------------------------------- main

func main() {
	seed := flag.Int64("seed", 1, "PRNG seed")
	tier := flag.String("tier", "quick", "quick | thorough")
	out := flag.String("out", "", "output file (JSON lines)")
	replay := flag.String("replay", "", "replay file written by the check")
	probe := flag.String("probe", "", "run one directed probe and print what the real handler did")
	flag.Parse()
	netutil.GetAgentBindAddrFunc = netutil.GetMockGetAgentBindAddrFunc("0.0.0.0")
	_ = acl.WildcardName

	if *probe != "" {
		doProbe(*probe)
		return
	}
	if *replay != "" {
		doReplay(*replay)
		return
	}
	worlds, steps, vipWorlds, respWorlds, exports := 110, 16, 30, 25, 400
	if *tier == "thorough" {
		worlds, steps, vipWorlds, respWorlds, exports = 1200, 20, 300, 250, 4000
	}
	f, err := os.Create(*out)
	if err != nil {
		panic(err)
	}
	defer f.Close()
	wr := bufio.NewWriterSize(f, 1<<20)
	defer wr.Flush()
	enc := json.NewEncoder(wr)
	id := 0
	for wi := 0; wi < worlds+vipWorlds+respWorlds; wi++ {
		vip := wi >= worlds && wi < worlds+vipWorlds
		resp := wi >= worlds+vipWorlds
		w := newWorld(*seed, wi, vip, resp)
		for s := 0; s < steps; s++ {
			c := w.event(id)
			c.Replay = &ReplayWorld{Seed: *seed, World: wi, Step: c.Step, VIP: vip, Resp: resp}
			id++
			if err := enc.Encode(c); err != nil {
				panic(err)
			}
		}
	}
	r := rand.New(rand.NewSource(*seed*7919 + 17))
	for i := 0; i < exports; i++ {
		c := exportCase(r, id)
		c.Replay = &ReplayWorld{Seed: *seed, Export: i + 1}
		id++
		if err := enc.Encode(c); err != nil {
			panic(err)
		}
	}
}

// doReplay re-runs the world of a replay file up to the failing step and prints that step.
func doReplay(path string) {
	b, err := os.ReadFile(path)
	if err != nil {
		panic(err)
	}
	var obj struct {
		Replay *ReplayWorld `json:"replay"`
	}
	if err := json.Unmarshal(b, &obj); err != nil || obj.Replay == nil {
		fmt.Println("replay file has no world/step reference")
		os.Exit(2)
	}
	rw := obj.Replay
	if rw.Export > 0 {
		r := rand.New(rand.NewSource(rw.Seed*7919 + 17))
		var c *Case
		for i := 0; i < rw.Export; i++ {
			c = exportCase(r, i)
		}
		c.Replay = rw
		js, _ := json.MarshalIndent(c, "", " ")
		fmt.Println(string(js))
		if c.Oracle != "" {
			fmt.Println("ORACLE:", c.Oracle)
			os.Exit(1)
		}
		return
	}
	w := newWorld(rw.Seed, rw.World, rw.VIP, rw.Resp)
	var c *Case
	for s := 0; s <= rw.Step; s++ {
		c = w.event(s)
	}
	c.Replay = rw
	js, _ := json.MarshalIndent(c, "", " ")
	fmt.Println(string(js))
	if c.Oracle != "" {
		fmt.Println("ORACLE:", c.Oracle)
		os.Exit(1)
	}
}
