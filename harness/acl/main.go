// Correspondence harness for property C08 (ACL decisions follow rule semantics and depend only
// on the token's own policies).
//
// A case is a pool of ACL policies and a sequence of tokens (lists of pool entries) that are
// resolved one after the other through ONE shared structs.ACLCaches with
// structs.ACLPolicies.Compile, the way ACLResolver.ResolveToken does.  For every token every
// acl.Authorizer method is evaluated on every name of the universe (on the compiled authorizer
// and on the chains with DenyAll / AllowAll).  Those observations go to the Coq model.
//
// The direct oracle (independent of the Coq model) checks on the same observations:
//   - cache independence: the same token resolved from freshly parsed policies in a fresh cache
//     gives the same decisions; parsed policies held by the shared cache still equal a fresh parse;
//   - the documented rule (exact match, else longest prefix; deny > write > list > read across
//     policies; default otherwise), by a small evaluator over the rule lists;
//   - order independence: the token's policies in reversed / rotated order give the same decisions;
//   - acl.Enforce dispatches to the same methods.
package main

import (
	"bufio"
	"encoding/hex"
	"encoding/json"
	"flag"
	"fmt"
	"math/rand"
	"os"
	"reflect"
	"strings"

	"github.com/hashicorp/consul/acl"
	"github.com/hashicorp/consul/agent/structs"
)

// ------------------------------------------------------------------ data

// policy strings by index (shared with coq/Run/C08.v `rep`)
var reps = []string{"", "deny", "read", "list", "write", "Deny", "READ", "List", "wRiTe", "foo"}

func lower(i int) int { // index of the lowercase spelling
	if i >= 5 && i <= 8 {
		return i - 4
	}
	return i
}

// level of a policy-string index under the documented (case-insensitive) reading: 0 none, 1 deny, 2 read, 3 list, 4 write
func lvl(i int) int {
	i = lower(i)
	if i >= 1 && i <= 4 {
		return i
	}
	return 0
}

const (
	KAgent = iota
	KKey
	KNode
	KService
	KSession
	KEvent
	KQuery
)

var kindWord = []string{"agent", "key", "node", "service", "session", "event", "query"}

type Rule struct {
	Kind   int    `json:"kind"`
	Prefix bool   `json:"prefix"`
	Name   string `json:"name"`
	Pol    int    `json:"pol"`
	Int    int    `json:"int"`
}

type Pol struct {
	ACL      int    `json:"acl"`
	Keyring  int    `json:"keyring"`
	Operator int    `json:"operator"`
	Mesh     int    `json:"mesh"`
	Peering  int    `json:"peering"`
	Rules    []Rule `json:"rules"`
}

type Entry struct {
	ID   int    `json:"id"`
	Idx  int    `json:"idx"`
	Hash int    `json:"hash"`
	Ok   bool   `json:"ok"` // the HCL decoder accepted the text (observed)
	Pol  Pol    `json:"pol"`
	HCL  string `json:"hcl"`
	Raw  bool   `json:"raw,omitempty"` // HCL is hand-written (syntax-error stream): Pol is meaningless
	// the other fields ACL.PolicySet accepts (store stream); Name "" means pol-<ID>
	Name string `json:"name,omitempty"`
	Desc string `json:"desc,omitempty"`
}

type Tok struct {
	Idx    []int  `json:"idx"`
	Err    bool   `json:"err"`
	Expect string `json:"expect"` // one digit per decision: 0 deny 1 allow 2 default
}

type Case struct {
	ID     int      `json:"id"`
	Stream string   `json:"stream"`
	Names  []string `json:"-"`
	NamesX []string `json:"names_hex"` // hex, since names need not be valid UTF-8
	Pool   []Entry  `json:"pool"`
	Toks   []Tok    `json:"toks"`
	Cache  int      `json:"cache"` // size of each LRU (0 = caches disabled)
	Oracle string   `json:"oracle"`
	Kinds  []string `json:"oracle_kinds,omitempty"` // every oracle clause that failed on this case
	Fails  []Fail   `json:"fails,omitempty"`        // one entry per failing clause (first occurrence)
	Sig    *Sig     `json:"sig,omitempty"`
	Shrunk *Case    `json:"shrunk,omitempty"`
	noAmb  bool
}

// one failing oracle clause of a case
type Fail struct {
	Sig    Sig    `json:"sig"`
	Reason string `json:"reason"`
}

// kinds of failure that are recorded open findings (flag -known): they never take the place of
// another failing clause as the verdict of a case
var knownKinds = map[string]bool{}

func rankOf(prio map[string]int, kind string) int {
	if knownKinds[kind] {
		return 1000 + prio[kind]
	}
	return prio[kind]
}

type Sig struct {
	Kind     string `json:"kind"`
	Method   string `json:"method,omitempty"`
	Name     string `json:"name"`
	Token    int    `json:"token"`
	Got      string `json:"got,omitempty"`
	Want     string `json:"want,omitempty"`
	NonCanon bool   `json:"noncanonical_spelling"`
}

var ruleNames = []string{"", "a", "ab", "abc", "b", "*", "aé"}
var queryNames = []string{"", "a", "ab", "abc", "abd", "b", "*", "a\xc3", "aé"}

// ------------------------------------------------------------------ rendering

func quote(s string) string {
	var b strings.Builder
	b.WriteByte('"')
	for _, r := range s {
		switch r {
		case '"':
			b.WriteString(`\"`)
		case '\\':
			b.WriteString(`\\`)
		default:
			b.WriteRune(r)
		}
	}
	b.WriteByte('"')
	return b.String()
}

func render(p Pol) string {
	var b strings.Builder
	sc := func(w string, v int) {
		if v != 0 {
			fmt.Fprintf(&b, "%s = %s\n", w, quote(reps[v]))
		}
	}
	sc("acl", p.ACL)
	sc("keyring", p.Keyring)
	sc("operator", p.Operator)
	sc("mesh", p.Mesh)
	sc("peering", p.Peering)
	for _, r := range p.Rules {
		w := kindWord[r.Kind]
		if r.Prefix {
			w += "_prefix"
		}
		fmt.Fprintf(&b, "%s %s {", w, quote(r.Name))
		if r.Pol != 0 {
			fmt.Fprintf(&b, " policy = %s", quote(reps[r.Pol]))
		}
		if r.Kind == KService && r.Int != 0 {
			fmt.Fprintf(&b, " intentions = %s", quote(reps[r.Int]))
		}
		b.WriteString(" }\n")
	}
	return b.String()
}

// ------------------------------------------------------------------ the implementation under test

type method struct {
	name  string
	named bool
	call  func(a acl.Authorizer, n string) acl.EnforcementDecision
	// the equivalent acl.Enforce call, when there is one
	rsc    acl.Resource
	access string
}

var peerCtx = &acl.AuthorizerContext{Peer: "other"}

// order shared with coq/Run/C08.v (nameless, then named per name)
var nameless = []method{
	{name: "ACLRead", call: func(a acl.Authorizer, _ string) acl.EnforcementDecision { return a.ACLRead(nil) }, rsc: acl.ResourceACL, access: "read"},
	{name: "ACLWrite", call: func(a acl.Authorizer, _ string) acl.EnforcementDecision { return a.ACLWrite(nil) }, rsc: acl.ResourceACL, access: "write"},
	{name: "IntentionDefaultAllow", call: func(a acl.Authorizer, _ string) acl.EnforcementDecision { return a.IntentionDefaultAllow(nil) }},
	{name: "KeyringRead", call: func(a acl.Authorizer, _ string) acl.EnforcementDecision { return a.KeyringRead(nil) }, rsc: acl.ResourceKeyring, access: "read"},
	{name: "KeyringWrite", call: func(a acl.Authorizer, _ string) acl.EnforcementDecision { return a.KeyringWrite(nil) }, rsc: acl.ResourceKeyring, access: "write"},
	{name: "MeshRead", call: func(a acl.Authorizer, _ string) acl.EnforcementDecision { return a.MeshRead(nil) }, rsc: acl.ResourceMesh, access: "read"},
	{name: "MeshWrite", call: func(a acl.Authorizer, _ string) acl.EnforcementDecision { return a.MeshWrite(nil) }, rsc: acl.ResourceMesh, access: "write"},
	{name: "PeeringRead", call: func(a acl.Authorizer, _ string) acl.EnforcementDecision { return a.PeeringRead(nil) }, rsc: acl.ResourcePeering, access: "read"},
	{name: "PeeringWrite", call: func(a acl.Authorizer, _ string) acl.EnforcementDecision { return a.PeeringWrite(nil) }, rsc: acl.ResourcePeering, access: "write"},
	{name: "NodeReadAll", call: func(a acl.Authorizer, _ string) acl.EnforcementDecision { return a.NodeReadAll(nil) }},
	{name: "OperatorRead", call: func(a acl.Authorizer, _ string) acl.EnforcementDecision { return a.OperatorRead(nil) }, rsc: acl.ResourceOperator, access: "read"},
	{name: "OperatorWrite", call: func(a acl.Authorizer, _ string) acl.EnforcementDecision { return a.OperatorWrite(nil) }, rsc: acl.ResourceOperator, access: "write"},
	{name: "ServiceReadAll", call: func(a acl.Authorizer, _ string) acl.EnforcementDecision { return a.ServiceReadAll(nil) }},
	{name: "ServiceWriteAny", call: func(a acl.Authorizer, _ string) acl.EnforcementDecision { return a.ServiceWriteAny(nil) }},
	{name: "Snapshot", call: func(a acl.Authorizer, _ string) acl.EnforcementDecision { return a.Snapshot(nil) }},
}

var named = []method{
	{name: "AgentRead", named: true, call: func(a acl.Authorizer, n string) acl.EnforcementDecision { return a.AgentRead(n, nil) }, rsc: acl.ResourceAgent, access: "read"},
	{name: "AgentWrite", named: true, call: func(a acl.Authorizer, n string) acl.EnforcementDecision { return a.AgentWrite(n, nil) }, rsc: acl.ResourceAgent, access: "write"},
	{name: "EventRead", named: true, call: func(a acl.Authorizer, n string) acl.EnforcementDecision { return a.EventRead(n, nil) }, rsc: acl.ResourceEvent, access: "read"},
	{name: "EventWrite", named: true, call: func(a acl.Authorizer, n string) acl.EnforcementDecision { return a.EventWrite(n, nil) }, rsc: acl.ResourceEvent, access: "write"},
	{name: "IntentionRead", named: true, call: func(a acl.Authorizer, n string) acl.EnforcementDecision { return a.IntentionRead(n, nil) }, rsc: acl.ResourceIntention, access: "read"},
	{name: "IntentionWrite", named: true, call: func(a acl.Authorizer, n string) acl.EnforcementDecision { return a.IntentionWrite(n, nil) }, rsc: acl.ResourceIntention, access: "write"},
	{name: "KeyList", named: true, call: func(a acl.Authorizer, n string) acl.EnforcementDecision { return a.KeyList(n, nil) }, rsc: acl.ResourceKey, access: "list"},
	{name: "KeyRead", named: true, call: func(a acl.Authorizer, n string) acl.EnforcementDecision { return a.KeyRead(n, nil) }, rsc: acl.ResourceKey, access: "read"},
	{name: "KeyWrite", named: true, call: func(a acl.Authorizer, n string) acl.EnforcementDecision { return a.KeyWrite(n, nil) }, rsc: acl.ResourceKey, access: "write"},
	{name: "KeyWritePrefix", named: true, call: func(a acl.Authorizer, n string) acl.EnforcementDecision { return a.KeyWritePrefix(n, nil) }, rsc: acl.ResourceKey, access: "write-prefix"},
	{name: "NodeRead", named: true, call: func(a acl.Authorizer, n string) acl.EnforcementDecision { return a.NodeRead(n, nil) }, rsc: acl.ResourceNode, access: "read"},
	{name: "NodeRead@peer", named: true, call: func(a acl.Authorizer, n string) acl.EnforcementDecision { return a.NodeRead(n, peerCtx) }},
	{name: "NodeWrite", named: true, call: func(a acl.Authorizer, n string) acl.EnforcementDecision { return a.NodeWrite(n, nil) }, rsc: acl.ResourceNode, access: "write"},
	{name: "PreparedQueryRead", named: true, call: func(a acl.Authorizer, n string) acl.EnforcementDecision { return a.PreparedQueryRead(n, nil) }, rsc: acl.ResourceQuery, access: "read"},
	{name: "PreparedQueryWrite", named: true, call: func(a acl.Authorizer, n string) acl.EnforcementDecision { return a.PreparedQueryWrite(n, nil) }, rsc: acl.ResourceQuery, access: "write"},
	{name: "ServiceRead", named: true, call: func(a acl.Authorizer, n string) acl.EnforcementDecision { return a.ServiceRead(n, nil) }, rsc: acl.ResourceService, access: "read"},
	{name: "ServiceRead@peer", named: true, call: func(a acl.Authorizer, n string) acl.EnforcementDecision { return a.ServiceRead(n, peerCtx) }},
	{name: "ServiceReadPrefix", named: true, call: func(a acl.Authorizer, n string) acl.EnforcementDecision { return a.ServiceReadPrefix(n, nil) }},
	{name: "ServiceWrite", named: true, call: func(a acl.Authorizer, n string) acl.EnforcementDecision { return a.ServiceWrite(n, nil) }, rsc: acl.ResourceService, access: "write"},
	{name: "SessionRead", named: true, call: func(a acl.Authorizer, n string) acl.EnforcementDecision { return a.SessionRead(n, nil) }, rsc: acl.ResourceSession, access: "read"},
	{name: "SessionWrite", named: true, call: func(a acl.Authorizer, n string) acl.EnforcementDecision { return a.SessionWrite(n, nil) }, rsc: acl.ResourceSession, access: "write"},
	{name: "TrafficPermissionsRead", named: true, call: func(a acl.Authorizer, n string) acl.EnforcementDecision { return a.TrafficPermissionsRead(n, nil) }},
	{name: "TrafficPermissionsWrite", named: true, call: func(a acl.Authorizer, n string) acl.EnforcementDecision { return a.TrafficPermissionsWrite(n, nil) }},
}

type query struct {
	m    *method
	name string
}

func queries(names []string) []query {
	var qs []query
	for i := range nameless {
		qs = append(qs, query{&nameless[i], ""})
	}
	for _, n := range names {
		for i := range named {
			qs = append(qs, query{&named[i], n})
		}
	}
	return qs
}

const (
	dDeny    = 0
	dAllow   = 1
	dDefault = 2
)

func code(d acl.EnforcementDecision) byte {
	switch d {
	case acl.Deny:
		return '0'
	case acl.Allow:
		return '1'
	case acl.Default:
		return '2'
	}
	return '9'
}

// observe: decisions of the compiled authorizer, of [it; DenyAll], [it; AllowAll] and [it; ManageAll]
func observe(a acl.Authorizer, qs []query) string {
	chains := []acl.Authorizer{a,
		acl.NewChainedAuthorizer([]acl.Authorizer{a, acl.DenyAll()}),
		acl.NewChainedAuthorizer([]acl.Authorizer{a, acl.AllowAll()}),
		acl.NewChainedAuthorizer([]acl.Authorizer{a, acl.ManageAll()})}
	out := make([]byte, 0, 4*len(qs))
	for _, c := range chains {
		for _, q := range qs {
			out = append(out, code(q.m.call(c, q.name)))
		}
	}
	return string(out)
}

func newCaches(size int) *structs.ACLCaches {
	if size == 0 {
		c, _ := structs.NewACLCaches(nil)
		return c
	}
	c, err := structs.NewACLCaches(&structs.ACLCachesConfig{Identities: size, Policies: size, ParsedPolicies: size, Authorizers: size, Roles: size})
	if err != nil {
		panic(err)
	}
	return c
}

func aclPolicy(e *Entry) *structs.ACLPolicy {
	p := &structs.ACLPolicy{
		ID:    fmt.Sprintf("%08x-0000-0000-0000-000000000000", e.ID),
		Name:        fmt.Sprintf("pol-%d", e.ID),
		Description: e.Desc,
		Rules:       e.HCL,
	}
	if e.Name != "" {
		p.Name = e.Name
	}
	p.ModifyIndex = uint64(e.Idx)
	p.SetHash(true)
	return p
}

func tokenPolicies(c *Case, t *Tok) structs.ACLPolicies {
	var ps structs.ACLPolicies
	for _, i := range t.Idx {
		ps = append(ps, aclPolicy(&c.Pool[i]))
	}
	return ps
}

// the token's policies as the store hands them out: ONE object per policy version, shared by
// every token that links it
func sharedPolicies(c *Case, t *Tok, objs map[int]*structs.ACLPolicy) structs.ACLPolicies {
	var ps structs.ACLPolicies
	for _, i := range t.Idx {
		if objs[i] == nil {
			objs[i] = aclPolicy(&c.Pool[i])
		}
		ps = append(ps, objs[i])
	}
	return ps
}

// ------------------------------------------------------------------ the documented rule, evaluated directly

// stronger: deny > write > list > read (levels 1 deny 2 read 3 list 4 write)
func rank(l int) int {
	switch l {
	case 1:
		return 4
	case 4:
		return 3
	case 3:
		return 2
	case 2:
		return 1
	}
	return 0
}

func stronger(a, b int) int {
	if rank(a) >= rank(b) {
		return a
	}
	return b
}

type ref struct {
	rules                                    []Rule
	aclL, keyringL, operatorL, meshL, peerL int
}

func newRef(ps []Pol) *ref {
	r := &ref{}
	for _, p := range ps {
		r.rules = append(r.rules, p.Rules...)
		r.aclL = stronger(r.aclL, lvl(p.ACL))
		r.keyringL = stronger(r.keyringL, lvl(p.Keyring))
		r.operatorL = stronger(r.operatorL, lvl(p.Operator))
		r.meshL = stronger(r.meshL, lvl(p.Mesh))
		r.peerL = stronger(r.peerL, lvl(p.Peering))
	}
	return r
}

const intentionKind = 100

// effective level of the rule for (kind, prefix, name); 0 when there is none
func (r *ref) eff(kind int, prefix bool, name string) int {
	if kind == intentionKind {
		svc, explicit := 0, 0
		for _, x := range r.rules {
			if x.Kind == KService && x.Prefix == prefix && x.Name == name {
				svc = stronger(svc, lvl(x.Pol))
				explicit = stronger(explicit, lvl(x.Int))
			}
		}
		if svc == 0 {
			return 0
		}
		if explicit != 0 {
			return explicit
		}
		if svc == 2 || svc == 4 {
			return 2
		}
		return 1
	}
	l := 0
	for _, x := range r.rules {
		if x.Kind == kind && x.Prefix == prefix && x.Name == name {
			l = stronger(l, lvl(x.Pol))
		}
	}
	return l
}

func (r *ref) ruleNames(kind int) []string {
	k := kind
	if kind == intentionKind {
		k = KService
	}
	seen := map[string]bool{}
	var out []string
	for _, x := range r.rules {
		if x.Kind == k && !seen[x.Name] {
			seen[x.Name] = true
			out = append(out, x.Name)
		}
	}
	return out
}

func (r *ref) longestPrefix(kind int, name string) int {
	for i := len(name); i >= 0; i-- {
		if l := r.eff(kind, true, name[:i]); l != 0 {
			return l
		}
	}
	return 0
}

func (r *ref) applicable(kind int, name string) int {
	if l := r.eff(kind, false, name); l != 0 {
		return l
	}
	return r.longestPrefix(kind, name)
}

func grants(l, need int) bool {
	switch l {
	case 4:
		return true
	case 3:
		return need == 3 || need == 2
	case 2:
		return need == 2
	}
	return false
}

func decide(l, need int) int {
	if l == 0 {
		return dDefault
	}
	if grants(l, need) {
		return dAllow
	}
	return dDeny
}

func (r *ref) any(kind, need int) int {
	for _, n := range r.ruleNames(kind) {
		for _, pf := range []bool{false, true} {
			if l := r.eff(kind, pf, n); l != 0 && grants(l, need) {
				return dAllow
			}
		}
	}
	if r.eff(kind, true, "") != 0 {
		return dDeny
	}
	return dDefault
}

func (r *ref) all(kind, need int) int {
	for _, n := range r.ruleNames(kind) {
		for _, pf := range []bool{false, true} {
			if l := r.eff(kind, pf, n); l != 0 && !grants(l, need) {
				return dDeny
			}
		}
	}
	if r.eff(kind, true, "") != 0 {
		return dAllow
	}
	return dDefault
}

// every rule at or below prefix satisfies ok?
func (r *ref) below(kind int, prefix string, ok func(l int) bool) bool {
	for _, n := range r.ruleNames(kind) {
		if !strings.HasPrefix(n, prefix) {
			continue
		}
		for _, pf := range []bool{false, true} {
			if l := r.eff(kind, pf, n); l != 0 && !ok(l) {
				return false
			}
		}
	}
	return true
}

func (r *ref) policy(m string, n string) int {
	peerRead := func(kind int) int {
		if r.any(KService, 4) == dAllow {
			return dAllow
		}
		return r.all(kind, 2)
	}
	fallback := func(l, need int) int {
		if l != 0 {
			return decide(l, need)
		}
		return decide(r.operatorL, need)
	}
	switch m {
	case "ACLRead":
		return decide(r.aclL, 2)
	case "ACLWrite", "Snapshot":
		return decide(r.aclL, 4)
	case "IntentionDefaultAllow", "TrafficPermissionsRead", "TrafficPermissionsWrite":
		return dDefault
	case "KeyringRead":
		return decide(r.keyringL, 2)
	case "KeyringWrite":
		return decide(r.keyringL, 4)
	case "OperatorRead":
		return decide(r.operatorL, 2)
	case "OperatorWrite":
		return decide(r.operatorL, 4)
	case "MeshRead":
		return fallback(r.meshL, 2)
	case "MeshWrite":
		return fallback(r.meshL, 4)
	case "PeeringRead":
		return fallback(r.peerL, 2)
	case "PeeringWrite":
		return fallback(r.peerL, 4)
	case "NodeReadAll":
		return r.all(KNode, 2)
	case "ServiceReadAll":
		return r.all(KService, 2)
	case "ServiceWriteAny":
		return r.any(KService, 4)
	case "AgentRead":
		return decide(r.applicable(KAgent, n), 2)
	case "AgentWrite":
		return decide(r.applicable(KAgent, n), 4)
	case "EventRead":
		return decide(r.applicable(KEvent, n), 2)
	case "EventWrite":
		return decide(r.applicable(KEvent, n), 4)
	case "IntentionRead":
		if n == "*" {
			return r.any(intentionKind, 2)
		}
		return decide(r.applicable(intentionKind, n), 2)
	case "IntentionWrite":
		if n == "*" {
			return r.all(intentionKind, 4)
		}
		return decide(r.applicable(intentionKind, n), 4)
	case "KeyList":
		return decide(r.applicable(KKey, n), 3)
	case "KeyRead":
		return decide(r.applicable(KKey, n), 2)
	case "KeyWrite":
		return decide(r.applicable(KKey, n), 4)
	case "KeyWritePrefix":
		base := r.longestPrefix(KKey, n)
		if base != 0 && base != 4 {
			return dDeny
		}
		if !r.below(KKey, n, func(l int) bool { return l == 4 }) {
			return dDeny
		}
		if base == 4 {
			return dAllow
		}
		return dDefault
	case "NodeRead":
		return decide(r.applicable(KNode, n), 2)
	case "NodeRead@peer":
		return peerRead(KNode)
	case "NodeWrite":
		return decide(r.applicable(KNode, n), 4)
	case "PreparedQueryRead":
		return decide(r.applicable(KQuery, n), 2)
	case "PreparedQueryWrite":
		return decide(r.applicable(KQuery, n), 4)
	case "ServiceRead":
		return decide(r.applicable(KService, n), 2)
	case "ServiceRead@peer":
		return peerRead(KService)
	case "ServiceReadPrefix":
		if !r.below(KService, n, func(l int) bool { return l == 2 || l == 4 }) {
			return dDeny
		}
		base := r.longestPrefix(KService, n)
		if base == 0 {
			return dDefault
		}
		if base == 2 || base == 4 {
			return dAllow
		}
		return dDeny
	case "ServiceWrite":
		return decide(r.applicable(KService, n), 4)
	case "SessionRead":
		return decide(r.applicable(KSession, n), 2)
	case "SessionWrite":
		return decide(r.applicable(KSession, n), 4)
	}
	panic("unknown method " + m)
}

// the static authorizers: chain 1 DenyAll, 2 AllowAll, 3 ManageAll
func static(m string, chain int) int {
	switch m {
	case "ACLRead", "ACLWrite", "Snapshot":
		if chain == 3 {
			return dAllow
		}
		return dDeny
	}
	if chain >= 2 {
		return dAllow
	}
	return dDeny
}

func (r *ref) observe(qs []query) string {
	out := make([]byte, 0, 4*len(qs))
	for chain := 0; chain < 4; chain++ {
		for _, q := range qs {
			d := r.policy(q.m.name, q.name)
			if chain > 0 && d == dDefault {
				d = static(q.m.name, chain)
			}
			out = append(out, byte('0'+d))
		}
	}
	return string(out)
}

// ------------------------------------------------------------------ running a case, oracle

func hasNonCanon(c *Case, t *Tok) bool {
	for _, i := range t.Idx {
		p := c.Pool[i].Pol
		for _, v := range []int{p.ACL, p.Keyring, p.Operator, p.Mesh, p.Peering} {
			if v >= 5 && v <= 8 {
				return true
			}
		}
		for _, r := range p.Rules {
			if (r.Pol >= 5 && r.Pol <= 8) || (r.Int >= 5 && r.Int <= 8) {
				return true
			}
		}
	}
	return false
}

func allValid(c *Case, t *Tok) bool {
	for _, i := range t.Idx {
		if c.Pool[i].Raw || !c.Pool[i].Ok {
			return false
		}
		p := c.Pool[i].Pol
		for _, v := range []int{p.ACL, p.Keyring, p.Operator, p.Mesh, p.Peering} {
			if v != 0 && (lvl(v) == 0 || lvl(v) == 3) {
				return false
			}
		}
		for _, r := range p.Rules {
			if lvl(r.Pol) == 0 || (lvl(r.Pol) == 3 && r.Kind != KKey) {
				return false
			}
			if r.Kind == KService && r.Int != 0 && (lvl(r.Int) == 0 || lvl(r.Int) == 3) {
				return false
			}
		}
	}
	return true
}

func dname(d string) string {
	switch d {
	case "0":
		return "Deny"
	case "1":
		return "Allow"
	case "2":
		return "Default"
	}
	return d
}

const ambKind = "content-hash-concatenation-ambiguity"

// Two pool entries with the same real content hash but different rules: the parsed-policy cache
// cannot tell them apart.  Every clause that fails on the case but no longer fails once the
// entries are told apart (the descriptions get a distinguishing suffix, which changes nothing but
// the hash) is a consequence of exactly that and is relabelled.
func relabelHashAmbiguity(c *Case, prio map[string]int) {
	if c.noAmb || len(c.Fails) == 0 {
		return
	}
	amb := false
	for i := range c.Pool {
		for j := range c.Pool {
			if c.Pool[j].Hash == c.Pool[i].Hash && c.Pool[j].HCL != c.Pool[i].HCL {
				amb = true
			}
		}
	}
	if !amb {
		return
	}
	d := cloneCase(c)
	d.noAmb = true
	for j := range d.Pool {
		d.Pool[j].Desc += fmt.Sprintf("|#%d", j)
	}
	rerender(d)
	run(d)
	still := map[string]bool{}
	for _, f := range d.Fails {
		still[f.Sig.Kind] = true
	}
	var fails []Fail
	seen := map[string]bool{}
	for _, f := range c.Fails {
		if !still[f.Sig.Kind] {
			f.Reason = ambKind + " (" + f.Sig.Kind + "): " + f.Reason
			f.Sig.Kind = ambKind
		}
		if !seen[f.Sig.Kind] {
			seen[f.Sig.Kind] = true
			fails = append(fails, f)
		}
	}
	c.Fails, c.Kinds, c.Sig, c.Oracle = fails, nil, nil, ""
	for i := range c.Fails {
		f := &c.Fails[i]
		c.Kinds = append(c.Kinds, f.Sig.Kind)
		if c.Sig == nil || rankOf(prio, f.Sig.Kind) < rankOf(prio, c.Sig.Kind) {
			sig := f.Sig
			c.Sig, c.Oracle = &sig, f.Reason
		}
	}
}

func firstDiff(a, b string) int {
	for i := 0; i < len(a) && i < len(b); i++ {
		if a[i] != b[i] {
			return i
		}
	}
	if len(a) != len(b) {
		return min(len(a), len(b))
	}
	return -1
}

func describe(qs []query, i int) (string, string) {
	q := qs[i%len(qs)]
	chain := []string{"", "+DenyAll", "+AllowAll", "+ManageAll"}[i/len(qs)]
	return q.m.name + chain, q.name
}

// run resolves the tokens of c through one shared cache, fills Expect/Err/Ok and evaluates the
// direct oracle.  worldOK=false (stream "world") skips the cache-independence clause, whose
// hypothesis (ID+ModifyIndex determine the rules) the stream violates on purpose.
func run(c *Case) {
	if len(c.Names) == 0 && len(c.NamesX) > 0 {
		for _, h := range c.NamesX {
			b, _ := hex.DecodeString(h)
			c.Names = append(c.Names, string(b))
		}
	}
	c.NamesX = nil
	for _, n := range c.Names {
		c.NamesX = append(c.NamesX, hex.EncodeToString([]byte(n)))
	}
	qs := queries(c.Names)
	cache := newCaches(c.Cache)
	c.Oracle, c.Sig = "", nil
	// every clause that fails is recorded once (first occurrence); the case's verdict is the
	// most property-level one (a wrong decision before a wrong internal state)
	prio := map[string]int{"cache-dependence": 1, ambKind: 1, "cache-dependence-error": 2, "semantics": 3, "noncanonical-case-precedence": 4,
		"order-dependence": 5, "order-dependence-error": 6, "enforce-dispatch": 7, "cached-policy-mutated": 8, "compile-error-on-valid-policies": 9}
	c.Kinds, c.Fails = nil, nil
	fail := func(kind string, ti int, i int, got, want string, nc bool) {
		for _, k := range c.Kinds {
			if k == kind {
				return
			}
		}
		c.Kinds = append(c.Kinds, kind)
		s := &Sig{Kind: kind, Token: ti, NonCanon: nc}
		var msg string
		if i >= 0 {
			s.Method, s.Name = describe(qs, i)
			s.Got, s.Want = string(got[i]), string(want[i])
			msg = fmt.Sprintf("%s: token %d (policies %v) %s(%q) = %s, expected %s", kind, ti, c.Toks[ti].Idx, s.Method, s.Name, dname(s.Got), dname(s.Want))
		} else {
			msg = fmt.Sprintf("%s: after resolving token %d (policies %v)", kind, ti, c.Toks[ti].Idx)
		}
		c.Fails = append(c.Fails, Fail{*s, msg})
		if c.Sig != nil && rankOf(prio, c.Sig.Kind) <= rankOf(prio, kind) {
			return
		}
		c.Oracle, c.Sig = msg, s
	}
	for i := range c.Pool {
		e := &c.Pool[i]
		pp, err := acl.NewPolicyFromSource(e.HCL, &acl.Config{WarnOnDuplicateKey: true}, nil)
		if e.Raw {
			e.Ok = err == nil
			if err == nil {
				e.Pol = fromParsed(pp) // what the lenient decoder made of the text
			}
		} else {
			// the decoder accepts the text iff the failure (if any) is a validation failure
			e.Ok = err == nil || strings.HasPrefix(err.Error(), "Invalid ")
		}
	}
	parsedSeen := map[string]string{} // content hash -> hcl
	objs := map[int]*structs.ACLPolicy{}
	for ti := range c.Toks {
		t := &c.Toks[ti]
		ps := sharedPolicies(c, t, objs)
		authz, err := ps.Compile(cache, &acl.Config{})
		t.Err = err != nil
		t.Expect = ""
		if err != nil {
			if allValid(c, t) {
				fail("compile-error-on-valid-policies", ti, -1, "", "", hasNonCanon(c, t))
			}
			continue
		}
		t.Expect = observe(authz, qs)
		nc := hasNonCanon(c, t)

		// acl.Enforce dispatch agrees with the methods
		for qi, q := range qs {
			if q.m.rsc == "" {
				continue
			}
			d, err := acl.Enforce(authz, q.m.rsc, q.name, q.m.access, nil)
			if err != nil || code(d) != t.Expect[qi] {
				got := []byte(t.Expect)
				got[qi] = code(d)
				fail("enforce-dispatch", ti, qi, string(got), t.Expect, nc)
			}
		}

		// (a) cache independence: fresh policies, fresh cache
		if c.Stream != "world" {
			fresh, err := tokenPolicies(c, t).Compile(newCaches(64), &acl.Config{})
			if err != nil {
				fail("cache-dependence-error", ti, -1, "", "", nc)
			} else {
				want := observe(fresh, qs)
				if d := firstDiff(t.Expect, want); d >= 0 {
					fail("cache-dependence", ti, d, t.Expect, want, nc)
				}
			}
			// parsed policies held by the shared cache still equal a fresh parse
			for _, p := range ps {
				key := fmt.Sprintf("%x", p.Hash)
				parsedSeen[key] = p.Rules
			}
			for key, rules := range parsedSeen {
				if ent := cache.GetParsedPolicy(key); ent != nil {
					f, err := acl.NewPolicyFromSource(rules, &acl.Config{WarnOnDuplicateKey: true}, nil)
					if err != nil || !reflect.DeepEqual(f, ent.Policy) {
						fail("cached-policy-mutated", ti, -1, "", "", nc)
					}
				}
			}
		}

		// (b) the documented rule
		if allValid(c, t) {
			var pols []Pol
			for _, i := range t.Idx {
				pols = append(pols, c.Pool[i].Pol)
			}
			want := newRef(pols).observe(qs)
			if d := firstDiff(t.Expect, want); d >= 0 && c.Stream != "world" {
				kind := "semantics"
				if nc && lowercasedAgrees(c, t, qs, want) {
					kind = "noncanonical-case-precedence"
				}
				fail(kind, ti, d, t.Expect, want, nc)
			}
		}

		// (c) order independence (fresh caches)
		if c.Stream != "world" && len(t.Idx) > 1 {
			for _, perm := range [][]int{reversed(t.Idx), rotated(t.Idx)} {
				t2 := Tok{Idx: perm}
				a2, err := tokenPolicies(c, &t2).Compile(newCaches(64), &acl.Config{})
				if err != nil {
					fail("order-dependence-error", ti, -1, "", "", nc)
					continue
				}
				got := observe(a2, qs)
				if d := firstDiff(got, t.Expect); d >= 0 {
					kind := "order-dependence"
					if nc {
						var pols []Pol
						for _, i := range t.Idx {
							pols = append(pols, c.Pool[i].Pol)
						}
						if lowercasedAgrees(c, t, qs, newRef(pols).observe(qs)) {
							kind = "noncanonical-case-precedence"
						}
					}
					fail(kind, ti, d, got, t.Expect, nc)
				}
			}
		}
	}
	relabelHashAmbiguity(c, prio)
}

// with every access string lowercased, does the implementation follow the documented rule?
func lowercasedAgrees(c *Case, t *Tok, qs []query, want string) bool {
	var ps structs.ACLPolicies
	for k, i := range t.Idx {
		p := c.Pool[i].Pol
		q := Pol{ACL: lower(p.ACL), Keyring: lower(p.Keyring), Operator: lower(p.Operator), Mesh: lower(p.Mesh), Peering: lower(p.Peering)}
		for _, r := range p.Rules {
			q.Rules = append(q.Rules, Rule{r.Kind, r.Prefix, r.Name, lower(r.Pol), lower(r.Int)})
		}
		e := Entry{ID: 1000 + k, Idx: 1, HCL: render(q)}
		ps = append(ps, aclPolicy(&e))
	}
	a, err := ps.Compile(newCaches(64), &acl.Config{})
	return err == nil && observe(a, qs) == want
}

func repIndex(s string) int {
	for i, r := range reps {
		if r == s {
			return i
		}
	}
	return 9
}

// the decoded policy as the model's input (used only for hand-written HCL the decoder accepted)
func fromParsed(p *acl.Policy) Pol {
	q := Pol{ACL: repIndex(p.ACL), Keyring: repIndex(p.Keyring), Operator: repIndex(p.Operator), Mesh: repIndex(p.Mesh), Peering: repIndex(p.Peering)}
	if p.ACL == "" {
		q.ACL = 0
	}
	add := func(kind int, prefix bool, name, pol, ints string) {
		q.Rules = append(q.Rules, Rule{kind, prefix, name, repIndex(pol), repIndex(ints)})
	}
	for _, r := range p.Agents {
		add(KAgent, false, r.Node, r.Policy, "")
	}
	for _, r := range p.AgentPrefixes {
		add(KAgent, true, r.Node, r.Policy, "")
	}
	for _, r := range p.Keys {
		add(KKey, false, r.Prefix, r.Policy, "")
	}
	for _, r := range p.KeyPrefixes {
		add(KKey, true, r.Prefix, r.Policy, "")
	}
	for _, r := range p.Nodes {
		add(KNode, false, r.Name, r.Policy, "")
	}
	for _, r := range p.NodePrefixes {
		add(KNode, true, r.Name, r.Policy, "")
	}
	for _, r := range p.Services {
		add(KService, false, r.Name, r.Policy, r.Intentions)
	}
	for _, r := range p.ServicePrefixes {
		add(KService, true, r.Name, r.Policy, r.Intentions)
	}
	for _, r := range p.Sessions {
		add(KSession, false, r.Node, r.Policy, "")
	}
	for _, r := range p.SessionPrefixes {
		add(KSession, true, r.Node, r.Policy, "")
	}
	for _, r := range p.Events {
		add(KEvent, false, r.Event, r.Policy, "")
	}
	for _, r := range p.EventPrefixes {
		add(KEvent, true, r.Event, r.Policy, "")
	}
	for _, r := range p.PreparedQueries {
		add(KQuery, false, r.Prefix, r.Policy, "")
	}
	for _, r := range p.PreparedQueryPrefixes {
		add(KQuery, true, r.Prefix, r.Policy, "")
	}
	return q
}

func reversed(x []int) []int {
	y := make([]int, len(x))
	for i, v := range x {
		y[len(x)-1-i] = v
	}
	return y
}

func rotated(x []int) []int {
	return append(append([]int{}, x[1:]...), x[0])
}

// ------------------------------------------------------------------ shrinking

func cloneCase(c *Case) *Case {
	b, _ := json.Marshal(c)
	var d Case
	json.Unmarshal(b, &d)
	d.Shrunk = nil
	d.Names = c.Names
	return &d
}

func rerender(c *Case) {
	// content hashes: the model's number stands for the REAL ACLPolicy.Hash (SetHash over name,
	// description, rules, datacenters), so two entries share a number iff the implementation's
	// parsed-policy cache cannot tell them apart
	seen := map[string]int{}
	for i := range c.Pool {
		e := &c.Pool[i]
		if !e.Raw {
			e.HCL = render(e.Pol)
		}
		k := fmt.Sprintf("%x", aclPolicy(e).Hash)
		if _, ok := seen[k]; !ok {
			seen[k] = len(seen) + 1
		}
		e.Hash = seen[k]
	}
}

// greedy reduction keeping the same oracle failure kind
func shrink(c *Case) *Case {
	kind := c.Sig.Kind
	cur := cloneCase(c)
	still := func(d *Case) bool {
		rerender(d)
		run(d)
		return d.Sig != nil && d.Sig.Kind == kind
	}
	// drop tokens after the failing one
	cur.Toks = cur.Toks[:c.Sig.Token+1]
	if !still(cur) {
		return cloneCase(c)
	}
	for changed := true; changed; {
		changed = false
		// drop earlier tokens
		for i := 0; i < len(cur.Toks)-1; i++ {
			d := cloneCase(cur)
			d.Toks = append(d.Toks[:i:i], d.Toks[i+1:]...)
			if still(d) {
				cur, changed = d, true
				i--
			}
		}
		// drop policies from tokens
		for ti := range cur.Toks {
			for k := 0; k < len(cur.Toks[ti].Idx); k++ {
				d := cloneCase(cur)
				x := d.Toks[ti].Idx
				d.Toks[ti].Idx = append(x[:k:k], x[k+1:]...)
				if still(d) {
					cur, changed = d, true
					k--
				}
			}
		}
		// drop rules and scalars from policies
		for pi := range cur.Pool {
			for k := 0; k < len(cur.Pool[pi].Pol.Rules); k++ {
				d := cloneCase(cur)
				x := d.Pool[pi].Pol.Rules
				d.Pool[pi].Pol.Rules = append(x[:k:k], x[k+1:]...)
				if still(d) {
					cur, changed = d, true
					k--
				}
			}
			for s := 0; s < 5; s++ {
				d := cloneCase(cur)
				p := &d.Pool[pi].Pol
				f := []*int{&p.ACL, &p.Keyring, &p.Operator, &p.Mesh, &p.Peering}[s]
				if *f == 0 {
					continue
				}
				*f = 0
				if still(d) {
					cur, changed = d, true
				}
			}
		}
	}
	// drop pool entries no token uses
	d := cloneCase(cur)
	used := map[int]int{}
	var pool []Entry
	for ti := range d.Toks {
		for k, i := range d.Toks[ti].Idx {
			if _, ok := used[i]; !ok {
				used[i] = len(pool)
				pool = append(pool, d.Pool[i])
			}
			d.Toks[ti].Idx[k] = used[i]
		}
	}
	d.Pool = pool
	if still(d) {
		return d
	}
	still(cur)
	return cur
}

// ------------------------------------------------------------------ generators

type gen struct {
	r *rand.Rand
}

func (g *gen) pick(xs []int) int { return xs[g.r.Intn(len(xs))] }

// a policy string index: canonical, or (mixed) sometimes a non-canonical spelling
func (g *gen) level(allowList bool, mixed bool) int {
	ls := []int{1, 2, 4, 4, 2, 1}
	if allowList {
		ls = append(ls, 3, 3)
	}
	l := g.pick(ls)
	if mixed && g.r.Intn(3) == 0 {
		l += 4
	}
	return l
}

func (g *gen) name() string {
	// favour the chain "", a, ab, abc
	w := []int{0, 0, 1, 1, 1, 2, 2, 2, 3, 3, 4, 4, 5, 6}
	return ruleNames[g.pick(w)]
}

func (g *gen) rule(mixed bool, kinds []int) Rule {
	k := g.pick(kinds)
	r := Rule{Kind: k, Prefix: g.r.Intn(2) == 0, Name: g.name(), Pol: g.level(k == KKey, mixed)}
	if k == KService && g.r.Intn(3) == 0 {
		r.Int = g.level(false, mixed)
	}
	return r
}

var allKinds = []int{KAgent, KKey, KKey, KKey, KNode, KNode, KService, KService, KService, KSession, KEvent, KQuery}

func (g *gen) policy(mixed bool, kinds []int) Pol {
	p := Pol{}
	n := g.r.Intn(6)
	for i := 0; i < n; i++ {
		p.Rules = append(p.Rules, g.rule(mixed, kinds))
	}
	sc := func() int {
		if g.r.Intn(4) != 0 {
			return 0
		}
		return g.level(false, mixed)
	}
	p.ACL, p.Keyring, p.Operator, p.Mesh, p.Peering = sc(), sc(), sc(), sc(), sc()
	return p
}

// a case of the main shape: a pool of policies, tokens sharing them, occasional policy updates
func (g *gen) tokenCase(id int, stream string, mixed bool, cache int) *Case {
	c := &Case{ID: id, Stream: stream, Names: queryNames, Cache: cache}
	kinds := allKinds
	if g.r.Intn(3) == 0 {
		// concentrate on one or two kinds so that names collide across policies
		kinds = [][]int{{KKey}, {KService}, {KNode, KService}, {KKey, KService}, {KAgent, KSession, KEvent, KQuery}}[g.r.Intn(5)]
	}
	np := 2 + g.r.Intn(4)
	cur := make([]int, np) // current pool index of each policy id
	for i := 0; i < np; i++ {
		c.Pool = append(c.Pool, Entry{ID: i + 1, Idx: 1 + g.r.Intn(3), Pol: g.policy(mixed, kinds)})
		cur[i] = i
	}
	nt := 2 + g.r.Intn(4)
	for t := 0; t < nt; t++ {
		if t > 0 && g.r.Intn(5) == 0 {
			// a policy is updated (same ID, ModifyIndex+1), or set back to an earlier text
			i := g.r.Intn(np)
			old := c.Pool[cur[i]]
			e := Entry{ID: old.ID, Idx: old.Idx + 1, Pol: g.policy(mixed, kinds)}
			if g.r.Intn(3) == 0 {
				e.Pol = c.Pool[i].Pol // back to the first version's rules: same content hash
			}
			c.Pool = append(c.Pool, e)
			cur[i] = len(c.Pool) - 1
		}
		k := 1 + g.r.Intn(4)
		if g.r.Intn(12) == 0 {
			k = 0
		}
		if k > np {
			k = np
		}
		perm := g.r.Perm(np)[:k]
		if g.r.Intn(2) == 0 {
			// as the resolver does: sorted by policy ID
			for a := 0; a < len(perm); a++ {
				for b := a + 1; b < len(perm); b++ {
					if perm[b] < perm[a] {
						perm[a], perm[b] = perm[b], perm[a]
					}
				}
			}
		}
		tok := Tok{Idx: []int{}}
		for _, i := range perm {
			tok.Idx = append(tok.Idx, cur[i])
		}
		if t > 0 && g.r.Intn(4) == 0 {
			// a sub-token of an earlier one: the shape of the MergePolicies aliasing defect
			prev := c.Toks[g.r.Intn(t)].Idx
			if len(prev) > 0 {
				tok.Idx = append([]int{}, prev[:1+g.r.Intn(len(prev))]...)
			}
		}
		c.Toks = append(c.Toks, tok)
	}
	return c
}

func (g *gen) malformedCase(id int) *Case {
	c := g.tokenCase(id, "malformed", false, 64)
	// damage one policy
	i := g.r.Intn(len(c.Pool))
	e := &c.Pool[i]
	switch g.r.Intn(6) {
	case 0: // unknown level
		e.Pol.Rules = append(e.Pol.Rules, Rule{Kind: g.pick(allKinds), Name: g.name(), Pol: 9})
	case 1: // missing policy attribute
		e.Pol.Rules = append(e.Pol.Rules, Rule{Kind: g.pick(allKinds), Name: g.name(), Pol: 0})
	case 2: // list where it is not allowed
		e.Pol.Rules = append(e.Pol.Rules, Rule{Kind: g.pick([]int{KAgent, KNode, KService, KSession, KEvent, KQuery}), Prefix: true, Name: g.name(), Pol: 3})
	case 3: // bad scalar
		e.Pol.Operator = g.pick([]int{3, 9, 7})
	case 4: // bad intentions
		e.Pol.Rules = append(e.Pol.Rules, Rule{Kind: KService, Name: g.name(), Pol: 4, Int: g.pick([]int{3, 9})})
	case 5: // syntax error / duplicate attribute (lenient decoder accepts the latter)
		e.Raw = true
		e.Pol = Pol{}
		e.HCL = []string{`key "a" { policy = "read" `, `key "a" policy = "read"`, `key = "read"`, `acl = "read" acl = `}[g.r.Intn(4)]
	}
	return c
}

// same ID and ModifyIndex, different rules: only the authorizer cache key can tell (it cannot)
func (g *gen) worldCase(id int) *Case {
	c := g.tokenCase(id, "world", false, 64)
	i := g.r.Intn(len(c.Pool))
	e := c.Pool[i]
	e.Pol = g.policy(false, allKinds)
	c.Pool = append(c.Pool, e)
	j := len(c.Pool) - 1
	// resolve a token with the original, then the same token with the impostor
	t1 := Tok{Idx: []int{i}}
	t2 := Tok{Idx: []int{j}}
	c.Toks = append(c.Toks, t1, t2)
	return c
}

// policies as the store holds them: name, description, rules.  Includes identical rules under
// different IDs, identical (name, description, rules) under different IDs, and pairs
// A = (n, d, R1+R2), B = (n+d, R1, R2) whose name+description+rules concatenations coincide.
func (g *gen) storeCase(id int) *Case {
	c := &Case{ID: id, Stream: "store", Names: queryNames, Cache: 64}
	rulesOnly := func() Pol {
		p := Pol{}
		for i := 1 + g.r.Intn(2); i > 0; i-- {
			p.Rules = append(p.Rules, g.rule(false, []int{KKey, KNode, KService}))
		}
		return p
	}
	r1, r2 := rulesOnly(), rulesOnly()
	both := Pol{Rules: append(append([]Rule{}, r1.Rules...), r2.Rules...)}
	n, d := g.pick2([]string{"p", "pol", "a-1"}), g.pick2([]string{"q", "x9", "b"})
	switch g.r.Intn(3) {
	case 0: // concatenations coincide
		c.Pool = append(c.Pool, Entry{ID: 1, Idx: 1, Name: n, Desc: d, Pol: both}, Entry{ID: 2, Idx: 1, Name: n + d, Desc: render(r1), Pol: r2})
	case 1: // same rules, different IDs and names
		c.Pool = append(c.Pool, Entry{ID: 1, Idx: 1, Name: n, Desc: d, Pol: both}, Entry{ID: 2, Idx: 1, Name: n + "2", Desc: d, Pol: both})
	case 2: // everything but the ID equal: the parsed policy is legitimately shared
		c.Pool = append(c.Pool, Entry{ID: 1, Idx: 1, Name: n, Desc: d, Pol: both}, Entry{ID: 2, Idx: 1, Name: n, Desc: d, Pol: both})
	}
	c.Pool = append(c.Pool, Entry{ID: 3, Idx: 1, Name: "other", Desc: "", Pol: g.policy(false, allKinds)})
	for _, idx := range [][]int{{0}, {1}, {1, 2}, {0, 2}, {1, 0}} {
		if g.r.Intn(4) != 0 {
			c.Toks = append(c.Toks, Tok{Idx: idx})
		}
	}
	if g.r.Intn(2) == 0 {
		for i, j := 0, len(c.Toks)-1; i < j; i, j = i+1, j-1 {
			c.Toks[i], c.Toks[j] = c.Toks[j], c.Toks[i]
		}
	}
	if len(c.Toks) == 0 {
		c.Toks = []Tok{{Idx: []int{0}}, {Idx: []int{1}}}
	}
	return c
}

func (g *gen) pick2(xs []string) string { return xs[g.r.Intn(len(xs))] }

// exhaustive small scope: every ordered pair of single-rule policies over one kind
func exhaustive(id *int, kind int) []*Case {
	var rules []Rule
	levels := []int{1, 2, 4}
	if kind == KKey {
		levels = []int{1, 2, 3, 4}
	}
	for _, n := range []string{"", "a", "ab"} {
		for _, pf := range []bool{false, true} {
			for _, l := range levels {
				rules = append(rules, Rule{Kind: kind, Prefix: pf, Name: n, Pol: l})
				if kind == KService && l != 1 {
					rules = append(rules, Rule{Kind: kind, Prefix: pf, Name: n, Pol: l, Int: 1}, Rule{Kind: kind, Prefix: pf, Name: n, Pol: l, Int: 4})
				}
			}
		}
	}
	var out []*Case
	for i := range rules {
		c := &Case{ID: *id, Stream: "exhaustive", Names: queryNames, Cache: 64}
		*id++
		c.Pool = append(c.Pool, Entry{ID: 1, Idx: 1, Pol: Pol{Rules: []Rule{rules[i]}}})
		for j := range rules {
			c.Pool = append(c.Pool, Entry{ID: 2 + j, Idx: 1, Pol: Pol{Rules: []Rule{rules[j]}}})
			c.Toks = append(c.Toks, Tok{Idx: []int{0, 1 + j}})
		}
		c.Toks = append(c.Toks, Tok{Idx: []int{0}})
		out = append(out, c)
	}
	return out
}

// ------------------------------------------------------------------ tabulation of the finite-domain helpers

type Tab struct {
	TPO     [][3]int `json:"tpo"`     // a, b, result
	Enforce [][3]int `json:"enforce"` // rule level, required level, decision
	Level   [][3]int `json:"level"`   // string, ok, level
	Valid   [][3]int `json:"valid"`   // string, allowList, result
	DIA     [][2]int `json:"dia"`     // decision, result
}

func b2i(b bool) int {
	if b {
		return 1
	}
	return 0
}

func tabulate() Tab {
	var t Tab
	for a := range reps {
		for b := range reps {
			t.TPO = append(t.TPO, [3]int{a, b, b2i(acl.VerifTakesPrecedenceOver(reps[a], reps[b]))})
		}
		l, err := acl.AccessLevelFromString(reps[a])
		t.Level = append(t.Level, [3]int{a, b2i(err == nil), int(l)})
		for _, al := range []bool{false, true} {
			t.Valid = append(t.Valid, [3]int{a, b2i(al), b2i(acl.VerifIsPolicyValid(reps[a], al))})
		}
	}
	for r := 0; r <= 4; r++ {
		for q := 0; q <= 4; q++ {
			t.Enforce = append(t.Enforce, [3]int{r, q, int(code(acl.VerifEnforce(acl.AccessLevel(r), acl.AccessLevel(q))) - '0')})
		}
	}
	for d, v := range []acl.EnforcementDecision{acl.Deny, acl.Allow, acl.Default} {
		t.DIA = append(t.DIA, [2]int{d, int(code(acl.VerifDefaultIsAllow(v)) - '0')})
	}
	return t
}

// ------------------------------------------------------------------ main

func main() {
	seed := flag.Int64("seed", 1, "PRNG seed")
	tier := flag.String("tier", "quick", "quick|thorough")
	out := flag.String("out", "", "output file (JSON lines)")
	tab := flag.String("tab", "", "write the finite-domain tables (JSON) to this file")
	replay := flag.String("replay", "", "re-run the case of a replay file")
	known := flag.String("known", "", "comma-separated failure kinds that are recorded open findings")
	flag.Parse()
	for _, k := range strings.Split(*known, ",") {
		if k != "" {
			knownKinds[k] = true
		}
	}

	if *replay != "" {
		b, err := os.ReadFile(*replay)
		if err != nil {
			fmt.Println(err)
			os.Exit(2)
		}
		var wrap struct {
			Case  *Case  `json:"case"`
			RCase *RCase `json:"rcase"`
		}
		if err := json.Unmarshal(b, &wrap); err == nil && wrap.RCase != nil {
			c := wrap.RCase
			runR(c)
			for _, p := range c.Pols {
				fmt.Printf("policy id=%d idx=%d datacenters=%v\n%s", p.ID, p.Idx, dcNames(p.DCs), p.HCL)
			}
			for _, r := range c.Roles {
				fmt.Printf("role %d policies=%v service identities=%v node identities=%v templated policies=%v\n", r.ID, r.Pols, r.SIs, r.NIs, r.TPs)
			}
			for _, t := range c.Toks {
				fmt.Printf("token %d policies=%v roles=%v service identities=%v node identities=%v templated policies=%v\n", t.ID, t.Pols, t.Roles, t.SIs, t.NIs, t.TPs)
			}
			for i, st := range c.Steps {
				fmt.Printf("step %d: resolve token %d in %s err=%v\n", i, c.Toks[st.Tok].ID, dcName(c.DC), st.Err)
			}
			if c.Oracle != "" {
				fmt.Println("ORACLE FAILS:", c.Oracle)
				os.Exit(1)
			}
			fmt.Println("oracle silent")
			return
		}
		if err := json.Unmarshal(b, &wrap); err != nil || wrap.Case == nil {
			fmt.Println("replay file has no \"case\"", err)
			os.Exit(2)
		}
		c := wrap.Case
		rerender(c)
		run(c)
		for i, e := range c.Pool {
			fmt.Printf("policy[%d] id=%d idx=%d hash=%d ok=%v\n%s", i, e.ID, e.Idx, e.Hash, e.Ok, e.HCL)
		}
		for i, t := range c.Toks {
			fmt.Printf("token %d policies %v err=%v\n", i, t.Idx, t.Err)
		}
		if c.Oracle != "" {
			fmt.Println("ORACLE FAILS:", c.Oracle)
			os.Exit(1)
		}
		fmt.Println("oracle silent")
		return
	}

	if *tab != "" {
		b, _ := json.Marshal(tabulate())
		if err := os.WriteFile(*tab, b, 0o644); err != nil {
			panic(err)
		}
	}
	if *out == "" {
		return
	}

	g := &gen{r: rand.New(rand.NewSource(*seed))}
	scale := 1
	if *tier == "thorough" {
		scale = 10
	}
	var cases []*Case
	id := 0
	add := func(c *Case) { c.ID = id; id++; cases = append(cases, c) }
	for i := 0; i < 420*scale; i++ {
		add(g.tokenCase(0, "main", false, 64))
	}
	for i := 0; i < 60*scale; i++ {
		add(g.tokenCase(0, "evict", false, []int{0, 2, 3}[g.r.Intn(3)]))
	}
	for i := 0; i < 60*scale; i++ {
		add(g.tokenCase(0, "mixed-case", true, 64))
	}
	for i := 0; i < 50*scale; i++ {
		add(g.malformedCase(0))
	}
	for i := 0; i < 20*scale; i++ {
		add(g.worldCase(0))
	}
	for i := 0; i < 40*scale; i++ {
		add(g.storeCase(0))
	}
	if *tier == "thorough" {
		for _, k := range []int{KKey, KService, KNode} {
			for _, c := range exhaustive(&id, k) {
				cases = append(cases, c)
			}
		}
	}

	var rcases []*RCase
	for i := 0; i < 150*scale; i++ {
		rcases = append(rcases, g.resolverCase())
	}

	f, err := os.Create(*out)
	if err != nil {
		panic(err)
	}
	w := bufio.NewWriterSize(f, 1<<20)
	enc := json.NewEncoder(w)
	shrunk := map[string]int{}
	for _, c := range rcases {
		c.ID = id
		id++
		runR(c)
		if c.Sig != nil && shrunk[c.Sig.Kind] < 3 {
			shrunk[c.Sig.Kind]++
			c.Shrunk = shrinkR(c)
		}
		if err := enc.Encode(c); err != nil {
			panic(err)
		}
	}
	for _, c := range cases {
		rerender(c)
		run(c)
		if c.Sig != nil && shrunk[c.Sig.Kind] < 3 {
			shrunk[c.Sig.Kind]++
			c.Shrunk = shrink(c)
		}
		if err := enc.Encode(c); err != nil {
			panic(err)
		}
	}
	w.Flush()
	f.Close()
}
