// Resolver stream of the C08 harness: the layer above ACLPolicies.Compile.
//
// A world of policies (optionally scoped to datacenters), roles (policy links, service
// identities with datacenter scopes, node identities) and tokens (policy links, role links, own
// identities) is served to a real consul.ACLResolver by a backend that hands out the SAME
// objects on every call, by pointer, as the state store does.  A sequence of tokens is resolved
// through one resolver with ResolveToken; every acl.Authorizer method is evaluated on the
// returned authorizer.
//
// Direct oracle (independent of the Coq model):
//   - history-dependence: the same token resolved alone by a fresh resolver over a freshly built
//     copy of the world gives the same decisions;
//   - backend-object-mutated: after every resolution the backend's tokens, roles and policies
//     still deep-equal a freshly built copy;
//   - identity-semantics: the decisions equal the documented rule applied to the union of the
//     token's own and role-inherited policies and identities that are valid in the datacenter;
//   - role-order-dependence: the token's role links reversed give the same decisions.
package main

import (
	"context"
	"encoding/hex"
	"encoding/json"
	"errors"
	"fmt"
	"reflect"
	"sort"

	"github.com/hashicorp/go-hclog"

	"github.com/hashicorp/consul/acl"
	"github.com/hashicorp/consul/agent/consul"
	"github.com/hashicorp/consul/agent/structs"
	"github.com/hashicorp/consul/agent/token"
)

var svcNames = []string{"a", "ab", "abc", "b"}

type SIdent struct {
	Name int   `json:"name"` // index into svcNames
	DCs  []int `json:"dcs"`  // datacenter numbers (dc1, dc2, dc3); empty = every datacenter
}

type NIdent struct {
	Name int `json:"name"`
	DC   int `json:"dc"`
}

// a templated policy link: builtin/service and builtin/node take a name, builtin/dns takes none
type TPol struct {
	Tmpl int   `json:"tmpl"` // 0 builtin/service, 1 builtin/node, 2 builtin/dns
	Name int   `json:"name"`
	DCs  []int `json:"dcs"`
}

var tmplNames = []string{"builtin/service", "builtin/node", "builtin/dns"}

type RPol struct {
	Entry
	DCs []int `json:"dcs"`
}

type RRole struct {
	ID   int      `json:"id"`
	Pols []int    `json:"pols"` // policy IDs
	SIs  []SIdent `json:"sis"`
	NIs  []NIdent `json:"nis"`
	TPs  []TPol   `json:"tps"`
}

type RTok struct {
	ID    int      `json:"id"`
	Pols  []int    `json:"pols"`
	Roles []int    `json:"roles"`
	SIs   []SIdent `json:"sis"`
	NIs   []NIdent `json:"nis"`
	TPs   []TPol   `json:"tps"`
}

// the synthetic policy the implementation generates for an identity (observed)
type Synth struct {
	Kind string `json:"kind"` // svc | node | tp0 | tp1 | tp2 (templated policy of template 0/1/2)
	Name int    `json:"name"`
	Entry
}

// the world after an edit (a policy bumped, a role or token edited, a policy or role deleted)
type RWorld struct {
	Pols  []RPol  `json:"pols"`
	Roles []RRole `json:"roles"`
	Toks  []RTok  `json:"toks"`
}

type RStep struct {
	W      int    `json:"w"`   // world the step runs in: 0 = Pols/Roles/Toks, k = Later[k-1]
	Tok    int    `json:"tok"` // index into that world's Toks
	Err    bool   `json:"err"`
	Expect string `json:"expect"`
}

type RCase struct {
	ID     int      `json:"id"`
	Stream string   `json:"stream"`
	Names  []string `json:"-"`
	NamesX []string `json:"names_hex"`
	DC     int      `json:"dc"`
	Pols   []RPol   `json:"pols"`
	Roles  []RRole  `json:"roles"`
	Toks   []RTok   `json:"toks"`
	Later  []RWorld `json:"later,omitempty"`
	Allow  bool     `json:"default_allow"` // ACLDefaultPolicy allow instead of deny
	Cache  int      `json:"cache"`         // size of each resolver cache (0 = 64)
	Synth  []Synth  `json:"synth"`
	Steps  []RStep  `json:"steps"`
	Oracle string   `json:"oracle"`
	Kinds  []string `json:"oracle_kinds,omitempty"`
	Fails  []Fail   `json:"fails,omitempty"`
	Sig    *Sig     `json:"sig,omitempty"`
	Shrunk *RCase   `json:"shrunk,omitempty"`
	IsRes  bool     `json:"resolver"`
}

// the case seen from world w: a single-world case sharing names, datacenter, defaults and the
// synthetic-policy table
func (c *RCase) at(w int) *RCase {
	d := *c
	d.Later, d.Steps, d.Shrunk = nil, nil, nil
	if w > 0 {
		d.Pols, d.Roles, d.Toks = c.Later[w-1].Pols, c.Later[w-1].Roles, c.Later[w-1].Toks
	}
	return &d
}

func (c *RCase) worlds() []*RCase {
	out := []*RCase{c.at(0)}
	for i := range c.Later {
		out = append(out, c.at(i+1))
	}
	return out
}

func dcName(i int) string  { return fmt.Sprintf("dc%d", i) }
func polID(i int) string   { return fmt.Sprintf("%08x-0000-0000-0000-000000000000", i) }
func roleID(i int) string  { return fmt.Sprintf("%08x-1111-0000-0000-000000000000", i) }
func secretOf(i int) string { return fmt.Sprintf("secret-%d", i) }

func dcNames(xs []int) []string {
	var out []string
	for _, x := range xs {
		out = append(out, dcName(x))
	}
	return out
}

// ------------------------------------------------------------------ backend

type rbackend struct {
	toks  map[string]*structs.ACLToken
	roles map[string]*structs.ACLRole
	pols  map[string]*structs.ACLPolicy
}

func (b *rbackend) ACLDatacenter() string                { return "dc1" }
func (b *rbackend) IsServerManagementToken(string) bool { return false }
func (b *rbackend) ResolveIdentityFromToken(secret string) (bool, structs.ACLIdentity, error) {
	if t, ok := b.toks[secret]; ok {
		return true, t, nil
	}
	return true, nil, acl.ErrNotFound
}
func (b *rbackend) ResolvePolicyFromID(id string) (bool, *structs.ACLPolicy, error) {
	if p, ok := b.pols[id]; ok {
		return true, p, nil
	}
	return true, nil, acl.ErrNotFound
}
func (b *rbackend) ResolveRoleFromID(id string) (bool, *structs.ACLRole, error) {
	if r, ok := b.roles[id]; ok {
		return true, r, nil
	}
	return true, nil, acl.ErrNotFound
}
func (b *rbackend) RPC(context.Context, string, interface{}, interface{}) error {
	return errors.New("no RPC in this harness")
}

func sidents(xs []SIdent) structs.ACLServiceIdentities {
	var out structs.ACLServiceIdentities
	for _, s := range xs {
		out = append(out, &structs.ACLServiceIdentity{ServiceName: svcNames[s.Name], Datacenters: dcNames(s.DCs)})
	}
	return out
}

func nidents(xs []NIdent) structs.ACLNodeIdentities {
	var out structs.ACLNodeIdentities
	for _, s := range xs {
		out = append(out, &structs.ACLNodeIdentity{NodeName: svcNames[s.Name], Datacenter: dcName(s.DC)})
	}
	return out
}

func tpols(xs []TPol) structs.ACLTemplatedPolicies {
	var out structs.ACLTemplatedPolicies
	for _, t := range xs {
		base, _ := structs.GetACLTemplatedPolicyBase(tmplNames[t.Tmpl])
		tp := &structs.ACLTemplatedPolicy{TemplateID: base.TemplateID, TemplateName: base.TemplateName, Datacenters: dcNames(t.DCs)}
		if t.Tmpl != 2 {
			tp.TemplateVariables = &structs.ACLTemplatedPolicyVariables{Name: svcNames[t.Name]}
		}
		out = append(out, tp)
	}
	return out
}

// buildWorld makes fresh objects for everything the case describes
func buildWorld(c *RCase) *rbackend {
	b := &rbackend{toks: map[string]*structs.ACLToken{}, roles: map[string]*structs.ACLRole{}, pols: map[string]*structs.ACLPolicy{}}
	for i := range c.Pols {
		p := &c.Pols[i]
		sp := &structs.ACLPolicy{ID: polID(p.ID), Name: fmt.Sprintf("pol-%d", p.ID), Rules: p.HCL, Datacenters: dcNames(p.DCs)}
		sp.ModifyIndex = uint64(p.Idx)
		sp.SetHash(true)
		b.pols[sp.ID] = sp
	}
	for _, r := range c.Roles {
		sr := &structs.ACLRole{ID: roleID(r.ID), Name: fmt.Sprintf("role-%d", r.ID), ServiceIdentities: sidents(r.SIs), NodeIdentities: nidents(r.NIs), TemplatedPolicies: tpols(r.TPs)}
		for _, p := range r.Pols {
			sr.Policies = append(sr.Policies, structs.ACLRolePolicyLink{ID: polID(p)})
		}
		sr.ModifyIndex = 1
		sr.SetHash(true)
		b.roles[sr.ID] = sr
	}
	for _, t := range c.Toks {
		st := &structs.ACLToken{AccessorID: fmt.Sprintf("%08x-2222-0000-0000-000000000000", t.ID), SecretID: secretOf(t.ID),
			ServiceIdentities: sidents(t.SIs), NodeIdentities: nidents(t.NIs), TemplatedPolicies: tpols(t.TPs)}
		for _, p := range t.Pols {
			st.Policies = append(st.Policies, structs.ACLTokenPolicyLink{ID: polID(p)})
		}
		for _, r := range t.Roles {
			st.Roles = append(st.Roles, structs.ACLTokenRoleLink{ID: roleID(r)})
		}
		st.SetHash(true)
		b.toks[st.SecretID] = st
	}
	return b
}

func newRResolver(c *RCase, b *rbackend) *consul.ACLResolver {
	r, err := consul.NewACLResolver(&consul.ACLResolverConfig{
		Config: consul.ACLResolverSettings{ACLsEnabled: true, Datacenter: dcName(c.DC), NodeName: "node1",
			ACLPolicyTTL: 0, ACLTokenTTL: 0, ACLRoleTTL: 0, ACLDownPolicy: "extend-cache", ACLDefaultPolicy: map[bool]string{false: "deny", true: "allow"}[c.Allow]},
		Logger:      hclog.NewNullLogger(),
		CacheConfig: &structs.ACLCachesConfig{Identities: csize(c), Policies: csize(c), ParsedPolicies: csize(c), Authorizers: csize(c), Roles: csize(c)},
		Backend:     b,
		Tokens:      new(token.Store),
	})
	if err != nil {
		panic(err)
	}
	return r
}

func csize(c *RCase) int {
	if c.Cache == 0 {
		return 64
	}
	return c.Cache
}

// moveTo replaces in the backend exactly the objects whose description differs between the two
// worlds (the state store installs a new object for a written row and keeps every other pointer)
func (b *rbackend) moveTo(from, to *RCase) {
	nb := buildWorld(to)
	same := func(x, y interface{}) bool { a, _ := json.Marshal(x); c, _ := json.Marshal(y); return string(a) == string(c) }
	for i := range to.Pols {
		for j := range from.Pols {
			if to.Pols[i].ID == from.Pols[j].ID && same(to.Pols[i], from.Pols[j]) {
				nb.pols[polID(to.Pols[i].ID)] = b.pols[polID(to.Pols[i].ID)]
			}
		}
	}
	for i := range to.Roles {
		for j := range from.Roles {
			if to.Roles[i].ID == from.Roles[j].ID && same(to.Roles[i], from.Roles[j]) {
				nb.roles[roleID(to.Roles[i].ID)] = b.roles[roleID(to.Roles[i].ID)]
			}
		}
	}
	for i := range to.Toks {
		for j := range from.Toks {
			if to.Toks[i].ID == from.Toks[j].ID && same(to.Toks[i], from.Toks[j]) {
				nb.toks[secretOf(to.Toks[i].ID)] = b.toks[secretOf(to.Toks[i].ID)]
			}
		}
	}
	b.pols, b.roles, b.toks = nb.pols, nb.roles, nb.toks
}

func observe1(a acl.Authorizer, qs []query) string {
	out := make([]byte, 0, len(qs))
	for _, q := range qs {
		out = append(out, code(q.m.call(a, q.name)))
	}
	return string(out)
}

// ------------------------------------------------------------------ synthetic policies as the implementation renders them

func synthFor(c *RCase, kind string, name int, ids map[string]int) Synth {
	for _, s := range c.Synth {
		if s.Kind == kind && s.Name == name {
			return s
		}
	}
	var sp *structs.ACLPolicy
	switch kind {
	case "svc":
		sp = (&structs.ACLServiceIdentity{ServiceName: svcNames[name]}).SyntheticPolicy(nil)
	case "node":
		sp = (&structs.ACLNodeIdentity{NodeName: svcNames[name], Datacenter: "dc1"}).SyntheticPolicy(nil)
	default:
		var err error
		sp, err = tpols([]TPol{{Tmpl: int(kind[2] - '0'), Name: name}})[0].SyntheticPolicy(nil)
		if err != nil {
			panic(err)
		}
	}
	pp, err := acl.NewPolicyFromSource(sp.Rules, &acl.Config{WarnOnDuplicateKey: true}, nil)
	if err != nil {
		panic(err)
	}
	if _, ok := ids[sp.Rules]; !ok {
		ids[sp.Rules] = 100000 + len(ids)
	}
	n := ids[sp.Rules]
	s := Synth{Kind: kind, Name: name, Entry: Entry{ID: n, Idx: 0, Hash: n, Ok: true, Pol: fromParsed(pp), HCL: sp.Rules}}
	c.Synth = append(c.Synth, s)
	return s
}

func inScope(dcs []int, dc int) bool {
	if len(dcs) == 0 {
		return true
	}
	for _, d := range dcs {
		if d == dc {
			return true
		}
	}
	return false
}

// the documented meaning of a token: the union of everything it holds or inherits that is valid here
func (c *RCase) referencePols(t *RTok, ids map[string]int) []Pol {
	var out []Pol
	seen := map[int]bool{}
	addPol := func(id int) {
		if seen[id] {
			return
		}
		seen[id] = true
		for i := range c.Pols {
			if c.Pols[i].ID == id && inScope(c.Pols[i].DCs, c.DC) {
				out = append(out, c.Pols[i].Pol)
			}
		}
	}
	addTPs := func(tps []TPol) {
		for _, t := range tps {
			if inScope(t.DCs, c.DC) {
				out = append(out, synthFor(c, fmt.Sprintf("tp%d", t.Tmpl), tpName(t), ids).Pol)
			}
		}
	}
	addIdents := func(sis []SIdent, nis []NIdent) {
		for _, s := range sis {
			if inScope(s.DCs, c.DC) {
				out = append(out, synthFor(c, "svc", s.Name, ids).Pol)
			}
		}
		for _, n := range nis {
			if n.DC == c.DC {
				out = append(out, synthFor(c, "node", n.Name, ids).Pol)
			}
		}
	}
	for _, p := range t.Pols {
		addPol(p)
	}
	addIdents(t.SIs, t.NIs)
	addTPs(t.TPs)
	for _, rid := range t.Roles {
		for _, r := range c.Roles {
			if r.ID == rid {
				for _, p := range r.Pols {
					addPol(p)
				}
				addIdents(r.SIs, r.NIs)
				addTPs(r.TPs)
			}
		}
	}
	return out
}

func tpName(t TPol) int {
	if t.Tmpl == 2 {
		return 0
	}
	return t.Name
}

// ------------------------------------------------------------------ running a resolver case

func (c *RCase) prepare() {
	if len(c.Names) == 0 && len(c.NamesX) > 0 {
		for _, h := range c.NamesX {
			b, _ := hex.DecodeString(h)
			c.Names = append(c.Names, string(b))
		}
	}
	c.NamesX = nil
	for _, n := range c.Names {
		c.NamesX = append(c.NamesX, hex.EncodeToString([]byte(n)))
	}
	c.IsRes = true
	// content hashes: the model's number stands for the real ACLPolicy.Hash
	seen := map[string]int{}
	prep := func(pols []RPol) {
		for i := range pols {
			e := &pols[i]
			e.HCL = render(e.Pol)
			sp := &structs.ACLPolicy{ID: polID(e.ID), Name: fmt.Sprintf("pol-%d", e.ID), Rules: e.HCL, Datacenters: dcNames(e.DCs)}
			k := fmt.Sprintf("%x", sp.SetHash(true))
			if _, ok := seen[k]; !ok {
				seen[k] = len(seen) + 1
			}
			e.Hash = seen[k]
			_, err := acl.NewPolicyFromSource(e.HCL, &acl.Config{WarnOnDuplicateKey: true}, nil)
			e.Ok = err == nil || (len(err.Error()) >= 8 && err.Error()[:8] == "Invalid ")
		}
	}
	prep(c.Pols)
	for i := range c.Later {
		prep(c.Later[i].Pols)
	}
}

func runR(c *RCase) {
	c.prepare()
	qs := queries(c.Names)
	ids := map[string]int{}
	c.Synth = nil
	// every identity of every world gets its synthetic policy recorded (the model's external table)
	for _, w := range c.worlds() {
		for _, t := range w.Toks {
			for _, s := range t.SIs {
				synthFor(c, "svc", s.Name, ids)
			}
			for _, n := range t.NIs {
				synthFor(c, "node", n.Name, ids)
			}
			for _, tp := range t.TPs {
				synthFor(c, fmt.Sprintf("tp%d", tp.Tmpl), tpName(tp), ids)
			}
		}
		for _, r := range w.Roles {
			for _, s := range r.SIs {
				synthFor(c, "svc", s.Name, ids)
			}
			for _, n := range r.NIs {
				synthFor(c, "node", n.Name, ids)
			}
			for _, tp := range r.TPs {
				synthFor(c, fmt.Sprintf("tp%d", tp.Tmpl), tpName(tp), ids)
			}
		}
	}
	sort.SliceStable(c.Synth, func(i, j int) bool {
		if c.Synth[i].Kind != c.Synth[j].Kind {
			return c.Synth[i].Kind < c.Synth[j].Kind
		}
		return c.Synth[i].Name < c.Synth[j].Name
	})

	c.Oracle, c.Sig, c.Kinds, c.Fails = "", nil, nil, nil
	prio := map[string]int{"history-dependence": 1, "history-dependence-error": 2, "identity-semantics": 3, "service-identity-scope-narrowed": 3, "templated-policy-scope-dropped": 3,
		"role-order-dependence": 4, "backend-object-mutated": 5, "resolve-error": 6}
	fail := func(kind string, si int, i int, got, want string) {
		for _, k := range c.Kinds {
			if k == kind {
				return
			}
		}
		c.Kinds = append(c.Kinds, kind)
		s := &Sig{Kind: kind, Token: si}
		tok := c.at(c.Steps[si].W).Toks[c.Steps[si].Tok]
		var msg string
		if i >= 0 {
			s.Method, s.Name = describe(qs, i)
			s.Got, s.Want = string(got[i]), string(want[i])
			msg = fmt.Sprintf("%s: step %d (token %d: policies %v roles %v) %s(%q) = %s, expected %s", kind, si, tok.ID, tok.Pols, tok.Roles,
				s.Method, s.Name, dname(s.Got), dname(s.Want))
		} else {
			msg = fmt.Sprintf("%s: after step %d (token %d: policies %v roles %v)", kind, si, tok.ID, tok.Pols, tok.Roles)
		}
		c.Fails = append(c.Fails, Fail{*s, msg})
		if c.Sig != nil && rankOf(prio, c.Sig.Kind) <= rankOf(prio, kind) {
			return
		}
		c.Oracle, c.Sig = msg, s
	}

	cw := c.at(0)
	b := buildWorld(cw)
	r := newRResolver(c, b)
	defer r.Close()
	curW := 0
	chain := 1 // which quarter of the reference vector: chain with DenyAll (1) or AllowAll (2)
	if c.Allow {
		chain = 2
	}
	for si := range c.Steps {
		st := &c.Steps[si]
		if st.W != curW {
			// the store was written between the two resolutions
			nw := c.at(st.W)
			b.moveTo(cw, nw)
			cw, curW = nw, st.W
		}
		tok := &cw.Toks[st.Tok]
		res, err := r.ResolveToken(secretOf(tok.ID))
		st.Err, st.Expect = err != nil, ""
		if err != nil {
			fail("resolve-error", si, -1, "", "")
			continue
		}
		st.Expect = observe1(res.Authorizer, qs)

		// the backend's objects are untouched
		pristine := buildWorld(cw)
		if !reflect.DeepEqual(pristine.roles, b.roles) || !reflect.DeepEqual(pristine.toks, b.toks) || !reflect.DeepEqual(pristine.pols, b.pols) {
			fail("backend-object-mutated", si, -1, "", "")
		}

		// the same token alone, fresh resolver, fresh objects
		fr := newRResolver(cw, buildWorld(cw))
		fres, ferr := fr.ResolveToken(secretOf(tok.ID))
		if ferr != nil {
			fail("history-dependence-error", si, -1, "", "")
		} else {
			want := observe1(fres.Authorizer, qs)
			if d := firstDiff(st.Expect, want); d >= 0 {
				fail("history-dependence", si, d, st.Expect, want)
			}
		}
		fr.Close()

		// the documented rule over the union of what the token holds and inherits
		full := newRef(cw.referencePols(tok, ids)).observe(qs)
		want := full[chain*len(qs) : (chain+1)*len(qs)]
		if d := firstDiff(st.Expect, want); d >= 0 {
			kind := "identity-semantics"
			if cw.unscopedSubsumes(st.Tok, qs, want) {
				kind = "service-identity-scope-narrowed"
			} else if cw.templatedMergedAgrees(st.Tok, qs, want) {
				kind = "templated-policy-scope-dropped"
			}
			fail(kind, si, d, st.Expect, want)
		}

		// role links in every other order
		if len(tok.Roles) > 1 && len(tok.Roles) <= 3 {
			for _, perm := range permutations(tok.Roles)[1:] {
				c2 := cloneR(cw)
				c2.Toks[st.Tok].Roles = perm
				r2 := newRResolver(c2, buildWorld(c2))
				res2, err2 := r2.ResolveToken(secretOf(tok.ID))
				if err2 != nil {
					fail("role-order-dependence", si, -1, "", "")
				} else if got := observe1(res2.Authorizer, qs); firstDiff(got, st.Expect) >= 0 {
					kind := "role-order-dependence"
					if cw.templatedMergedAgrees(st.Tok, qs, want) {
						kind = "templated-policy-scope-dropped"
					}
					fail(kind, si, firstDiff(got, st.Expect), got, st.Expect)
				}
				r2.Close()
			}
		}
	}
}

func permutations(xs []int) [][]int {
	if len(xs) <= 1 {
		return [][]int{append([]int{}, xs...)}
	}
	var out [][]int
	for i := range xs {
		rest := append(append([]int{}, xs[:i]...), xs[i+1:]...)
		for _, p := range permutations(rest) {
			out = append(out, append([]int{xs[i]}, p...))
		}
	}
	return out
}

// Does the deviation from the documented union disappear when, for every service name for which
// the token holds or inherits an identity valid in ALL datacenters, the additional scoped
// identities of that name (which the all-datacenter one subsumes) are dropped?
func (c *RCase) unscopedSubsumes(ti int, qs []query, want string) bool {
	d := cloneR(c)
	t := &d.Toks[ti]
	all := map[int]bool{}
	note := func(sis []SIdent) {
		for _, s := range sis {
			if len(s.DCs) == 0 {
				all[s.Name] = true
			}
		}
	}
	note(t.SIs)
	for _, rid := range t.Roles {
		for _, r := range d.Roles {
			if r.ID == rid {
				note(r.SIs)
			}
		}
	}
	if len(all) == 0 {
		return false
	}
	drop := func(sis []SIdent) []SIdent {
		var out []SIdent
		for _, s := range sis {
			if len(s.DCs) != 0 && all[s.Name] {
				continue
			}
			out = append(out, s)
		}
		return out
	}
	t.SIs = drop(t.SIs)
	for _, rid := range t.Roles {
		for i := range d.Roles {
			if d.Roles[i].ID == rid {
				d.Roles[i].SIs = drop(d.Roles[i].SIs)
			}
		}
	}
	r := newRResolver(d, buildWorld(d))
	defer r.Close()
	res, err := r.ResolveToken(secretOf(t.ID))
	return err == nil && observe1(res.Authorizer, qs) == want
}

// Does the token hold or inherit several templated policies with the same template and variables
// but different Datacenters, and does the implementation follow the documented union (in BOTH
// orders of the role links) once each such group is replaced by one templated policy on the token
// itself whose scope is the union of the group's scopes (every datacenter if one of them is
// unscoped)?  Then the deviation is exactly ACLTemplatedPolicies.Deduplicate dropping the scope of
// the later duplicates.
func (c *RCase) templatedMergedAgrees(ti int, qs []query, want string) bool {
	d := cloneR(c)
	t := &d.Toks[ti]
	type key struct{ tmpl, name int }
	var order []key
	groups := map[key][]TPol{}
	note := func(tps []TPol) {
		for _, x := range tps {
			k := key{x.Tmpl, tpName(x)}
			if _, ok := groups[k]; !ok {
				order = append(order, k)
			}
			groups[k] = append(groups[k], x)
		}
	}
	note(t.TPs)
	for _, rid := range t.Roles {
		for _, r := range d.Roles {
			if r.ID == rid {
				note(r.TPs)
			}
		}
	}
	differs := false
	var merged []TPol
	for _, k := range order {
		g := groups[k]
		set := map[int]bool{}
		unscoped := false
		for _, x := range g {
			if fmt.Sprint(x.DCs) != fmt.Sprint(g[0].DCs) {
				differs = true
			}
			if len(x.DCs) == 0 {
				unscoped = true
			}
			for _, dc := range x.DCs {
				set[dc] = true
			}
		}
		m := TPol{Tmpl: k.tmpl, Name: k.name}
		if !unscoped {
			for dc := range set {
				m.DCs = append(m.DCs, dc)
			}
			sort.Ints(m.DCs)
		}
		merged = append(merged, m)
	}
	if !differs {
		return false
	}
	t.TPs = merged
	for _, rid := range t.Roles {
		for i := range d.Roles {
			if d.Roles[i].ID == rid {
				d.Roles[i].TPs = nil
			}
		}
	}
	for _, perm := range permutations(d.Toks[ti].Roles) {
		e := cloneR(d)
		e.Toks[ti].Roles = perm
		r := newRResolver(e, buildWorld(e))
		res, err := r.ResolveToken(secretOf(e.Toks[ti].ID))
		ok := err == nil && observe1(res.Authorizer, qs) == want
		r.Close()
		if !ok {
			return false
		}
	}
	return true
}

func cloneR(c *RCase) *RCase {
	b, _ := json.Marshal(c)
	var d RCase
	json.Unmarshal(b, &d)
	d.Shrunk = nil
	d.Names = c.Names
	return &d
}

func shrinkR(c *RCase) *RCase {
	kind := c.Sig.Kind
	cur := cloneR(c)
	still := func(d *RCase) bool {
		runR(d)
		return d.Sig != nil && d.Sig.Kind == kind
	}
	cur.Steps = cur.Steps[:c.Sig.Token+1]
	if !still(cur) {
		return cloneR(c)
	}
	if len(cur.Later) > 0 {
		// several worlds: drop steps, then keep only the worlds still in use
		for i := 0; i < len(cur.Steps)-1; i++ {
			d := cloneR(cur)
			d.Steps = append(d.Steps[:i:i], d.Steps[i+1:]...)
			if still(d) {
				cur = d
				i--
			}
		}
		first := cur.Steps[0].W
		oneWorld := true
		for _, st := range cur.Steps {
			if st.W != first {
				oneWorld = false
			}
		}
		if !oneWorld {
			still(cur)
			return cur
		}
		d := cloneR(cur.at(first))
		d.Steps = append([]RStep{}, cur.Steps...)
		for i := range d.Steps {
			d.Steps[i].W = 0
		}
		if !still(d) {
			still(cur)
			return cur
		}
		cur = d
	}
	try := func(mut func(d *RCase) bool) bool {
		d := cloneR(cur)
		if !mut(d) {
			return false
		}
		if still(d) {
			cur = d
			return true
		}
		return false
	}
	for changed := true; changed; {
		changed = false
		for i := 0; i < len(cur.Steps)-1; i++ {
			if try(func(d *RCase) bool { d.Steps = append(d.Steps[:i:i], d.Steps[i+1:]...); return true }) {
				changed = true
				i--
			}
		}
		for ti := range cur.Toks {
			for k := 0; k < len(cur.Toks[ti].Roles); k++ {
				if try(func(d *RCase) bool { x := d.Toks[ti].Roles; d.Toks[ti].Roles = append(x[:k:k], x[k+1:]...); return true }) {
					changed = true
					k--
				}
			}
			for k := 0; k < len(cur.Toks[ti].Pols); k++ {
				if try(func(d *RCase) bool { x := d.Toks[ti].Pols; d.Toks[ti].Pols = append(x[:k:k], x[k+1:]...); return true }) {
					changed = true
					k--
				}
			}
			for k := 0; k < len(cur.Toks[ti].SIs); k++ {
				if try(func(d *RCase) bool { x := d.Toks[ti].SIs; d.Toks[ti].SIs = append(x[:k:k], x[k+1:]...); return true }) {
					changed = true
					k--
				}
			}
			for k := 0; k < len(cur.Toks[ti].TPs); k++ {
				if try(func(d *RCase) bool { x := d.Toks[ti].TPs; d.Toks[ti].TPs = append(x[:k:k], x[k+1:]...); return true }) {
					changed = true
					k--
				}
			}
			for k := 0; k < len(cur.Toks[ti].NIs); k++ {
				if try(func(d *RCase) bool { x := d.Toks[ti].NIs; d.Toks[ti].NIs = append(x[:k:k], x[k+1:]...); return true }) {
					changed = true
					k--
				}
			}
		}
		for ri := range cur.Roles {
			for k := 0; k < len(cur.Roles[ri].Pols); k++ {
				if try(func(d *RCase) bool { x := d.Roles[ri].Pols; d.Roles[ri].Pols = append(x[:k:k], x[k+1:]...); return true }) {
					changed = true
					k--
				}
			}
			for k := 0; k < len(cur.Roles[ri].SIs); k++ {
				if try(func(d *RCase) bool { x := d.Roles[ri].SIs; d.Roles[ri].SIs = append(x[:k:k], x[k+1:]...); return true }) {
					changed = true
					k--
				}
			}
			for k := 0; k < len(cur.Roles[ri].TPs); k++ {
				if try(func(d *RCase) bool { x := d.Roles[ri].TPs; d.Roles[ri].TPs = append(x[:k:k], x[k+1:]...); return true }) {
					changed = true
					k--
				}
			}
			for k := 0; k < len(cur.Roles[ri].NIs); k++ {
				if try(func(d *RCase) bool { x := d.Roles[ri].NIs; d.Roles[ri].NIs = append(x[:k:k], x[k+1:]...); return true }) {
					changed = true
					k--
				}
			}
		}
		for pi := range cur.Pols {
			for k := 0; k < len(cur.Pols[pi].Pol.Rules); k++ {
				if try(func(d *RCase) bool { x := d.Pols[pi].Pol.Rules; d.Pols[pi].Pol.Rules = append(x[:k:k], x[k+1:]...); return true }) {
					changed = true
					k--
				}
			}
		}
	}
	// drop tokens, roles and policies nothing refers to any more
	d := cloneR(cur)
	usedTok := map[int]int{}
	var toks []RTok
	for si := range d.Steps {
		i := d.Steps[si].Tok
		if _, ok := usedTok[i]; !ok {
			usedTok[i] = len(toks)
			toks = append(toks, d.Toks[i])
		}
		d.Steps[si].Tok = usedTok[i]
	}
	d.Toks = toks
	usedRole, usedPol := map[int]bool{}, map[int]bool{}
	for _, t := range d.Toks {
		for _, r := range t.Roles {
			usedRole[r] = true
		}
		for _, p := range t.Pols {
			usedPol[p] = true
		}
	}
	var roles []RRole
	for _, r := range d.Roles {
		if usedRole[r.ID] {
			roles = append(roles, r)
			for _, p := range r.Pols {
				usedPol[p] = true
			}
		}
	}
	d.Roles = roles
	var pols []RPol
	for _, p := range d.Pols {
		if usedPol[p.ID] {
			pols = append(pols, p)
		}
	}
	d.Pols = pols
	if still(d) {
		return d
	}
	still(cur)
	return cur
}

// ------------------------------------------------------------------ generator

func (g *gen) dcs() []int {
	switch g.r.Intn(6) {
	case 0, 1:
		return nil
	case 2:
		return []int{1}
	case 3:
		return []int{2}
	case 4:
		return []int{g.pick([]int{1, 3}), 2}
	}
	return []int{3, 1}
}

func (g *gen) sis(max int) []SIdent {
	var out []SIdent
	for i := g.r.Intn(max + 1); i > 0; i-- {
		out = append(out, SIdent{Name: g.pick([]int{0, 0, 1, 1, 2, 3}), DCs: g.dcs()})
	}
	return out
}

func (g *gen) nis(max int) []NIdent {
	var out []NIdent
	for i := g.r.Intn(max + 1); i > 0; i-- {
		out = append(out, NIdent{Name: g.pick([]int{0, 1, 1, 3}), DC: g.pick([]int{1, 2, 2, 3})})
	}
	return out
}

func (g *gen) tps(max int) []TPol {
	var out []TPol
	for i := g.r.Intn(max + 1); i > 0; i-- {
		t := TPol{Tmpl: g.pick([]int{0, 0, 0, 1, 2}), DCs: g.dcs()}
		if t.Tmpl != 2 {
			t.Name = g.pick([]int{0, 0, 1, 3})
		}
		out = append(out, t)
	}
	return out
}

func (g *gen) subset(n, max int) []int {
	k := g.r.Intn(max + 1)
	if k > n {
		k = n
	}
	out := []int{}
	for _, i := range g.r.Perm(n)[:k] {
		out = append(out, i+1)
	}
	return out
}

func (g *gen) resolverCase() *RCase {
	c := &RCase{Stream: "resolver", DC: g.pick([]int{2, 2, 2, 1, 3}), IsRes: true, Allow: g.r.Intn(4) == 0, Cache: g.pick([]int{0, 0, 2})}
	c.Names = append(append([]string{}, queryNames...), "a-sidecar-proxy", "ab-sidecar-proxy")
	np := 1 + g.r.Intn(3)
	for i := 0; i < np; i++ {
		c.Pols = append(c.Pols, RPol{Entry: Entry{ID: i + 1, Idx: 1 + g.r.Intn(2), Pol: g.policy(false, []int{KService, KService, KNode, KKey})}, DCs: g.dcs()})
	}
	nr := 2 + g.r.Intn(3)
	for i := 0; i < nr; i++ {
		r := RRole{ID: i + 1, Pols: g.subset(np, 2), SIs: g.sis(2), NIs: g.nis(1)}
		if g.r.Intn(2) == 0 {
			r.TPs = g.tps(2)
		}
		c.Roles = append(c.Roles, r)
	}
	nt := 2 + g.r.Intn(3)
	for i := 0; i < nt; i++ {
		t := RTok{ID: i + 1, Pols: g.subset(np, 2), Roles: g.subset(nr, 3)}
		if g.r.Intn(3) == 0 {
			t.SIs = g.sis(2)
		}
		if g.r.Intn(4) == 0 {
			t.NIs = g.nis(1)
		}
		if g.r.Intn(4) == 0 {
			t.TPs = g.tps(2)
		}
		c.Toks = append(c.Toks, t)
	}
	directed := g.r.Intn(2) == 0
	if directed {
		// the shape that makes shared role objects matter: a token with several roles, then a
		// token with a single one of them
		t := &c.Toks[0]
		if len(t.Roles) < 2 {
			t.Roles = g.subset(nr, nr)
			if len(t.Roles) < 2 {
				t.Roles = []int{1, 2}
			}
		}
		c.Toks[1].Roles = []int{t.Roles[g.r.Intn(len(t.Roles))]}
		c.Toks[1].Pols, c.Toks[1].SIs, c.Toks[1].NIs, c.Toks[1].TPs = nil, nil, nil, nil
	}
	ns := 3 + g.r.Intn(4)
	for i := 0; i < ns; i++ {
		c.Steps = append(c.Steps, RStep{Tok: g.r.Intn(nt)})
	}
	if directed {
		// the several-role token first, then the single-role one
		c.Steps[0].Tok, c.Steps[1].Tok = 0, 1
	}
	// the store is written between resolutions in half of the cases
	if g.r.Intn(2) == 0 {
		cur := c.at(0)
		for k := 1 + g.r.Intn(2); k > 0; k-- {
			nx := cloneR(cur)
			switch g.r.Intn(6) {
			case 0: // a policy gets new rules
				i := g.r.Intn(len(nx.Pols))
				nx.Pols[i].Pol, nx.Pols[i].Idx = g.policy(false, []int{KService, KNode, KKey}), nx.Pols[i].Idx+1
			case 1: // a policy changes its datacenter scope
				i := g.r.Intn(len(nx.Pols))
				nx.Pols[i].DCs, nx.Pols[i].Idx = g.dcs(), nx.Pols[i].Idx+1
			case 2: // a role gains or loses identities
				i := g.r.Intn(len(nx.Roles))
				nx.Roles[i].SIs, nx.Roles[i].TPs = g.sis(2), g.tps(1)
			case 3: // a role's policy links change
				i := g.r.Intn(len(nx.Roles))
				nx.Roles[i].Pols = g.subset(len(nx.Pols), 2)
			case 4: // a token is relinked
				i := g.r.Intn(len(nx.Toks))
				nx.Toks[i].Roles, nx.Toks[i].Pols = g.subset(len(nx.Roles), 3), g.subset(len(nx.Pols), 2)
			case 5: // a linked policy or role is deleted (dangling links are skipped by the resolver)
				if g.r.Intn(2) == 0 && len(nx.Pols) > 1 {
					nx.Pols = nx.Pols[1:]
				} else if len(nx.Roles) > 1 {
					nx.Roles = nx.Roles[:len(nx.Roles)-1]
				}
			}
			c.Later = append(c.Later, RWorld{Pols: nx.Pols, Roles: nx.Roles, Toks: nx.Toks})
			cur = nx
		}
		// steps visit the worlds in order
		for i := range c.Steps {
			c.Steps[i].W = i * (len(c.Later) + 1) / len(c.Steps)
		}
	}
	return c
}
