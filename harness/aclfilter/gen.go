package main

import (
	"fmt"
	"math/rand"
	"reflect"
	"strings"

	"github.com/hashicorp/go-hclog"

	"github.com/hashicorp/consul/acl"
	"github.com/hashicorp/consul/agent/consul"
	"github.com/hashicorp/consul/agent/structs"
	"github.com/hashicorp/consul/agent/structs/aclfilter"
)

// ---- name universe ---------------------------------------------------------------------
var (
	nodeNames  = []string{"n1", "n2", "n3", "node-a", "nod"}
	svcNames   = []string{"web", "web-1", "api", "db", "we"}
	keyNames   = []string{"a", "a/", "a/b", "ab", "k"}
	queryNames = []string{"q1", "q2", "qq"}
	goodNames  = []string{"ok1", "ok2", "ok3", "ok4", "ok5", "ok6"}
	badNames   = []string{"bad", "bad1", "bad2", "bad3", "bad4", "bad5"}
	badName    = "bad"
	peerNames  = []string{"", "peer1"}
	allNames   []string
)

func init() {
	seen := map[string]bool{}
	for _, l := range [][]string{nodeNames, svcNames, keyNames, queryNames, goodNames, badNames, { "", "*", "i-1", "i-2"}} {
		for _, n := range l {
			if !seen[n] {
				seen[n] = true
				allNames = append(allNames, n)
			}
		}
	}
}

// ---- the real authorizer, tabulated over the universe ------------------------------------
type AzTab struct {
	Node      [][]any `json:"node"`    // [peer, name, allow]
	Service   [][]any `json:"service"` // [peer, name, allow]
	Session   [][]any `json:"session"` // [name, allow]
	Intention [][]any `json:"intention"`
	Query     [][]any `json:"query"`
	Key       [][]any `json:"key"`
	ACLRead   bool    `json:"acl_read"`
	ACLWrite  bool    `json:"acl_write"`
}

func tabulate(az acl.Authorizer) *AzTab {
	t := &AzTab{}
	for _, p := range peerNames {
		ctx := &acl.AuthorizerContext{Peer: p}
		for _, n := range allNames {
			t.Node = append(t.Node, []any{p, n, az.NodeRead(n, ctx) == acl.Allow})
			t.Service = append(t.Service, []any{p, n, az.ServiceRead(n, ctx) == acl.Allow})
		}
	}
	var ctx acl.AuthorizerContext
	for _, n := range allNames {
		t.Session = append(t.Session, []any{n, az.SessionRead(n, &ctx) == acl.Allow})
		t.Intention = append(t.Intention, []any{n, az.IntentionRead(n, &ctx) == acl.Allow})
		t.Query = append(t.Query, []any{n, az.PreparedQueryRead(n, &ctx) == acl.Allow})
		t.Key = append(t.Key, []any{n, az.KeyRead(n, &ctx) == acl.Allow})
	}
	t.ACLRead = az.ACLRead(&ctx) == acl.Allow
	t.ACLWrite = az.ACLWrite(&ctx) == acl.Allow
	return t
}

func mkAuthorizer(policy, deflt string) acl.Authorizer {
	if deflt == "manage" {
		return acl.ManageAll()
	}
	p, err := acl.NewPolicyFromSource(policy, nil, nil)
	if err != nil {
		panic(fmt.Sprintf("policy does not parse: %v\n%s", err, policy))
	}
	d := acl.DenyAll()
	if deflt == "allow" {
		d = acl.AllowAll()
	}
	az, err := acl.NewPolicyAuthorizerWithDefaults(d, []*acl.Policy{p}, nil)
	if err != nil {
		panic(err)
	}
	return az
}

// fixed policies of the exhaustive-arrangement mode: everything readable except the name "bad"
const policyA = `
node_prefix "" { policy = "read" }
node_prefix "bad" { policy = "deny" }
service_prefix "" { policy = "read" intentions = "read" }
service_prefix "bad" { policy = "deny" intentions = "deny" }
session_prefix "" { policy = "read" }
session_prefix "bad" { policy = "deny" }
key_prefix "" { policy = "read" }
key_prefix "bad" { policy = "deny" }
query_prefix "" { policy = "read" }
query_prefix "bad" { policy = "deny" }
acl = "read"
`

// default allow, "bad" denied, ACL read but not write
const policyB = `
node_prefix "bad" { policy = "deny" }
service_prefix "bad" { policy = "deny" intentions = "deny" }
session_prefix "bad" { policy = "deny" }
key_prefix "bad" { policy = "deny" }
query_prefix "bad" { policy = "deny" }
acl = "read"
`

func randomPolicy(rng *rand.Rand) (string, string) {
	var b strings.Builder
	levels := []string{"read", "read", "write", "deny"}
	rule := func(kind string, names []string) {
		k := rng.Intn(4)
		seen := map[string]bool{}
		for i := 0; i < k; i++ {
			name := names[rng.Intn(len(names))]
			pre := rng.Intn(3) == 0
			if pre {
				name = name[:rng.Intn(len(name)+1)]
			}
			key := fmt.Sprint(pre, name)
			if seen[key] {
				continue
			}
			seen[key] = true
			kw := kind
			if pre {
				kw += "_prefix"
			}
			extra := ""
			if kind == "service" && rng.Intn(3) == 0 {
				extra = fmt.Sprintf(" intentions = %q", levels[rng.Intn(len(levels))])
			}
			fmt.Fprintf(&b, "%s %q { policy = %q%s }\n", kw, name, levels[rng.Intn(len(levels))], extra)
		}
	}
	withBad := func(l []string) []string { return append(append([]string{}, l...), badName, goodNames[0]) }
	rule("node", withBad(nodeNames))
	rule("service", withBad(append(append([]string{}, svcNames...), "i-1")))
	rule("session", withBad(nodeNames))
	rule("key", withBad(keyNames))
	rule("query", withBad(queryNames))
	switch rng.Intn(4) {
	case 0:
		b.WriteString("acl = \"read\"\n")
	case 1:
		b.WriteString("acl = \"write\"\n")
	case 2:
		b.WriteString("acl = \"deny\"\n")
	}
	d := "deny"
	if rng.Intn(3) == 0 {
		d = "allow"
	}
	return b.String(), d
}

// ---- generator context -------------------------------------------------------------------
type G struct {
	rng    *rand.Rand
	mode   string // exh | inner | rand | malformed
	n      int
	mask   int
	nextID int
	flagIn *bool // when set: the flag(s) the response carries on entry
	peers  bool  // arrangement modes: give elements a peer name half of the time
}

func (g *G) id() int { g.nextID++; return g.nextID }

// want(i): in the arrangement modes, whether element i is meant to be readable
func (g *G) want(i int) *bool {
	if g.mode == "exh" {
		b := g.mask&(1<<uint(i)) != 0
		return &b
	}
	return nil
}
func (g *G) coin(p float64) bool { return g.rng.Float64() < p }
func (g *G) pick(l []string) string { return l[g.rng.Intn(len(l))] }
func (g *G) malformed() bool        { return g.mode == "malformed" }

// a name for one ACL dimension: readable / unreadable as wanted, else from the universe
func (g *G) name(w *bool, universe []string) string {
	if w == nil {
		if g.malformed() && g.coin(0.15) {
			return ""
		}
		if g.coin(0.15) {
			return badName
		}
		if g.coin(0.1) {
			return g.pick(goodNames)
		}
		return g.pick(universe)
	}
	if *w {
		return g.pick(goodNames)
	}
	return g.pick(badNames)
}

// distinct: a name of the same kind (readable / unreadable / any) that is not used yet
func (g *G) distinct(w *bool, universe []string, used map[string]bool) string {
	for tries := 0; tries < 200; tries++ {
		n := g.name(w, universe)
		if !used[n] {
			used[n] = true
			return n
		}
	}
	for _, n := range allNames {
		if !used[n] {
			used[n] = true
			return n
		}
	}
	panic("name universe exhausted")
}

// split a wanted readability over two ACL dimensions (node and service)
func (g *G) split(w *bool) (*bool, *bool) {
	if w == nil {
		return nil, nil
	}
	t, f := true, false
	if *w {
		return &t, &t
	}
	switch g.rng.Intn(3) {
	case 0:
		return &f, &t
	case 1:
		return &t, &f
	}
	return &f, &f
}

func (g *G) peer(w *bool) string {
	if w != nil || g.mode == "inner" {
		if g.peers && g.coin(0.5) {
			return "peer1" // imported elements are decided wholesale (the oracle recomputes; the mask is a hint)
		}
		return "" // the arrangement policies decide by name
	}
	if g.coin(0.2) {
		return "peer1"
	}
	return ""
}

// inner(i): wanted readability of inner element i of the first node in mode "inner"
func (g *G) inner(i int) *bool {
	if g.mode == "inner" {
		b := g.mask&(1<<uint(i)) != 0
		return &b
	}
	return nil
}

// ---- running one case -------------------------------------------------------------------
func findType(name string) *respType {
	for i := range respTypes {
		if respTypes[i].name == name {
			return &respTypes[i]
		}
	}
	return nil
}

var nullLogger = hclog.NewNullLogger()

func applyFilter(rt *respType, az acl.Authorizer, v any) (pan string) {
	defer func() {
		if r := recover(); r != nil {
			pan = fmt.Sprint(r)
		}
	}()
	if rt.apply != nil {
		rt.apply(az, v)
	} else {
		aclfilter.New(az, nullLogger).Filter(v)
	}
	return ""
}

// Opt: variations of a case beyond (type, mode, n, mask, seed, policy).
type Opt struct {
	Flag0 *bool `json:"flag0,omitempty"` // flag(s) on entry (nil: the generator decides)
	Peers bool  `json:"peers,omitempty"`
	Twice bool  `json:"twice,omitempty"` // filter, refill the SAME object from seed2, filter again
	Seed2 int64 `json:"seed2,omitempty"`
	Mask2 int   `json:"mask2,omitempty"`
}

// content fields of a response struct = everything except the query meta / flags
func copyContent(dst, src any) bool {
	d, s := reflect.ValueOf(dst), reflect.ValueOf(src)
	if d.Kind() != reflect.Ptr || d.Elem().Kind() != reflect.Struct {
		return false
	}
	d, s = d.Elem(), s.Elem()
	for i := 0; i < d.NumField(); i++ {
		name := d.Type().Field(i).Name
		if name == "QueryMeta" || name == "FilteredByACLs" {
			continue
		}
		d.Field(i).Set(s.Field(i))
	}
	return true
}

// copyFlags: the flags of src (as left by a previous filter run) onto dst
func copyFlags(dst, src any) {
	d, s := reflect.ValueOf(dst).Elem(), reflect.ValueOf(src).Elem()
	for i := 0; i < d.NumField(); i++ {
		name := d.Type().Field(i).Name
		if name == "QueryMeta" || name == "FilteredByACLs" {
			d.Field(i).Set(s.Field(i))
		}
	}
}

// runFilterCase regenerates the response twice from the sub-seed (one copy is filtered, the
// other stays pristine for the oracle), filters, and records terms + oracle verdict.
// With opt.Twice the object is first filtered with content from (seed, mask), then refilled
// with the content generated from (seed2, mask2) — keeping its query meta, as a blocking query
// that re-runs on the same reply does — and filtered again; the recorded case is the second run.
func runFilterCase(rt *respType, mode string, n, mask int, seed int64, policy, deflt string, opt Opt) *Case {
	az := mkAuthorizer(policy, deflt)
	mkFrom := func(sd int64, mk int, f0 *bool) any {
		g := &G{rng: rand.New(rand.NewSource(sd)), mode: mode, n: n, mask: mk, flagIn: f0, peers: opt.Peers}
		return rt.gen(g)
	}
	c := &Case{Kind: "filter", Type: rt.name, Mode: mode, N: n, Mask: mask, Seed: seed,
		Policy: policy, Deflt: deflt, Az: tabulate(az), Opt: opt}
	var pristine, v any
	if opt.Twice {
		v = mkFrom(seed, mask, opt.Flag0)
		if p := applyFilter(rt, az, v); p != "" {
			c.Panic, c.Oracle, c.Sig = p, "panic: "+p, map[string]any{"kind": "panic", "type": rt.name}
			return c
		}
		pristine = mkFrom(opt.Seed2, opt.Mask2, nil)
		if !copyContent(v, mkFrom(opt.Seed2, opt.Mask2, nil)) {
			panic("twice: not a struct response: " + rt.name)
		}
		copyFlags(pristine, v) // what the second run finds on entry
	} else {
		pristine = mkFrom(seed, mask, opt.Flag0)
		v = mkFrom(seed, mask, opt.Flag0)
	}
	c.In = rt.term(pristine)
	c.Panic = applyFilter(rt, az, v)
	if c.Panic != "" {
		c.Oracle = "panic: " + c.Panic
		c.Sig = map[string]any{"kind": "panic", "type": rt.name}
		return c
	}
	c.Out = rt.term(v)
	or := &orc{az: az, typ: rt.name}
	rt.oracle(or, pristine, v)
	if len(or.fail) > 0 {
		c.Oracle = strings.Join(or.fail, "; ")
		c.Sig = map[string]any{"kind": or.kinds[0], "type": rt.name}
		for k, v := range or.extra {
			c.Sig[k] = v
		}
	}
	return c
}

// hasFlag: the response type carries QueryMeta.ResultsFilteredByACLs
func hasFlag(rt *respType) bool {
	v := reflect.ValueOf(rt.gen(&G{rng: rand.New(rand.NewSource(1)), mode: "exh"}))
	if v.Kind() != reflect.Ptr || v.Elem().Kind() != reflect.Struct {
		return false
	}
	_, ok := v.Elem().Type().FieldByName("QueryMeta")
	return ok
}

func genFilterCases(rng *rand.Rand, tier string, emit func(*Case)) {
	maxN := 5
	randPer := 30
	innerN := 3
	if tier == "thorough" {
		randPer = 250
		innerN = 4
	}
	tr, fl := true, false
	for i := range respTypes {
		rt := &respTypes[i]
		flagged := hasFlag(rt)
		reps := 1
		if rt.mapOrder {
			reps = 4 // the branch iterates a Go map: repeat so that several iteration orders are met
		}
		// exhaustive arrangements: n <= 5 elements, every readable/unreadable pattern
		for n := 0; n <= maxN; n++ {
			masks := 1 << uint(n)
			if rt.noArrangement {
				masks = 1
			}
			for mask := 0; mask < masks; mask++ {
				pols := []struct{ p, d string }{{policyA, "deny"}, {policyB, "allow"}}
				if rt.noArrangement { // all-or-nothing types: vary acl read / write instead of the arrangement
					pols = append(pols, struct{ p, d string }{"acl = \"write\"\nquery_prefix \"\" { policy = \"read\" }\n", "deny"},
						struct{ p, d string }{"query_prefix \"\" { policy = \"read\" }\n", "deny"})
				}
				for pi, pol := range pols {
					if pi == 1 && tier != "thorough" && n > 3 && !rt.noArrangement {
						continue
					}
					for r := 0; r < reps; r++ {
						emit(runFilterCase(rt, "exh", n, mask, rng.Int63(), pol.p, pol.d, Opt{Flag0: &fl}))
					}
					if !flagged {
						continue
					}
					// the same arrangement with the flag already set on entry (reply reused by a blocking query)
					if pi == 0 || tier == "thorough" {
						for r := 0; r < (reps+1)/2; r++ {
							emit(runFilterCase(rt, "exh", n, mask, rng.Int63(), pol.p, pol.d, Opt{Flag0: &tr}))
						}
					}
				}
				if !rt.noArrangement && (n <= 3 || tier == "thorough") {
					// elements imported from a peer mixed in; and the same object filtered twice
					emit(runFilterCase(rt, "exh", n, mask, rng.Int63(), policyA, "deny", Opt{Flag0: &fl, Peers: true}))
					emit(runFilterCase(rt, "exh", n, mask, rng.Int63(), policyB, "allow", Opt{Flag0: &fl, Peers: true}))
					if flagged {
						emit(runFilterCase(rt, "exh", n, rng.Intn(masks), rng.Int63(), policyA, "deny",
							Opt{Flag0: &fl, Twice: true, Seed2: rng.Int63(), Mask2: mask}))
					}
				}
			}
		}
		// nested arrangements (types with inner lists)
		if rt.nested {
			for n := 0; n <= innerN; n++ {
				// 2n bits: bit j = service j readable, bit n+j = check j readable
				for mask := 0; mask < 1<<uint(2*n); mask++ {
					emit(runFilterCase(rt, "inner", n, mask, rng.Int63(), policyA, "deny", Opt{}))
				}
			}
		}
	}
	// random policies, names, peers, initial flags; 0..6 elements; and the malformed stream
	// (nil members, empty names).  Grouped by policy so that a case shard needs few tables.
	for k := 0; k < randPer; k++ {
		p, d := randomPolicy(rng)
		if k%10 == 9 {
			p, d = "", "manage" // acl.ManageAll(): nothing may be removed, no secret hidden
		}
		for i := range respTypes {
			rt := &respTypes[i]
			reps := 1
			if rt.mapOrder {
				reps = 3
			}
			for r := 0; r < reps; r++ {
				emit(runFilterCase(rt, "rand", rng.Intn(7), 0, rng.Int63(), p, d, Opt{}))
			}
			if k%3 == 0 {
				emit(runFilterCase(rt, "malformed", rng.Intn(7), 0, rng.Int63(), p, d, Opt{}))
			}
		}
	}
}

// ---- oracle plumbing ----------------------------------------------------------------------
type orc struct {
	az    acl.Authorizer
	typ   string
	fail  []string
	kinds []string
	extra map[string]any
}

func (o *orc) bad(kind, format string, a ...any) {
	o.kinds = append(o.kinds, kind)
	o.fail = append(o.fail, kind+": "+fmt.Sprintf(format, a...))
}
func (o *orc) set(k string, v any) {
	if o.extra == nil {
		o.extra = map[string]any{}
	}
	o.extra[k] = v
}

func (o *orc) nodeRead(peer, name string) bool {
	return o.az.NodeRead(name, &acl.AuthorizerContext{Peer: peer}) == acl.Allow
}
func (o *orc) serviceRead(peer, name string) bool {
	return o.az.ServiceRead(name, &acl.AuthorizerContext{Peer: peer}) == acl.Allow
}

// a service dimension that may be absent (node-level check): no service, no service ACL
func (o *orc) serviceReadOpt(peer, name string) bool {
	return name == "" || o.serviceRead(peer, name)
}

// checkList: out must be exactly the readable elements of in, same order, same multiplicity.
// Returns whether anything was removed.
func checkList[E any](o *orc, what string, in, out []E, id func(E) string, readable func(E) bool) bool {
	var want []string
	removed := false
	for _, e := range in {
		if readable(e) {
			want = append(want, id(e))
		} else {
			removed = true
		}
	}
	var got []string
	for _, e := range out {
		got = append(got, id(e))
		if !readable(e) {
			o.bad("unreadable-returned", "%s: element %s is in the result but may not be read", what, id(e))
		}
	}
	if strings.Join(want, ",") != strings.Join(got, ",") {
		gotSet := map[string]int{}
		for _, s := range got {
			gotSet[s]++
		}
		missing := false
		for _, s := range want {
			if gotSet[s] == 0 {
				missing = true
			}
			gotSet[s]--
		}
		if missing {
			o.bad("readable-dropped", "%s: readable elements [%s] expected, got [%s]", what, strings.Join(want, ","), strings.Join(got, ","))
		} else if len(o.fail) == 0 {
			o.bad("order-or-multiplicity", "%s: expected [%s], got [%s]", what, strings.Join(want, ","), strings.Join(got, ","))
		}
	}
	return removed
}

// checkFlag: after the filter the flag must say exactly whether THIS run removed something —
// also when the response came in with the flag already set (a blocking query re-runs its
// function on the same reply object, so a flag left over from an earlier run is observable).
func (o *orc) checkFlag(f0, f, removed bool) {
	if f == removed {
		return
	}
	if f0 && f && !removed {
		o.bad("stale-flag", "ResultsFilteredByACLs stays true from an earlier run although this run removed nothing")
		return
	}
	o.bad("flag", "ResultsFilteredByACLs=%v but removed=%v (flag on entry %v)", f, removed, f0)
	o.set("flag", f)
}

var _ = consul.FilterDirEnt
var _ structs.QueryMeta
