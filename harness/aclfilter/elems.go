package main

import (
	"fmt"
	"strconv"
	"strings"

	"github.com/hashicorp/consul/acl"
	"github.com/hashicorp/consul/agent/structs"
	"github.com/hashicorp/consul/types"
)

// Element generators (real consul structs), their Coq terms, their identifiers and the
// oracle's statement of "the token may read this element".  The identifier of an element is
// stored in a field no filter looks at.

func atoi(s string) int {
	n, err := strconv.Atoi(strings.TrimLeft(s, "ci"))
	if err != nil {
		return -1
	}
	return n
}
func nameIndex(name string) int {
	for i, n := range allNames {
		if n == name {
			return i
		}
	}
	return 999
}

// ---- HealthCheck ----
func (g *G) hc(w *bool, node string) *structs.HealthCheck {
	nw, sw := g.split(w)
	if node != "" { // inside a NodeInfo: the node is given, only the service dimension varies
		nw, sw = nil, w
	}
	c := &structs.HealthCheck{CheckID: types.CheckID(fmt.Sprintf("c%d", g.id())), PeerName: g.peer(w)}
	if node != "" {
		c.Node = node
	} else {
		c.Node = g.name(nw, nodeNames)
	}
	if (sw == nil || *sw) && g.coin(0.3) {
		c.ServiceName = "" // node-level check
	} else {
		c.ServiceName = g.name(sw, svcNames)
	}
	return c
}
func termHC(c *structs.HealthCheck) T {
	return C("HC", atoi(string(c.CheckID)), c.Node, c.ServiceName, c.PeerName)
}
func idHC(c *structs.HealthCheck) string { return string(c.CheckID) }
func (o *orc) readHC(c *structs.HealthCheck) bool {
	return o.nodeRead(c.PeerName, c.Node) && o.serviceReadOpt(c.PeerName, c.ServiceName)
}

// ---- ServiceNode ----
func (g *G) snode(w *bool) *structs.ServiceNode {
	nw, sw := g.split(w)
	return &structs.ServiceNode{Node: g.name(nw, nodeNames), ServiceID: fmt.Sprintf("i%d", g.id()),
		ServiceName: g.name(sw, svcNames), PeerName: g.peer(w)}
}
func termSN(s *structs.ServiceNode) T {
	return C("SN", atoi(s.ServiceID), s.Node, s.ServiceName, s.PeerName)
}
func idSN(s *structs.ServiceNode) string { return s.ServiceID }
func (o *orc) readSN(s *structs.ServiceNode) bool {
	return o.nodeRead(s.PeerName, s.Node) && o.serviceReadOpt(s.PeerName, s.ServiceName)
}

// ---- NodeService (ID = key of NodeServices.Services; Port carries the identifier) ----
func (g *G) nsvc(w *bool, distinctKeys map[string]bool) *structs.NodeService {
	s := &structs.NodeService{Service: g.name(w, svcNames), Port: g.id(), PeerName: g.peer(w)}
	s.ID = s.Service
	if w == nil && g.coin(0.4) {
		s.ID = g.pick([]string{"i-1", "i-2", "web", "api", "web-1"})
	}
	if distinctKeys != nil {
		for distinctKeys[s.ID] {
			s.ID += "x"
		}
		distinctKeys[s.ID] = true
	}
	return s
}
func termNS(s *structs.NodeService) T { return C("NS", s.Port, s.ID, s.Service, s.PeerName) }
func idNS(s *structs.NodeService) string { return strconv.Itoa(s.Port) }

// ---- Node ----
func (g *G) node(w *bool) *structs.Node {
	return &structs.Node{Node: g.name(w, nodeNames), Address: strconv.Itoa(g.id()), PeerName: g.peer(w)}
}
func termND(n *structs.Node) T       { return C("ND", atoi(n.Address), n.Node, n.PeerName) }
func idND(n *structs.Node) string    { return n.Address }
func (o *orc) readND(n *structs.Node) bool { return o.nodeRead(n.PeerName, n.Node) }

// ---- CheckServiceNode (identifier in Checks[0].CheckID) ----
func (g *G) csn(w *bool) structs.CheckServiceNode {
	nw, sw := g.split(w)
	c := structs.CheckServiceNode{
		Node:    &structs.Node{Node: g.name(nw, nodeNames)},
		Service: &structs.NodeService{Service: g.name(sw, svcNames), PeerName: g.peer(w)},
		Checks:  structs.HealthChecks{{CheckID: types.CheckID(fmt.Sprintf("c%d", g.id()))}},
	}
	c.Service.ID = c.Service.Service
	c.Node.PeerName = c.Service.PeerName
	return c
}
func (g *G) csns(n int, off int) structs.CheckServiceNodes {
	l := make(structs.CheckServiceNodes, 0, n)
	for i := 0; i < n; i++ {
		l = append(l, g.csn(g.want(off+i)))
	}
	return l
}
func termCSN(c structs.CheckServiceNode) T {
	return C("CSN", atoi(string(c.Checks[0].CheckID)), c.Node.Node, c.Service.Service, c.Service.PeerName)
}
func termCSNs(l structs.CheckServiceNodes) T { return list(l, termCSN) }
func idCSN(c structs.CheckServiceNode) string  { return string(c.Checks[0].CheckID) }
func (o *orc) readCSN(c structs.CheckServiceNode) bool {
	if c.Node == nil || c.Service == nil {
		return false // nothing to authorize against: must not be returned
	}
	return o.nodeRead(c.Service.PeerName, c.Node.Node) && o.serviceRead(c.Service.PeerName, c.Service.Service)
}
func (o *orc) checkCSNs(what string, in, out structs.CheckServiceNodes) bool {
	return checkList(o, what, in, out, idCSN, o.readCSN)
}

// ---- Coordinate / Session ----
func (g *G) coord(w *bool) *structs.Coordinate {
	return &structs.Coordinate{Node: g.name(w, nodeNames), Segment: strconv.Itoa(g.id())}
}
func (g *G) session(w *bool) *structs.Session {
	return &structs.Session{ID: strconv.Itoa(g.id()), Node: g.name(w, nodeNames)}
}

// ---- Intention ----
func (g *G) intention(w *bool) *structs.Intention {
	x := &structs.Intention{ID: strconv.Itoa(g.id())}
	t, f := true, false
	switch {
	case w == nil:
		x.SourceName, x.DestinationName = g.name(nil, svcNames), g.name(nil, svcNames)
		if g.coin(0.2) {
			x.SourcePeer = "peer1"
		}
		if g.coin(0.1) {
			x.SourceName = ""
		}
		if g.coin(0.1) {
			x.DestinationName = ""
		}
	case *w:
		if g.coin(0.5) {
			x.SourceName, x.DestinationName = g.name(&t, nil), g.name(nil, svcNames)
		} else {
			x.SourceName, x.DestinationName = g.name(nil, svcNames), g.name(&t, nil)
			if g.coin(0.3) {
				x.SourcePeer = "peer1"
			}
		}
	default:
		x.SourceName, x.DestinationName = g.name(&f, nil), g.name(&f, nil)
		switch g.rng.Intn(3) {
		case 0:
			x.SourceName, x.SourcePeer = g.name(&t, nil), "peer1" // readable name, but a peer source is not authorized locally
		case 1:
			x.DestinationName = ""
		}
	}
	return x
}
func termIX(x *structs.Intention) T {
	return C("IX", atoi(x.ID), x.SourceName, x.SourcePeer, x.DestinationName)
}
func (o *orc) intentionRead(name string) bool {
	return o.az.IntentionRead(name, nil) == acl.Allow
}
func (o *orc) readIX(x *structs.Intention) bool {
	// read access on either end; a source in a peer is not a local name
	if x.SourceName != "" && x.SourcePeer == "" && o.intentionRead(x.SourceName) {
		return true
	}
	return x.DestinationName != "" && o.intentionRead(x.DestinationName)
}

// ---- PreparedQuery ----
func (g *G) pquery(w *bool) *structs.PreparedQuery {
	q := &structs.PreparedQuery{ID: strconv.Itoa(g.id())}
	if g.coin(0.6) {
		q.Token = g.pick([]string{"secret-1", "secret-2"})
	}
	switch {
	case w == nil:
		q.Name = g.name(nil, queryNames)
		if g.coin(0.25) {
			q.Name = ""
		}
		if g.coin(0.2) {
			q.Template.Type = structs.QueryTemplateTypeNamePrefixMatch
		}
	case *w:
		q.Name = g.name(w, nil)
	default:
		if g.coin(0.5) {
			q.Name = badName
		} // else: unnamed, untemplated
	}
	return q
}
func termPQ(q *structs.PreparedQuery) T {
	return C("PQ", atoi(q.ID), q.Name, q.Template.Type != "", q.Token)
}

// ---- ServiceName / GatewayService / ServiceInfo ----
func (g *G) svcname(w *bool) structs.ServiceName { return structs.ServiceName{Name: g.name(w, svcNames)} }
func termSV(s structs.ServiceName) T           { return C("SV", nameIndex(s.Name), s.Name) }
func idSV(s structs.ServiceName) string        { return s.Name }
func (o *orc) readSV(s structs.ServiceName) bool { return o.serviceRead("", s.Name) }

func (g *G) gwsvc(w *bool) *structs.GatewayService {
	return &structs.GatewayService{Gateway: structs.ServiceName{Name: g.name(nil, svcNames)},
		Service: structs.ServiceName{Name: g.name(w, svcNames)}, Port: g.id()}
}
func termGS(s *structs.GatewayService) T    { return C("GS", s.Port, s.Gateway.Name, s.Service.Name) }
func idGS(s *structs.GatewayService) string { return strconv.Itoa(s.Port) }

// GatewayServices listing: read on the linked service (the gateway is checked by the endpoint)
func (o *orc) readGS(s *structs.GatewayService) bool { return o.serviceRead("", s.Service.Name) }

func (g *G) svcinfo(w *bool) *structs.ServiceInfo {
	t, f := true, false
	gw, sv, nd := w, w, w
	if w != nil && !*w {
		gw, sv, nd = &t, &t, &t
		switch g.rng.Intn(3) {
		case 0:
			gw = &f
		case 1:
			sv = &f
		default:
			nd = &f
		}
	}
	si := &structs.ServiceInfo{GatewayService: &structs.GatewayService{
		Gateway: structs.ServiceName{Name: g.name(gw, svcNames)},
		Service: structs.ServiceName{Name: g.name(sv, svcNames)}, Port: g.id()}}
	if g.coin(0.75) || (nd != nil && !*nd) {
		si.Node = &structs.Node{Node: g.name(nd, nodeNames)}
		si.Service = &structs.NodeService{Service: si.GatewayService.Service.Name, PeerName: g.peer(w)}
	}
	return si
}
func termSI(s *structs.ServiceInfo) T {
	var n T
	if s.Node != nil {
		n = some(pair(s.Node.Node, s.Service.PeerName))
	}
	return C("SI", s.GatewayService.Port, s.GatewayService.Gateway.Name, s.GatewayService.Service.Name, n)
}
func idSI(s *structs.ServiceInfo) string { return strconv.Itoa(s.GatewayService.Port) }
func (o *orc) readSI(s *structs.ServiceInfo) bool {
	if !o.serviceReadOpt("", s.GatewayService.Gateway.Name) || !o.serviceReadOpt("", s.GatewayService.Service.Name) {
		return false
	}
	return s.Node == nil || o.nodeRead(s.Service.PeerName, s.Node.Node)
}

// ---- NodeInfo ----
func (g *G) nodeinfo(w *bool, first bool) *structs.NodeInfo {
	ni := &structs.NodeInfo{Node: g.name(w, nodeNames), Address: strconv.Itoa(g.id()), PeerName: g.peer(w)}
	ns, nc := g.rng.Intn(4), g.rng.Intn(4)
	if g.mode == "inner" && first {
		ns, nc = g.n, g.n
	}
	for j := 0; j < ns; j++ {
		var iw *bool
		if g.mode == "inner" && first {
			iw = g.inner(j)
		} else if g.mode == "exh" {
			b := g.coin(0.5)
			iw = &b
		}
		s := g.nsvc(iw, nil)
		s.PeerName = ni.PeerName
		if g.malformed() && g.coin(0.2) {
			s.PeerName = "peer1"
		}
		ni.Services = append(ni.Services, s)
	}
	for j := 0; j < nc; j++ {
		var iw *bool
		if g.mode == "inner" && first {
			iw = g.inner(g.n + j)
		} else if g.mode == "exh" {
			b := g.coin(0.5)
			iw = &b
		}
		c := g.hc(iw, ni.Node)
		c.PeerName = ni.PeerName
		ni.Checks = append(ni.Checks, c)
	}
	return ni
}
func (g *G) nodedump(n, off int) structs.NodeDump {
	l := make(structs.NodeDump, 0, n)
	for i := 0; i < n; i++ {
		w := g.want(off + i)
		if g.mode == "inner" {
			t := g.n == 0 || !g.coin(0.15) // the node carrying the arrangement is sometimes unreadable itself
			w = &t
		}
		l = append(l, g.nodeinfo(w, off+i == 0))
	}
	return l
}
func termNI(n *structs.NodeInfo) T {
	return C("NI", atoi(n.Address), n.Node, n.PeerName, list(n.Services, termNS), list([]*structs.HealthCheck(n.Checks), termHC))
}
func (o *orc) checkDump(what string, in, out structs.NodeDump) bool {
	removed := checkList(o, what, in, out, func(n *structs.NodeInfo) string { return n.Address },
		func(n *structs.NodeInfo) bool { return o.nodeRead(n.PeerName, n.Node) })
	byID := map[string]*structs.NodeInfo{}
	for _, n := range in {
		byID[n.Address] = n
	}
	for _, n := range out {
		orig := byID[n.Address]
		if orig == nil {
			continue
		}
		if checkList(o, what+".Services", orig.Services, n.Services, idNS, func(s *structs.NodeService) bool {
			return o.nodeRead(s.PeerName, orig.Node) && o.serviceReadOpt(s.PeerName, s.Service)
		}) {
			removed = true
		}
		if checkList(o, what+".Checks", []*structs.HealthCheck(orig.Checks), []*structs.HealthCheck(n.Checks), idHC, func(c *structs.HealthCheck) bool {
			return o.nodeRead(c.PeerName, orig.Node) && o.serviceReadOpt(c.PeerName, c.ServiceName)
		}) {
			removed = true
		}
	}
	return removed
}
