package main

// Part 3: the real read endpoints on a reduced Server (hook VerifC09NewServer): real
// blockingquery.Query loop, real Server.SetQueryMeta / maskResultsFilteredByACLs, real
// Server.filterACL / ResolveTokenAndDefaultMeta over a real ACLResolver (ACLs enabled).
// What is filtered here is what a client of the RPC would receive, including what happens
// when the query function RE-RUNS on the same reply object after a blocked wait, and when the
// token expires while the query blocks.

import (
	"context"
	"fmt"
	"math/rand"
	"sort"
	"strings"
	"sync"
	"time"

	"github.com/hashicorp/consul/acl"
	"github.com/hashicorp/consul/agent/consul"
	"github.com/hashicorp/consul/agent/structs"
	"github.com/hashicorp/consul/proto/private/pbpeering"
)

type EndpointCase struct {
	Scenario string         `json:"scenario"`
	Endpoint string         `json:"endpoint"`
	Style    string         `json:"style,omitempty"` // held | reresolve (how the endpoint obtains the authorizer of a re-run)
	Observed map[string]any `json:"observed"`
	// for the model of blocking queries (Coq): token expiration, time of the resolution before the
	// loop, times of the runs of the query function, what authorized the last run
	Exp      int64   `json:"exp,omitempty"`
	Resolve  int64   `json:"resolve,omitempty"`
	Runs     []int64 `json:"runs,omitempty"`
	LastAuth string  `json:"last_auth,omitempty"` // token | refused
	// for the model of the flag mask
	Mask *MaskObs `json:"mask,omitempty"`
}

type MaskObs struct {
	Blank     bool `json:"blank"`     // request token ""
	ResolveOK bool `json:"resolve"`   // resolveIdentityFromToken succeeds
	Anonymous bool `json:"anonymous"` // the identity is the anonymous token
	Removed   bool `json:"removed"`   // the filter removed something
	Flag      bool `json:"flag"`      // flag in the reply
}

// ---- a backend that resolves locally from maps (like a server in the primary datacenter, but
// without the server's own expiry test: the resolver must not depend on it)
type mapBackend struct {
	mu       sync.Mutex
	tokens   map[string]*structs.ACLToken
	policies map[string]*structs.ACLPolicy
}

func (b *mapBackend) ACLDatacenter() string                 { return "dc1" }
func (b *mapBackend) IsServerManagementToken(string) bool   { return false }
func (b *mapBackend) ResolveIdentityFromToken(s string) (bool, structs.ACLIdentity, error) {
	b.mu.Lock()
	defer b.mu.Unlock()
	if t := b.tokens[s]; t != nil {
		return true, t, nil
	}
	return true, nil, acl.ErrNotFound
}
func (b *mapBackend) ResolvePolicyFromID(id string) (bool, *structs.ACLPolicy, error) {
	b.mu.Lock()
	defer b.mu.Unlock()
	if p := b.policies[id]; p != nil {
		return true, p, nil
	}
	return true, nil, acl.ErrNotFound
}
func (b *mapBackend) ResolveRoleFromID(string) (bool, *structs.ACLRole, error) {
	return true, nil, acl.ErrNotFound
}
func (b *mapBackend) RPC(context.Context, string, interface{}, interface{}) error {
	return fmt.Errorf("no RPC in this backend")
}

func (b *mapBackend) addToken(secret, accessor, rules string, exp *time.Time) {
	b.mu.Lock()
	defer b.mu.Unlock()
	if b.tokens == nil {
		b.tokens, b.policies = map[string]*structs.ACLToken{}, map[string]*structs.ACLPolicy{}
	}
	pid := "pol-" + accessor
	p := &structs.ACLPolicy{ID: pid, Name: pid, Rules: rules}
	p.SetHash(true)
	b.policies[pid] = p
	b.tokens[secret] = &structs.ACLToken{AccessorID: accessor, SecretID: secret, ExpirationTime: exp,
		Policies: []structs.ACLTokenPolicyLink{{ID: pid}}}
}

type epEnv struct {
	v   *consul.VerifC09Server
	b   *mapBackend
	idx uint64
}

func newEpEnv() *epEnv {
	b := &mapBackend{}
	v, err := consul.VerifC09NewServer(b, time.Hour, "extend-cache")
	if err != nil {
		panic(err)
	}
	return &epEnv{v: v, b: b, idx: 10}
}
func (e *epEnv) next() uint64 { e.idx++; return e.idx }
func (e *epEnv) must(err error) {
	if err != nil {
		panic(err)
	}
}
func (e *epEnv) node(name, peer string) {
	e.must(e.v.Store().EnsureRegistration(e.next(), &structs.RegisterRequest{Node: name, Address: "10.0.0.1", PeerName: peer}))
}
func (e *epEnv) service(node, name, id string) {
	e.must(e.v.Store().EnsureRegistration(e.next(), &structs.RegisterRequest{Node: node, Address: "10.0.0.1",
		Service: &structs.NodeService{ID: id, Service: name, Port: 80}}))
}

// blocked: start call (a blocking query at the current index), wait until it sits in the
// blocking loop, run trigger (a state change that wakes it), wait for the result.
func (e *epEnv) blocked(call func() error, beforeTrigger func(), trigger func()) (err error, ok bool) {
	before := e.v.Blocking()
	done := make(chan error, 1)
	go func() { done <- call() }()
	deadline := time.Now().Add(20 * time.Second)
	for e.v.Blocking() == before {
		select {
		case err := <-done:
			return err, false // returned without blocking
		default:
		}
		if time.Now().After(deadline) {
			return fmt.Errorf("query never blocked"), false
		}
		time.Sleep(time.Millisecond)
	}
	time.Sleep(20 * time.Millisecond) // the first run of the query function is over once the watch is armed
	if beforeTrigger != nil {
		beforeTrigger()
	}
	trigger()
	select {
	case err := <-done:
		return err, true
	case <-time.After(30 * time.Second):
		return fmt.Errorf("query did not return"), false
	}
}

func dumpNames(d structs.NodeDump) []string {
	var l []string
	for _, n := range d {
		l = append(l, n.Node)
	}
	return l
}

const rulesNoBad = `node_prefix "" { policy = "read" } node "bad" { policy = "deny" } service_prefix "" { policy = "read" }`
const rulesAll = `node_prefix "" { policy = "read" } service_prefix "" { policy = "read" } key_prefix "" { policy = "read" }`

// S1a: Internal.NodeDump, the unreadable node disappears while the query blocks: the re-run
// removes nothing, the flag must be clear.
func scenStaleFlag() *Case {
	e := newEpEnv()
	defer e.v.Close()
	e.b.addToken("tok", "acc-1", rulesNoBad, nil)
	e.node("n1", "")
	e.node("bad", "")
	var reply structs.IndexedNodeDump
	args := &structs.DCSpecificRequest{Datacenter: "dc1", QueryOptions: structs.QueryOptions{Token: "tok",
		MinQueryIndex: e.idx, MaxQueryTime: 20 * time.Second}}
	err, blocked := e.blocked(func() error { return e.v.Internal.NodeDump(args, &reply) }, nil, func() {
		e.must(e.v.Store().DeleteNode(e.next(), "bad", nil, ""))
	})
	ec := &EndpointCase{Scenario: "rerun-after-unreadable-node-deleted", Endpoint: "Internal.NodeDump",
		Observed: map[string]any{"err": fmt.Sprint(err), "blocked": blocked, "dump": dumpNames(reply.Dump),
			"flag": reply.ResultsFilteredByACLs, "index": reply.Index}}
	c := &Case{Kind: "endpoint", Ep: ec}
	switch {
	case err != nil || !blocked:
		c.Mode = "inconclusive"
	case strings.Join(dumpNames(reply.Dump), ",") != "n1":
		c.Oracle = fmt.Sprintf("endpoint-content: expected [n1], got %v", dumpNames(reply.Dump))
		c.Sig = map[string]any{"kind": "endpoint-content", "endpoint": ec.Endpoint}
	case reply.ResultsFilteredByACLs:
		// the state holds nothing the token may not read any more: the run that produced this reply removed nothing
		c.Oracle = "stale-flag: ResultsFilteredByACLs=true in a reply from which nothing was removed (set by an earlier run of the blocking query on the same reply)"
		c.Sig = map[string]any{"kind": "stale-flag", "endpoint": ec.Endpoint}
	}
	return c
}

// S1b: Internal.NodeDump with an imported node; any change re-runs the function, which appends
// the imported dump to the same reply again.
func scenImportedTwice() *Case {
	e := newEpEnv()
	defer e.v.Close()
	e.b.addToken("tok", "acc-1", rulesAll, nil)
	e.node("n1", "")
	e.must(e.v.Store().PeeringWrite(e.next(), &pbpeering.PeeringWriteRequest{Peering: &pbpeering.Peering{
		ID: "9e650110-ac74-4c5a-a6a8-9348b2bed4e9", Name: "peer1", State: pbpeering.PeeringState_ACTIVE}}))
	e.node("imp1", "peer1")
	var reply structs.IndexedNodeDump
	args := &structs.DCSpecificRequest{Datacenter: "dc1", QueryOptions: structs.QueryOptions{Token: "tok",
		MinQueryIndex: e.idx, MaxQueryTime: 20 * time.Second}}
	err, blocked := e.blocked(func() error { return e.v.Internal.NodeDump(args, &reply) }, nil, func() { e.node("n2", "") })
	imp := dumpNames(reply.ImportedDump)
	ec := &EndpointCase{Scenario: "rerun-imported-dump", Endpoint: "Internal.NodeDump",
		Observed: map[string]any{"err": fmt.Sprint(err), "blocked": blocked, "dump": dumpNames(reply.Dump), "imported": imp}}
	c := &Case{Kind: "endpoint", Ep: ec}
	switch {
	case err != nil || !blocked:
		c.Mode = "inconclusive"
	case len(imp) == 0:
		c.Oracle = "endpoint-content: imported node missing"
		c.Sig = map[string]any{"kind": "endpoint-content", "endpoint": ec.Endpoint}
	case len(imp) != 1:
		// one imported node exists; readable elements are returned with their multiplicity
		c.Oracle = fmt.Sprintf("duplicated-elements: ImportedDump=%v for one imported node (appended again by the re-run on the same reply)", imp)
		c.Sig = map[string]any{"kind": "duplicated-elements", "endpoint": ec.Endpoint, "field": "ImportedDump"}
	}
	return c
}

// S1c: the same for Internal.ServiceDump (ImportedNodes).
func scenImportedNodesTwice() *Case {
	e := newEpEnv()
	defer e.v.Close()
	e.b.addToken("tok", "acc-1", rulesAll, nil)
	e.service("n1", "web", "web-1")
	e.must(e.v.Store().PeeringWrite(e.next(), &pbpeering.PeeringWriteRequest{Peering: &pbpeering.Peering{
		ID: "9e650110-ac74-4c5a-a6a8-9348b2bed4e9", Name: "peer1", State: pbpeering.PeeringState_ACTIVE}}))
	e.must(e.v.Store().EnsureRegistration(e.next(), &structs.RegisterRequest{Node: "imp1", Address: "10.0.0.2", PeerName: "peer1",
		Service: &structs.NodeService{ID: "db-1", Service: "db", Port: 1, PeerName: "peer1"}}))
	var reply structs.IndexedNodesWithGateways
	args := &structs.ServiceDumpRequest{Datacenter: "dc1", QueryOptions: structs.QueryOptions{Token: "tok",
		MinQueryIndex: e.idx, MaxQueryTime: 20 * time.Second}}
	err, blocked := e.blocked(func() error { return e.v.Internal.ServiceDump(args, &reply) }, nil, func() { e.service("n1", "api", "api-1") })
	var imp []string
	for _, n := range reply.ImportedNodes {
		imp = append(imp, n.Service.ID)
	}
	ec := &EndpointCase{Scenario: "rerun-imported-nodes", Endpoint: "Internal.ServiceDump",
		Observed: map[string]any{"err": fmt.Sprint(err), "blocked": blocked, "imported": imp, "nodes": len(reply.Nodes)}}
	c := &Case{Kind: "endpoint", Ep: ec}
	switch {
	case err != nil || !blocked:
		c.Mode = "inconclusive"
	case len(imp) == 0:
		c.Oracle = "endpoint-content: imported service instance missing"
		c.Sig = map[string]any{"kind": "endpoint-content", "endpoint": ec.Endpoint}
	case len(imp) != 1:
		c.Oracle = fmt.Sprintf("duplicated-elements: ImportedNodes=%v for one imported instance (appended again by the re-run on the same reply)", imp)
		c.Sig = map[string]any{"kind": "duplicated-elements", "endpoint": ec.Endpoint, "field": "ImportedNodes"}
	}
	return c
}

// S2: the token expires while the query blocks; a change then re-runs the query function.
// style "held": the endpoint resolved the token once and its closure keeps the authorizer;
// style "reresolve": the closure calls filterACL(token, ...), which resolves again.
func scenExpiryWhileBlocked(endpoint string, lifetime time.Duration) *Case {
	e := newEpEnv()
	defer e.v.Close()
	e.service("n1", "web", "web-1")
	e.must(e.v.Store().KVSSet(e.next(), &structs.DirEntry{Key: "a", Value: []byte("1")}))
	exp := time.Now().Add(lifetime)
	e.b.addToken("tok", "acc-1", rulesAll, &exp)
	q := structs.QueryOptions{Token: "tok", MinQueryIndex: e.idx, MaxQueryTime: 20 * time.Second}
	var call func() error
	var got func() []string
	style := "held"
	switch endpoint {
	case "Catalog.ListServices":
		var reply structs.IndexedServices
		call = func() error {
			return e.v.Catalog.ListServices(&structs.DCSpecificRequest{Datacenter: "dc1", QueryOptions: q}, &reply)
		}
		got = func() []string {
			var l []string
			for k := range reply.Services {
				l = append(l, k)
			}
			sort.Strings(l)
			return l
		}
	case "KVS.List":
		var reply structs.IndexedDirEntries
		call = func() error {
			return e.v.KVS.List(&structs.KeyRequest{Datacenter: "dc1", Key: "", QueryOptions: q}, &reply)
		}
		got = func() []string {
			var l []string
			for _, d := range reply.Entries {
				l = append(l, d.Key)
			}
			return l
		}
	case "Catalog.ListNodes":
		style = "reresolve"
		var reply structs.IndexedNodes
		call = func() error {
			return e.v.Catalog.ListNodes(&structs.DCSpecificRequest{Datacenter: "dc1", QueryOptions: q}, &reply)
		}
		got = func() []string {
			var l []string
			for _, n := range reply.Nodes {
				l = append(l, n.Node)
			}
			return l
		}
	default:
		panic(endpoint)
	}
	t0 := time.Now()
	var tTrig time.Time
	err, blocked := e.blocked(call, func() {
		if d := time.Until(exp.Add(100 * time.Millisecond)); d > 0 {
			time.Sleep(d)
		}
		tTrig = time.Now()
	}, func() {
		e.service("n1", "api", "api-1")
		e.must(e.v.Store().KVSSet(e.next(), &structs.DirEntry{Key: "b", Value: []byte("2")}))
		e.node("n2", "")
	})
	tEnd := time.Now()
	data := got()
	ec := &EndpointCase{Scenario: "token-expires-while-blocked", Endpoint: endpoint, Style: style,
		Observed: map[string]any{"err": fmt.Sprint(err), "blocked": blocked, "data": data,
			"returned_after_expiry_ms": tEnd.Sub(exp).Milliseconds()},
		Exp: ns(exp), Resolve: ns(t0), Runs: []int64{ns(t0), ns(tTrig)}}
	c := &Case{Kind: "endpoint", Ep: ec}
	switch {
	case !blocked || tTrig.Before(exp):
		c.Mode = "inconclusive"
	case err != nil && acl.IsErrNotFound(err):
		ec.LastAuth = "refused"
	case err != nil:
		c.Mode = "inconclusive"
	default:
		ec.LastAuth = "token"
		if len(data) > 0 {
			// the reply was computed by a run that started after the expiration time and contains
			// data that only the token's own policy makes readable (default policy is deny)
			c.Oracle = fmt.Sprintf("expired-token-honoured-in-blocking-query: %s returned %v computed %d ms after the token's expiration",
				endpoint, data, tTrig.Sub(exp).Milliseconds())
			c.Sig = map[string]any{"kind": "expired-token-honoured-in-blocking-query", "endpoint": endpoint, "authorizer": style}
		}
	}
	return c
}

// S3: maskResultsFilteredByACLs: the flag is blanked for a blank / anonymous request token and
// left alone otherwise.
func scenMask(secret string) *Case {
	e := newEpEnv()
	defer e.v.Close()
	e.b.addToken("tok", "acc-1", rulesNoBad, nil)
	e.b.addToken(acl.AnonymousTokenSecret, acl.AnonymousTokenID, rulesNoBad, nil)
	e.node("n1", "")
	e.node("bad", "")
	var reply structs.IndexedNodeDump
	args := &structs.DCSpecificRequest{Datacenter: "dc1", QueryOptions: structs.QueryOptions{Token: secret}}
	err := e.v.Internal.NodeDump(args, &reply)
	removed := len(reply.Dump) == 1
	m := &MaskObs{Blank: secret == "", ResolveOK: err == nil, Anonymous: secret == "" || secret == acl.AnonymousTokenSecret,
		Removed: removed, Flag: reply.ResultsFilteredByACLs}
	ec := &EndpointCase{Scenario: "flag-mask", Endpoint: "Internal.NodeDump",
		Observed: map[string]any{"err": fmt.Sprint(err), "dump": dumpNames(reply.Dump), "flag": reply.ResultsFilteredByACLs, "secret": secret}, Mask: m}
	c := &Case{Kind: "endpoint", Ep: ec}
	switch {
	case err != nil || !removed:
		c.Oracle = fmt.Sprintf("endpoint-content: err=%v dump=%v", err, dumpNames(reply.Dump))
		c.Sig = map[string]any{"kind": "endpoint-content", "endpoint": ec.Endpoint}
	case m.Anonymous && reply.ResultsFilteredByACLs:
		c.Oracle = "flag-not-masked: an unauthenticated request is told that results were filtered"
		c.Sig = map[string]any{"kind": "flag-not-masked"}
	case !m.Anonymous && !reply.ResultsFilteredByACLs:
		c.Oracle = "flag: an authenticated request is not told that results were filtered"
		c.Sig = map[string]any{"kind": "flag", "endpoint": ec.Endpoint}
	}
	return c
}

// S4: Internal.ServiceDump lists the gateway mappings of every gateway.
func scenGatewayNames() *Case {
	e := newEpEnv()
	defer e.v.Close()
	e.b.addToken("tok", "acc-1", `node_prefix "" { policy = "read" } service_prefix "" { policy = "read" } service "secret-gw" { policy = "deny" }`, nil)
	e.service("n1", "web", "web-1")
	e.must(e.v.Store().EnsureConfigEntry(e.next(), &structs.TerminatingGatewayConfigEntry{Kind: structs.TerminatingGateway,
		Name: "secret-gw", Services: []structs.LinkedService{{Name: "web", SNI: "internal.example"}}}))
	var reply structs.IndexedNodesWithGateways
	err := e.v.Internal.ServiceDump(&structs.ServiceDumpRequest{Datacenter: "dc1", QueryOptions: structs.QueryOptions{Token: "tok"}}, &reply)
	var gws []string
	for _, g := range reply.Gateways {
		gws = append(gws, g.Gateway.Name+"->"+g.Service.Name)
	}
	ec := &EndpointCase{Scenario: "gateway-names", Endpoint: "Internal.ServiceDump",
		Observed: map[string]any{"err": fmt.Sprint(err), "gateways": gws, "flag": reply.ResultsFilteredByACLs}}
	c := &Case{Kind: "endpoint", Ep: ec}
	switch {
	case err != nil:
		c.Mode = "inconclusive"
	case len(gws) > 0:
		c.Oracle = fmt.Sprintf("gateway-name-returned: Gateways=%v returned to a token that is denied service:read on the gateway", gws)
		c.Sig = map[string]any{"kind": "gateway-name-returned", "endpoint": ec.Endpoint}
	}
	return c
}

// S5: KVS.List computes the flag in the endpoint (total != len after FilterDirEnt).
func scenKVFlag(withBad bool) *Case {
	e := newEpEnv()
	defer e.v.Close()
	e.b.addToken("tok", "acc-1", `key_prefix "" { policy = "read" } key_prefix "bad" { policy = "deny" }`, nil)
	e.must(e.v.Store().KVSSet(e.next(), &structs.DirEntry{Key: "a", Value: []byte("1")}))
	if withBad {
		e.must(e.v.Store().KVSSet(e.next(), &structs.DirEntry{Key: "bad/x", Value: []byte("2")}))
	}
	e.must(e.v.Store().KVSSet(e.next(), &structs.DirEntry{Key: "c", Value: []byte("3")}))
	var reply structs.IndexedDirEntries
	err := e.v.KVS.List(&structs.KeyRequest{Datacenter: "dc1", Key: "", QueryOptions: structs.QueryOptions{Token: "tok"}}, &reply)
	var keys []string
	for _, d := range reply.Entries {
		keys = append(keys, d.Key)
	}
	ec := &EndpointCase{Scenario: "kv-list-flag", Endpoint: "KVS.List",
		Observed: map[string]any{"err": fmt.Sprint(err), "keys": keys, "flag": reply.ResultsFilteredByACLs, "with_unreadable": withBad}}
	c := &Case{Kind: "endpoint", Ep: ec}
	switch {
	case err != nil:
		c.Mode = "inconclusive"
	case strings.Join(keys, ",") != "a,c":
		c.Oracle = fmt.Sprintf("unreadable-returned: KVS.List returned %v", keys)
		c.Sig = map[string]any{"kind": "unreadable-returned", "endpoint": ec.Endpoint}
	case reply.ResultsFilteredByACLs != withBad:
		c.Oracle = fmt.Sprintf("flag: KVS.List flag=%v, removed=%v", reply.ResultsFilteredByACLs, withBad)
		c.Sig = map[string]any{"kind": "flag", "endpoint": ec.Endpoint}
	}
	return c
}

func genEndpointCases(rng *rand.Rand, tier string, emit func(*Case)) {
	reps := 1
	if tier == "thorough" {
		reps = 4
	}
	var jobs []func() *Case
	for r := 0; r < reps; r++ {
		life := time.Duration(300+rng.Intn(300)) * time.Millisecond
		jobs = append(jobs, scenStaleFlag, scenImportedTwice, scenImportedNodesTwice, scenGatewayNames,
			func() *Case { return scenExpiryWhileBlocked("Catalog.ListServices", life) },
			func() *Case { return scenExpiryWhileBlocked("KVS.List", life) },
			func() *Case { return scenExpiryWhileBlocked("Catalog.ListNodes", life) },
			func() *Case { return scenMask("") }, func() *Case { return scenMask(acl.AnonymousTokenSecret) },
			func() *Case { return scenMask("tok") },
			func() *Case { return scenKVFlag(true) }, func() *Case { return scenKVFlag(false) })
	}
	out := make([]*Case, len(jobs))
	sem := make(chan struct{}, 3)
	var wg sync.WaitGroup
	for i, j := range jobs {
		wg.Add(1)
		go func(i int, j func() *Case) {
			defer wg.Done()
			sem <- struct{}{}
			defer func() { <-sem }()
			c := j()
			if c.Mode == "inconclusive" { // a stall under load: once more
				c = j()
			}
			out[i] = c
		}(i, j)
	}
	wg.Wait()
	for _, c := range out {
		emit(c)
	}
}
