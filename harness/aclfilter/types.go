package main

import (
	"sort"
	"strconv"

	"github.com/hashicorp/consul/acl"
	"github.com/hashicorp/consul/agent/consul"
	"github.com/hashicorp/consul/agent/structs"
)

// respType: one entry per case of the aclfilter.Filter type switch (name = the case's type
// exactly as written in filter.go), plus the two list filters of agent/consul/filter.go.
type respType struct {
	name          string
	inSwitch      bool
	mapOrder      bool // the branch ranges over a Go map
	nested        bool // elements have inner lists that are filtered too
	noArrangement bool // readability does not vary per element (CE: ACLRead has no per-object context)
	gen           func(g *G) any
	term          func(v any) T
	oracle        func(o *orc, in, out any)
	apply         func(az acl.Authorizer, v any)
}

func (g *G) count() int {
	if g.mode == "inner" {
		return 1 + g.rng.Intn(2)
	}
	return g.n
}
func (g *G) f0() bool {
	if g.flagIn != nil {
		return *g.flagIn
	}
	return g.mode != "exh" && g.mode != "inner" && g.coin(0.2)
}
func qm(f bool) structs.QueryMeta { return structs.QueryMeta{ResultsFilteredByACLs: f} }

func mkList[E any](g *G, f func(w *bool) E) []E {
	n := g.count()
	l := make([]E, 0, n)
	for i := 0; i < n; i++ {
		l = append(l, f(g.want(i)))
	}
	return l
}

// ACL object lists: nil entries in the malformed stream
func mkPtrList[E any](g *G, f func() *E) []*E {
	l := make([]*E, 0, g.n)
	for i := 0; i < g.n; i++ {
		if g.malformed() && g.coin(0.2) {
			l = append(l, nil)
		} else {
			l = append(l, f())
		}
	}
	return l
}
func optTerm[E any](p *E, f func(*E) T) T {
	if p == nil {
		return nil
	}
	return some(f(p))
}

func (g *G) acltoken() *structs.ACLToken {
	return &structs.ACLToken{AccessorID: strconv.Itoa(g.id()), SecretID: g.pick([]string{"s-1", "s-2", ""})}
}
func (g *G) aclstub() *structs.ACLTokenListStub {
	return &structs.ACLTokenListStub{AccessorID: strconv.Itoa(g.id()), SecretID: g.pick([]string{"s-1", "s-2", ""})}
}
func termTK(t *structs.ACLToken) T           { return C("TK", atoi(t.AccessorID), t.SecretID) }
func termStub(t *structs.ACLTokenListStub) T { return C("TK", atoi(t.AccessorID), t.SecretID) }

func (o *orc) aclRead() bool  { return o.az.ACLRead(nil) == acl.Allow }
func (o *orc) aclWrite() bool { return o.az.ACLWrite(nil) == acl.Allow }

// oracle for lists of ACL objects: all-or-nothing on acl:read (nil entries never returned);
// secrets visible only with acl:write
func checkACLList[E any](o *orc, what string, in, out []*E, id func(*E) string, secret func(*E) *string) {
	var nn []*E
	for _, e := range in {
		if e != nil {
			nn = append(nn, e)
		}
	}
	for _, e := range out {
		if e == nil {
			o.bad("nil-returned", "%s: nil entry in the result", what)
			return
		}
	}
	checkList(o, what, nn, out, id, func(*E) bool { return o.aclRead() })
	if secret == nil {
		return
	}
	orig := map[string]string{}
	for _, e := range nn {
		orig[id(e)] = *secret(e)
	}
	for _, e := range out {
		s := *secret(e)
		if o.aclWrite() {
			if s != orig[id(e)] {
				o.bad("secret-changed", "%s: secret of %s altered for a token with acl:write", what, id(e))
			}
		} else if s != "<hidden>" {
			o.bad("secret-exposed", "%s: secret of %s returned without acl:write", what, id(e))
		}
	}
	// redaction must not write through to the caller's (state store's) objects
	for _, e := range nn {
		if *secret(e) == "<hidden>" && orig[id(e)] != "<hidden>" {
			o.bad("shared-object-mutated", "%s: %s redacted in place", what, id(e))
		}
	}
}

func one[E any](p **E) []*E {
	if *p == nil {
		return nil
	}
	return []*E{*p}
}

var respTypes []respType

func init() {
	add := func(rt respType) { respTypes = append(respTypes, rt) }
	sw := func(rt respType) { rt.inSwitch = true; add(rt) }

	// ---- CheckServiceNodes family -----------------------------------------------------
	sw(respType{name: "*structs.CheckServiceNodes",
		gen:  func(g *G) any { l := g.csns(g.count(), 0); return &l },
		term: func(v any) T { return C("RCheckServiceNodes", termCSNs(*v.(*structs.CheckServiceNodes))) },
		oracle: func(o *orc, in, out any) {
			o.checkCSNs("Nodes", *in.(*structs.CheckServiceNodes), *out.(*structs.CheckServiceNodes))
		}})
	sw(respType{name: "*structs.IndexedCheckServiceNodes",
		gen: func(g *G) any {
			return &structs.IndexedCheckServiceNodes{Nodes: g.csns(g.count(), 0), QueryMeta: qm(g.f0())}
		},
		term: func(v any) T {
			r := v.(*structs.IndexedCheckServiceNodes)
			return C("RIndexedCheckServiceNodes", termCSNs(r.Nodes), r.ResultsFilteredByACLs)
		},
		oracle: func(o *orc, in, out any) {
			i, u := in.(*structs.IndexedCheckServiceNodes), out.(*structs.IndexedCheckServiceNodes)
			o.checkFlag(i.ResultsFilteredByACLs, u.ResultsFilteredByACLs, o.checkCSNs("Nodes", i.Nodes, u.Nodes))
		}})
	sw(respType{name: "*structs.PreparedQueryExecuteResponse",
		gen: func(g *G) any {
			return &structs.PreparedQueryExecuteResponse{Nodes: g.csns(g.count(), 0), QueryMeta: qm(g.f0())}
		},
		term: func(v any) T {
			r := v.(*structs.PreparedQueryExecuteResponse)
			return C("RPreparedQueryExecuteResponse", termCSNs(r.Nodes), r.ResultsFilteredByACLs)
		},
		oracle: func(o *orc, in, out any) {
			i, u := in.(*structs.PreparedQueryExecuteResponse), out.(*structs.PreparedQueryExecuteResponse)
			o.checkFlag(i.ResultsFilteredByACLs, u.ResultsFilteredByACLs, o.checkCSNs("Nodes", i.Nodes, u.Nodes))
		}})
	sw(respType{name: "*structs.IndexedServiceTopology",
		gen: func(g *G) any {
			n := g.count()
			k := n
			if n > 0 {
				k = g.rng.Intn(n + 1)
			}
			return &structs.IndexedServiceTopology{
				ServiceTopology: &structs.ServiceTopology{Upstreams: g.csns(k, 0), Downstreams: g.csns(n-k, k)},
				FilteredByACLs:  g.f0(), QueryMeta: qm(g.f0())}
		},
		term: func(v any) T {
			r := v.(*structs.IndexedServiceTopology)
			return C("RIndexedServiceTopology", termCSNs(r.ServiceTopology.Upstreams), termCSNs(r.ServiceTopology.Downstreams),
				r.FilteredByACLs, r.ResultsFilteredByACLs)
		},
		oracle: func(o *orc, in, out any) {
			i, u := in.(*structs.IndexedServiceTopology), out.(*structs.IndexedServiceTopology)
			r1 := o.checkCSNs("Upstreams", i.ServiceTopology.Upstreams, u.ServiceTopology.Upstreams)
			r2 := o.checkCSNs("Downstreams", i.ServiceTopology.Downstreams, u.ServiceTopology.Downstreams)
			o.checkFlag(i.ResultsFilteredByACLs, u.ResultsFilteredByACLs, r1 || r2)
			o.checkFlag(i.FilteredByACLs, u.FilteredByACLs, r1 || r2)
		}})
	sw(respType{name: "*structs.DatacenterIndexedCheckServiceNodes", mapOrder: true,
		gen: func(g *G) any {
			n := g.count()
			dcs := []string{"dc1", "dc2", "dc3"}[:1+g.rng.Intn(3)]
			m := map[string]structs.CheckServiceNodes{}
			if g.mode != "exh" && g.coin(0.3) {
				m["dc-empty"] = structs.CheckServiceNodes{}
			}
			for i := 0; i < n; i++ {
				dc := dcs[i%len(dcs)]
				m[dc] = append(m[dc], g.csn(g.want(i)))
			}
			return &structs.DatacenterIndexedCheckServiceNodes{DatacenterNodes: m, QueryMeta: qm(g.f0())}
		},
		term: func(v any) T {
			r := v.(*structs.DatacenterIndexedCheckServiceNodes)
			return C("RDatacenterIndexedCheckServiceNodes", amap(r.DatacenterNodes, termCSNs), r.ResultsFilteredByACLs)
		},
		oracle: func(o *orc, in, out any) {
			i, u := in.(*structs.DatacenterIndexedCheckServiceNodes), out.(*structs.DatacenterIndexedCheckServiceNodes)
			removed := false
			for dc, l := range i.DatacenterNodes {
				ol, ok := u.DatacenterNodes[dc]
				if o.checkCSNs("DatacenterNodes["+dc+"]", l, ol) {
					removed = true
				}
				if ok && len(ol) == 0 {
					o.bad("empty-datacenter-kept", "datacenter %s kept with no nodes", dc)
				}
			}
			for dc := range u.DatacenterNodes {
				if _, ok := i.DatacenterNodes[dc]; !ok {
					o.bad("unreadable-returned", "datacenter %s appeared", dc)
				}
			}
			o.checkFlag(i.ResultsFilteredByACLs, u.ResultsFilteredByACLs, removed)
		}})

	// ---- flat lists ---------------------------------------------------------------------
	sw(respType{name: "*structs.IndexedCoordinates",
		gen: func(g *G) any {
			return &structs.IndexedCoordinates{Coordinates: mkList(g, g.coord), QueryMeta: qm(g.f0())}
		},
		term: func(v any) T {
			r := v.(*structs.IndexedCoordinates)
			return C("RIndexedCoordinates", list(r.Coordinates, func(c *structs.Coordinate) T { return C("CO", atoi(c.Segment), c.Node) }), r.ResultsFilteredByACLs)
		},
		oracle: func(o *orc, in, out any) {
			i, u := in.(*structs.IndexedCoordinates), out.(*structs.IndexedCoordinates)
			o.checkFlag(i.ResultsFilteredByACLs, u.ResultsFilteredByACLs, checkList(o, "Coordinates", i.Coordinates, u.Coordinates,
				func(c *structs.Coordinate) string { return c.Segment }, func(c *structs.Coordinate) bool { return o.nodeRead("", c.Node) }))
		}})
	sw(respType{name: "*structs.IndexedHealthChecks",
		gen: func(g *G) any {
			return &structs.IndexedHealthChecks{HealthChecks: mkList(g, func(w *bool) *structs.HealthCheck { return g.hc(w, "") }), QueryMeta: qm(g.f0())}
		},
		term: func(v any) T {
			r := v.(*structs.IndexedHealthChecks)
			return C("RIndexedHealthChecks", list([]*structs.HealthCheck(r.HealthChecks), termHC), r.ResultsFilteredByACLs)
		},
		oracle: func(o *orc, in, out any) {
			i, u := in.(*structs.IndexedHealthChecks), out.(*structs.IndexedHealthChecks)
			o.checkFlag(i.ResultsFilteredByACLs, u.ResultsFilteredByACLs,
				checkList(o, "HealthChecks", []*structs.HealthCheck(i.HealthChecks), []*structs.HealthCheck(u.HealthChecks), idHC, o.readHC))
		}})
	sw(respType{name: "*structs.IndexedIntentions",
		gen: func(g *G) any {
			return &structs.IndexedIntentions{Intentions: mkList(g, g.intention), QueryMeta: qm(g.f0())}
		},
		term: func(v any) T {
			r := v.(*structs.IndexedIntentions)
			return C("RIndexedIntentions", list([]*structs.Intention(r.Intentions), termIX), r.ResultsFilteredByACLs)
		},
		oracle: func(o *orc, in, out any) {
			i, u := in.(*structs.IndexedIntentions), out.(*structs.IndexedIntentions)
			o.checkFlag(i.ResultsFilteredByACLs, u.ResultsFilteredByACLs,
				checkList(o, "Intentions", []*structs.Intention(i.Intentions), []*structs.Intention(u.Intentions),
					func(x *structs.Intention) string { return x.ID }, o.readIX))
		}})
	sw(respType{name: "*structs.IntentionQueryMatch",
		gen: func(g *G) any {
			m := &structs.IntentionQueryMatch{Type: structs.IntentionMatchDestination}
			if g.malformed() && g.coin(0.2) {
				return m // Entries nil
			}
			m.Entries = []structs.IntentionMatchEntry{}
			for i := 0; i < g.count(); i++ {
				name := g.name(g.want(i), svcNames)
				if g.mode != "exh" && g.coin(0.15) {
					name = ""
				}
				m.Entries = append(m.Entries, structs.IntentionMatchEntry{Namespace: strconv.Itoa(g.id()), Name: name})
			}
			return m
		},
		term: func(v any) T {
			r := v.(*structs.IntentionQueryMatch)
			if r.Entries == nil {
				return C("RIntentionQueryMatch", nil)
			}
			return C("RIntentionQueryMatch", some(list(r.Entries, func(e structs.IntentionMatchEntry) T { return pair(atoi(e.Namespace), e.Name) })))
		},
		oracle: func(o *orc, in, out any) {
			// a match query is answered only if every named entry may be read; otherwise nothing is matched
			i, u := in.(*structs.IntentionQueryMatch), out.(*structs.IntentionQueryMatch)
			all := true
			for _, e := range i.Entries {
				if e.Name != "" && !o.intentionRead(e.Name) {
					all = false
				}
			}
			if !all && len(u.Entries) != 0 {
				o.bad("unreadable-returned", "match entries kept although one may not be read")
			}
			if all && len(u.Entries) != len(i.Entries) {
				o.bad("readable-dropped", "match entries dropped although all may be read")
			}
		}})

	// ---- node dumps ------------------------------------------------------------------------
	sw(respType{name: "*structs.IndexedNodeDump", nested: true,
		gen: func(g *G) any {
			n := g.count()
			k := 0
			if g.mode != "inner" && n > 0 {
				k = g.rng.Intn(n + 1)
			}
			d := g.nodedump(n-k, 0)
			im := g.nodedump(k, n-k)
			if g.mode == "inner" && g.coin(0.5) {
				d, im = im, d // the arranged node sits in the imported dump
			}
			return &structs.IndexedNodeDump{Dump: d, ImportedDump: im, QueryMeta: qm(g.f0())}
		},
		term: func(v any) T {
			r := v.(*structs.IndexedNodeDump)
			return C("RIndexedNodeDump", list([]*structs.NodeInfo(r.ImportedDump), termNI), list([]*structs.NodeInfo(r.Dump), termNI), r.ResultsFilteredByACLs)
		},
		oracle: func(o *orc, in, out any) {
			i, u := in.(*structs.IndexedNodeDump), out.(*structs.IndexedNodeDump)
			r1 := o.checkDump("Dump", i.Dump, u.Dump)
			r2 := o.checkDump("ImportedDump", i.ImportedDump, u.ImportedDump)
			o.checkFlag(i.ResultsFilteredByACLs, u.ResultsFilteredByACLs, r1 || r2)
		}})
	sw(respType{name: "*structs.IndexedServiceDump",
		gen: func(g *G) any {
			return &structs.IndexedServiceDump{Dump: mkList(g, g.svcinfo), QueryMeta: qm(g.f0())}
		},
		term: func(v any) T {
			r := v.(*structs.IndexedServiceDump)
			return C("RIndexedServiceDump", list([]*structs.ServiceInfo(r.Dump), termSI), r.ResultsFilteredByACLs)
		},
		oracle: func(o *orc, in, out any) {
			i, u := in.(*structs.IndexedServiceDump), out.(*structs.IndexedServiceDump)
			o.checkFlag(i.ResultsFilteredByACLs, u.ResultsFilteredByACLs,
				checkList(o, "Dump", []*structs.ServiceInfo(i.Dump), []*structs.ServiceInfo(u.Dump), idSI, o.readSI))
		}})
	sw(respType{name: "*structs.IndexedNodes",
		gen: func(g *G) any { return &structs.IndexedNodes{Nodes: mkList(g, g.node), QueryMeta: qm(g.f0())} },
		term: func(v any) T {
			r := v.(*structs.IndexedNodes)
			return C("RIndexedNodes", list([]*structs.Node(r.Nodes), termND), r.ResultsFilteredByACLs)
		},
		oracle: func(o *orc, in, out any) {
			i, u := in.(*structs.IndexedNodes), out.(*structs.IndexedNodes)
			o.checkFlag(i.ResultsFilteredByACLs, u.ResultsFilteredByACLs,
				checkList(o, "Nodes", []*structs.Node(i.Nodes), []*structs.Node(u.Nodes), idND, o.readND))
		}})
	sw(respType{name: "*structs.IndexedNodeServices", mapOrder: true,
		gen: func(g *G) any {
			r := &structs.IndexedNodeServices{QueryMeta: qm(g.f0())}
			if g.malformed() && g.coin(0.2) {
				return r // NodeServices nil
			}
			t := true
			nw := &t
			if g.mode != "exh" {
				nw = nil
			} else if g.n > 0 && g.coin(0.1) {
				f := false
				nw = &f
			}
			r.NodeServices = &structs.NodeServices{Node: g.node(nw), Services: map[string]*structs.NodeService{}}
			keys := map[string]bool{}
			for i := 0; i < g.count(); i++ {
				s := g.nsvc(g.want(i), keys)
				if !(g.malformed() && g.coin(0.2)) {
					s.PeerName = r.NodeServices.Node.PeerName
				}
				r.NodeServices.Services[s.ID] = s
			}
			return r
		},
		term: func(v any) T {
			r := v.(*structs.IndexedNodeServices)
			if r.NodeServices == nil {
				return C("RIndexedNodeServices", nil, r.ResultsFilteredByACLs)
			}
			return C("RIndexedNodeServices", some(pair(termND(r.NodeServices.Node), amap(r.NodeServices.Services, termNS))), r.ResultsFilteredByACLs)
		},
		oracle: func(o *orc, in, out any) {
			i, u := in.(*structs.IndexedNodeServices), out.(*structs.IndexedNodeServices)
			if i.NodeServices == nil {
				if u.NodeServices != nil {
					o.bad("unreadable-returned", "NodeServices appeared")
				}
				o.checkFlag(i.ResultsFilteredByACLs, u.ResultsFilteredByACLs, false)
				return
			}
			n := i.NodeServices.Node
			if !o.nodeRead(n.PeerName, n.Node) {
				if u.NodeServices != nil {
					o.bad("unreadable-returned", "services of unreadable node %s returned", n.Node)
				}
				o.checkFlag(i.ResultsFilteredByACLs, u.ResultsFilteredByACLs, true)
				return
			}
			if u.NodeServices == nil {
				o.bad("readable-dropped", "readable node %s dropped", n.Node)
				return
			}
			sorted := func(m map[string]*structs.NodeService) []*structs.NodeService {
				var l []*structs.NodeService
				for _, s := range m {
					l = append(l, s)
				}
				sort.Slice(l, func(a, b int) bool { return l[a].Port < l[b].Port })
				return l
			}
			// a service instance is readable when its SERVICE NAME is (service rules are about names)
			before := len(o.fail)
			removed := checkList(o, "Services", sorted(i.NodeServices.Services), sorted(u.NodeServices.Services), idNS,
				func(s *structs.NodeService) bool {
					return o.nodeRead(s.PeerName, n.Node) && o.serviceReadOpt(s.PeerName, s.Service)
				})
			if len(o.fail) > before {
				// is the deviation explained by authorizing the service ID instead of the name?
				byID := true
				for _, s := range i.NodeServices.Services {
					_, kept := u.NodeServices.Services[s.ID]
					if kept != (o.nodeRead(s.PeerName, n.Node) && o.serviceReadOpt(s.PeerName, s.ID)) {
						byID = false
					}
				}
				o.set("authorized_by_service_id", byID)
				return
			}
			o.checkFlag(i.ResultsFilteredByACLs, u.ResultsFilteredByACLs, removed)
		}})
	sw(respType{name: "*structs.IndexedNodeServiceList",
		gen: func(g *G) any {
			r := &structs.IndexedNodeServiceList{QueryMeta: qm(g.f0())}
			if g.malformed() && g.coin(0.2) {
				r.NodeServices.Services = []*structs.NodeService{g.nsvc(nil, nil)}
				return r // Node nil
			}
			t := true
			nw := &t
			if g.mode != "exh" {
				nw = nil
			} else if g.n > 0 && g.coin(0.1) {
				f := false
				nw = &f
			}
			r.NodeServices.Node = g.node(nw)
			r.NodeServices.Services = mkList(g, func(w *bool) *structs.NodeService {
				s := g.nsvc(w, nil)
				s.PeerName = r.NodeServices.Node.PeerName
				return s
			})
			return r
		},
		term: func(v any) T {
			r := v.(*structs.IndexedNodeServiceList)
			return C("RIndexedNodeServiceList", optTerm(r.NodeServices.Node, termND), list(r.NodeServices.Services, termNS), r.ResultsFilteredByACLs)
		},
		oracle: func(o *orc, in, out any) {
			i, u := in.(*structs.IndexedNodeServiceList), out.(*structs.IndexedNodeServiceList)
			n := i.NodeServices.Node
			if n == nil {
				return // no node: nothing to authorize against (the endpoint found no such node)
			}
			if !o.nodeRead(n.PeerName, n.Node) {
				if u.NodeServices.Node != nil || len(u.NodeServices.Services) != 0 {
					o.bad("unreadable-returned", "services of unreadable node %s returned", n.Node)
				}
				o.checkFlag(i.ResultsFilteredByACLs, u.ResultsFilteredByACLs, true)
				return
			}
			if u.NodeServices.Node == nil {
				o.bad("readable-dropped", "readable node %s dropped", n.Node)
				return
			}
			o.checkFlag(i.ResultsFilteredByACLs, u.ResultsFilteredByACLs,
				checkList(o, "Services", i.NodeServices.Services, u.NodeServices.Services, idNS,
					func(s *structs.NodeService) bool { return o.serviceReadOpt(s.PeerName, s.Service) }))
		}})
	sw(respType{name: "*structs.IndexedServiceNodes",
		gen: func(g *G) any {
			return &structs.IndexedServiceNodes{ServiceNodes: mkList(g, g.snode), QueryMeta: qm(g.f0())}
		},
		term: func(v any) T {
			r := v.(*structs.IndexedServiceNodes)
			return C("RIndexedServiceNodes", list([]*structs.ServiceNode(r.ServiceNodes), termSN), r.ResultsFilteredByACLs)
		},
		oracle: func(o *orc, in, out any) {
			i, u := in.(*structs.IndexedServiceNodes), out.(*structs.IndexedServiceNodes)
			o.checkFlag(i.ResultsFilteredByACLs, u.ResultsFilteredByACLs,
				checkList(o, "ServiceNodes", []*structs.ServiceNode(i.ServiceNodes), []*structs.ServiceNode(u.ServiceNodes), idSN, o.readSN))
		}})
	sw(respType{name: "*structs.IndexedServices", mapOrder: true,
		gen: func(g *G) any {
			m := structs.Services{}
			used := map[string]bool{}
			for i := 0; i < g.count(); i++ {
				m[g.distinct(g.want(i), svcNames, used)] = []string{strconv.Itoa(g.id())}
			}
			return &structs.IndexedServices{Services: m, QueryMeta: qm(g.f0())}
		},
		term: func(v any) T {
			r := v.(*structs.IndexedServices)
			return C("RIndexedServices", amap(r.Services, func(t []string) T { return atoi(t[0]) }), r.ResultsFilteredByACLs)
		},
		oracle: func(o *orc, in, out any) {
			i, u := in.(*structs.IndexedServices), out.(*structs.IndexedServices)
			keys := func(m structs.Services) []string {
				var l []string
				for k := range m {
					l = append(l, k)
				}
				sort.Strings(l)
				return l
			}
			o.checkFlag(i.ResultsFilteredByACLs, u.ResultsFilteredByACLs,
				checkList(o, "Services", keys(i.Services), keys(u.Services), func(s string) string { return s },
					func(s string) bool { return o.serviceReadOpt("", s) }))
		}})
	sw(respType{name: "*structs.IndexedSessions",
		gen: func(g *G) any {
			return &structs.IndexedSessions{Sessions: mkList(g, g.session), QueryMeta: qm(g.f0())}
		},
		term: func(v any) T {
			r := v.(*structs.IndexedSessions)
			return C("RIndexedSessions", list([]*structs.Session(r.Sessions), func(s *structs.Session) T { return C("SE", atoi(s.ID), s.Node) }), r.ResultsFilteredByACLs)
		},
		oracle: func(o *orc, in, out any) {
			i, u := in.(*structs.IndexedSessions), out.(*structs.IndexedSessions)
			o.checkFlag(i.ResultsFilteredByACLs, u.ResultsFilteredByACLs,
				checkList(o, "Sessions", []*structs.Session(i.Sessions), []*structs.Session(u.Sessions),
					func(s *structs.Session) string { return s.ID },
					func(s *structs.Session) bool { return o.az.SessionRead(s.Node, nil) == acl.Allow }))
		}})

	// ---- prepared queries -------------------------------------------------------------------
	readPQ := func(o *orc, q *structs.PreparedQuery) bool {
		if o.aclWrite() {
			return true // management sees everything
		}
		named := q.Name != "" || q.Template.Type != ""
		return named && o.az.PreparedQueryRead(q.Name, nil) == acl.Allow
	}
	checkPQToken := func(o *orc, orig, got *structs.PreparedQuery) {
		switch {
		case o.aclWrite() || orig.Token == "":
			if got.Token != orig.Token {
				o.bad("token-changed", "query %s: token altered", orig.ID)
			}
		case got.Token != "<hidden>":
			o.bad("secret-exposed", "query %s: captured token returned to a non-management token", orig.ID)
		}
	}
	sw(respType{name: "*structs.IndexedPreparedQueries",
		gen: func(g *G) any {
			return &structs.IndexedPreparedQueries{Queries: mkList(g, g.pquery), QueryMeta: qm(g.f0())}
		},
		term: func(v any) T {
			r := v.(*structs.IndexedPreparedQueries)
			return C("RIndexedPreparedQueries", list([]*structs.PreparedQuery(r.Queries), termPQ), r.ResultsFilteredByACLs)
		},
		oracle: func(o *orc, in, out any) {
			i, u := in.(*structs.IndexedPreparedQueries), out.(*structs.IndexedPreparedQueries)
			checkList(o, "Queries", []*structs.PreparedQuery(i.Queries), []*structs.PreparedQuery(u.Queries),
				func(q *structs.PreparedQuery) string { return q.ID }, func(q *structs.PreparedQuery) bool { return readPQ(o, q) })
			// only the removal of NAMED queries is reported (unnamed ones are invisible by design)
			namedRemoved := false
			orig := map[string]*structs.PreparedQuery{}
			for _, q := range i.Queries {
				orig[q.ID] = q
				if (q.Name != "" || q.Template.Type != "") && !readPQ(o, q) {
					namedRemoved = true
				}
			}
			o.checkFlag(i.ResultsFilteredByACLs, u.ResultsFilteredByACLs, namedRemoved)
			for _, q := range u.Queries {
				if orig[q.ID] != nil {
					checkPQToken(o, orig[q.ID], q)
				}
			}
			for _, q := range i.Queries { // the caller's objects must not be redacted in place
				if q.Token == "<hidden>" {
					o.bad("shared-object-mutated", "query %s redacted in place", q.ID)
				}
			}
		}})
	sw(respType{name: "**structs.PreparedQuery",
		gen:  func(g *G) any { q := g.pquery(nil); return &q },
		term: func(v any) T { return C("RPreparedQuery", termPQ(*v.(**structs.PreparedQuery))) },
		oracle: func(o *orc, in, out any) {
			checkPQToken(o, *in.(**structs.PreparedQuery), *out.(**structs.PreparedQuery))
		}, noArrangement: true})

	// ---- ACL objects --------------------------------------------------------------------------
	sw(respType{name: "*structs.ACLTokens", noArrangement: true,
		gen:  func(g *G) any { l := structs.ACLTokens(mkPtrList(g, g.acltoken)); return &l },
		term: func(v any) T {
			return C("RACLTokens", list([]*structs.ACLToken(*v.(*structs.ACLTokens)), func(t *structs.ACLToken) T { return optTerm(t, termTK) }))
		},
		oracle: func(o *orc, in, out any) {
			checkACLList(o, "tokens", []*structs.ACLToken(*in.(*structs.ACLTokens)), []*structs.ACLToken(*out.(*structs.ACLTokens)),
				func(t *structs.ACLToken) string { return t.AccessorID }, func(t *structs.ACLToken) *string { return &t.SecretID })
		}})
	sw(respType{name: "**structs.ACLToken", noArrangement: true,
		gen: func(g *G) any {
			t := g.acltoken()
			if g.malformed() && g.coin(0.3) {
				t = nil
			}
			return &t
		},
		term: func(v any) T { return C("RACLToken", optTerm(*v.(**structs.ACLToken), termTK)) },
		oracle: func(o *orc, in, out any) {
			checkACLList(o, "token", one(in.(**structs.ACLToken)), one(out.(**structs.ACLToken)),
				func(t *structs.ACLToken) string { return t.AccessorID }, func(t *structs.ACLToken) *string { return &t.SecretID })
		}})
	sw(respType{name: "*[]*structs.ACLTokenListStub", noArrangement: true,
		gen:  func(g *G) any { l := mkPtrList(g, g.aclstub); return &l },
		term: func(v any) T {
			return C("RACLTokenListStubs", list(*v.(*[]*structs.ACLTokenListStub), func(t *structs.ACLTokenListStub) T { return optTerm(t, termStub) }))
		},
		oracle: func(o *orc, in, out any) {
			checkACLList(o, "token stubs", *in.(*[]*structs.ACLTokenListStub), *out.(*[]*structs.ACLTokenListStub),
				func(t *structs.ACLTokenListStub) string { return t.AccessorID }, func(t *structs.ACLTokenListStub) *string { return &t.SecretID })
		}})
	sw(respType{name: "**structs.ACLTokenListStub", noArrangement: true,
		gen: func(g *G) any {
			t := g.aclstub()
			if g.malformed() && g.coin(0.3) {
				t = nil
			}
			return &t
		},
		term: func(v any) T { return C("RACLTokenListStub", optTerm(*v.(**structs.ACLTokenListStub), termStub)) },
		oracle: func(o *orc, in, out any) {
			checkACLList(o, "token stub", one(in.(**structs.ACLTokenListStub)), one(out.(**structs.ACLTokenListStub)),
				func(t *structs.ACLTokenListStub) string { return t.AccessorID }, func(t *structs.ACLTokenListStub) *string { return &t.SecretID })
		}})
	addACLObj(sw, "ACLPolicies", "ACLPolicy",
		func(g *G) *structs.ACLPolicy { return &structs.ACLPolicy{ID: strconv.Itoa(g.id())} },
		func(p *structs.ACLPolicy) string { return p.ID },
		func(l []*structs.ACLPolicy) any { x := structs.ACLPolicies(l); return &x },
		func(v any) []*structs.ACLPolicy { return []*structs.ACLPolicy(*v.(*structs.ACLPolicies)) })
	addACLObj(sw, "ACLRoles", "ACLRole",
		func(g *G) *structs.ACLRole { return &structs.ACLRole{ID: strconv.Itoa(g.id())} },
		func(p *structs.ACLRole) string { return p.ID },
		func(l []*structs.ACLRole) any { x := structs.ACLRoles(l); return &x },
		func(v any) []*structs.ACLRole { return []*structs.ACLRole(*v.(*structs.ACLRoles)) })
	addACLObj(sw, "ACLBindingRules", "ACLBindingRule",
		func(g *G) *structs.ACLBindingRule { return &structs.ACLBindingRule{ID: strconv.Itoa(g.id())} },
		func(p *structs.ACLBindingRule) string { return p.ID },
		func(l []*structs.ACLBindingRule) any { x := structs.ACLBindingRules(l); return &x },
		func(v any) []*structs.ACLBindingRule { return []*structs.ACLBindingRule(*v.(*structs.ACLBindingRules)) })
	addACLObj(sw, "ACLAuthMethods", "ACLAuthMethod",
		func(g *G) *structs.ACLAuthMethod { return &structs.ACLAuthMethod{Name: strconv.Itoa(g.id())} },
		func(p *structs.ACLAuthMethod) string { return p.Name },
		func(l []*structs.ACLAuthMethod) any { x := structs.ACLAuthMethods(l); return &x },
		func(v any) []*structs.ACLAuthMethod { return []*structs.ACLAuthMethod(*v.(*structs.ACLAuthMethods)) })

	// ---- service lists ---------------------------------------------------------------------------
	sw(respType{name: "*structs.IndexedServiceList",
		gen: func(g *G) any {
			return &structs.IndexedServiceList{Services: mkList(g, g.svcname), QueryMeta: qm(g.f0())}
		},
		term: func(v any) T {
			r := v.(*structs.IndexedServiceList)
			return C("RIndexedServiceList", list([]structs.ServiceName(r.Services), termSV), r.ResultsFilteredByACLs)
		},
		oracle: func(o *orc, in, out any) {
			i, u := in.(*structs.IndexedServiceList), out.(*structs.IndexedServiceList)
			o.checkFlag(i.ResultsFilteredByACLs, u.ResultsFilteredByACLs,
				checkList(o, "Services", []structs.ServiceName(i.Services), []structs.ServiceName(u.Services), idSV, o.readSV))
		}})
	sw(respType{name: "*structs.IndexedExportedServiceList", mapOrder: true,
		gen: func(g *G) any {
			n := g.count()
			ps := []string{"p1", "p2", "p3"}[:1+g.rng.Intn(3)]
			m := map[string]structs.ServiceList{}
			if g.mode != "exh" && g.coin(0.2) {
				m["p-empty"] = structs.ServiceList{}
			}
			for i := 0; i < n; i++ {
				p := ps[i%len(ps)]
				m[p] = append(m[p], g.svcname(g.want(i)))
			}
			return &structs.IndexedExportedServiceList{Services: m, QueryMeta: qm(g.f0())}
		},
		term: func(v any) T {
			r := v.(*structs.IndexedExportedServiceList)
			return C("RIndexedExportedServiceList", amap(r.Services, func(l structs.ServiceList) T { return list([]structs.ServiceName(l), termSV) }), r.ResultsFilteredByACLs)
		},
		oracle: func(o *orc, in, out any) {
			i, u := in.(*structs.IndexedExportedServiceList), out.(*structs.IndexedExportedServiceList)
			removed := false
			peersFiltered, peersIntact := 0, 0
			for p, l := range i.Services {
				ol, ok := u.Services[p]
				if checkList(o, "Services["+p+"]", []structs.ServiceName(l), []structs.ServiceName(ol), idSV, o.readSV) {
					removed = true
					peersFiltered++
				} else {
					peersIntact++
				}
				if ok && len(ol) == 0 {
					o.bad("empty-peer-kept", "peer %s kept with no services", p)
				}
			}
			for p := range u.Services {
				if _, ok := i.Services[p]; !ok {
					o.bad("unreadable-returned", "peer %s appeared", p)
				}
			}
			o.set("peers_filtered", peersFiltered)
			o.set("peers_intact", peersIntact)
			o.checkFlag(i.ResultsFilteredByACLs, u.ResultsFilteredByACLs, removed)
		}})
	sw(respType{name: "*structs.IndexedGatewayServices",
		gen: func(g *G) any {
			return &structs.IndexedGatewayServices{Services: mkList(g, g.gwsvc), QueryMeta: qm(g.f0())}
		},
		term: func(v any) T {
			r := v.(*structs.IndexedGatewayServices)
			return C("RIndexedGatewayServices", list([]*structs.GatewayService(r.Services), termGS), r.ResultsFilteredByACLs)
		},
		oracle: func(o *orc, in, out any) {
			i, u := in.(*structs.IndexedGatewayServices), out.(*structs.IndexedGatewayServices)
			o.checkFlag(i.ResultsFilteredByACLs, u.ResultsFilteredByACLs,
				checkList(o, "Services", []*structs.GatewayService(i.Services), []*structs.GatewayService(u.Services), idGS, o.readGS))
		}})
	sw(respType{name: "*structs.IndexedNodesWithGateways",
		gen: func(g *G) any {
			n := g.count()
			a, b := 0, 0
			if n > 0 {
				a = g.rng.Intn(n + 1)
				b = g.rng.Intn(n - a + 1)
			}
			r := &structs.IndexedNodesWithGateways{QueryMeta: qm(g.f0())}
			r.Nodes = g.csns(a, 0)
			for i := 0; i < b; i++ {
				r.Gateways = append(r.Gateways, g.gwsvc(g.want(a+i)))
			}
			r.ImportedNodes = g.csns(n-a-b, a+b)
			return r
		},
		term: func(v any) T {
			r := v.(*structs.IndexedNodesWithGateways)
			return C("RIndexedNodesWithGateways", termCSNs(r.ImportedNodes), termCSNs(r.Nodes), list([]*structs.GatewayService(r.Gateways), termGS), r.ResultsFilteredByACLs)
		},
		oracle: func(o *orc, in, out any) {
			i, u := in.(*structs.IndexedNodesWithGateways), out.(*structs.IndexedNodesWithGateways)
			// Internal.ServiceDump lists the mappings of ALL gateways (state.DumpGatewayServices): nothing has
			// authorized a gateway's name before the filter, so both names must be readable here (unlike
			// Catalog.GatewayServices, which authorizes its one gateway up front).
			r1 := o.checkCSNs("Nodes", i.Nodes, u.Nodes)
			for _, g := range u.Gateways {
				if o.serviceRead("", g.Service.Name) && !o.serviceReadOpt("", g.Gateway.Name) {
					o.bad("gateway-name-returned", "Gateways: mapping %s (service %q) returned although its gateway %q may not be read",
						idGS(g), g.Service.Name, g.Gateway.Name)
					break
				}
			}
			r2 := checkList(o, "Gateways", []*structs.GatewayService(i.Gateways), []*structs.GatewayService(u.Gateways), idGS,
				func(g *structs.GatewayService) bool {
					return o.serviceRead("", g.Service.Name) && o.serviceReadOpt("", g.Gateway.Name)
				})
			r3 := o.checkCSNs("ImportedNodes", i.ImportedNodes, u.ImportedNodes)
			o.checkFlag(i.ResultsFilteredByACLs, u.ResultsFilteredByACLs, r1 || r2 || r3)
		}})

	// ---- agent/consul/filter.go ---------------------------------------------------------------------
	add(respType{name: "consul.FilterDirEnt",
		gen: func(g *G) any {
			l := structs.DirEntries(mkList(g, func(w *bool) *structs.DirEntry {
				return &structs.DirEntry{Key: g.name(w, keyNames), Flags: uint64(g.id())}
			}))
			return &l
		},
		apply: func(az acl.Authorizer, v any) { p := v.(*structs.DirEntries); *p = consul.FilterDirEnt(az, *p) },
		term: func(v any) T {
			return C("RDirEntries", list([]*structs.DirEntry(*v.(*structs.DirEntries)), func(d *structs.DirEntry) T { return C("DE", int(d.Flags), d.Key) }))
		},
		oracle: func(o *orc, in, out any) {
			checkList(o, "DirEntries", []*structs.DirEntry(*in.(*structs.DirEntries)), []*structs.DirEntry(*out.(*structs.DirEntries)),
				func(d *structs.DirEntry) string { return strconv.Itoa(int(d.Flags)) },
				func(d *structs.DirEntry) bool { return o.az.KeyRead(d.Key, nil) == acl.Allow })
		}})
	add(respType{name: "consul.FilterTxnResults",
		gen: func(g *G) any {
			l := structs.TxnResults(mkList(g, func(w *bool) *structs.TxnResult {
				switch g.rng.Intn(5) {
				case 0:
					return &structs.TxnResult{KV: &structs.DirEntry{Key: g.name(w, keyNames), Flags: uint64(g.id())}}
				case 1:
					return &structs.TxnResult{Node: g.node(w)}
				case 2:
					s := g.nsvc(w, nil)
					return &structs.TxnResult{Service: s}
				case 3:
					return &structs.TxnResult{Check: g.hc(w, "")}
				}
				if w == nil && g.coin(0.3) {
					return &structs.TxnResult{} // no member: never filtered
				}
				if g.malformed() && g.coin(0.3) { // two members: the first in KV > Node > Service > Check order decides
					return &structs.TxnResult{KV: &structs.DirEntry{Key: g.name(nil, keyNames), Flags: uint64(g.id())}, Node: g.node(nil)}
				}
				if w != nil && !*w {
					return &structs.TxnResult{KV: &structs.DirEntry{Key: badName, Flags: uint64(g.id())}}
				}
				return &structs.TxnResult{KV: &structs.DirEntry{Key: g.name(w, keyNames), Flags: uint64(g.id())}}
			}))
			return &l
		},
		apply: func(az acl.Authorizer, v any) { p := v.(*structs.TxnResults); *p = consul.FilterTxnResults(az, *p) },
		term: func(v any) T {
			return C("RTxnResults", list([]*structs.TxnResult(*v.(*structs.TxnResults)), func(r *structs.TxnResult) T {
				switch {
				case r.KV != nil:
					return C("TKV", int(r.KV.Flags), r.KV.Key)
				case r.Node != nil:
					return C("TNode", atoi(r.Node.Address), r.Node.Node, r.Node.PeerName)
				case r.Service != nil:
					return C("TSvc", r.Service.Port, r.Service.Service, r.Service.PeerName)
				case r.Check != nil:
					return C("TCheck", atoi(string(r.Check.CheckID)), r.Check.Node, r.Check.ServiceName, r.Check.PeerName)
				}
				return C("TNone", 0)
			}))
		},
		oracle: func(o *orc, in, out any) {
			id := func(r *structs.TxnResult) string {
				switch {
				case r.KV != nil:
					return "kv" + strconv.Itoa(int(r.KV.Flags))
				case r.Node != nil:
					return "n" + r.Node.Address
				case r.Service != nil:
					return "s" + strconv.Itoa(r.Service.Port)
				case r.Check != nil:
					return string(r.Check.CheckID)
				}
				return "?"
			}
			checkList(o, "TxnResults", []*structs.TxnResult(*in.(*structs.TxnResults)), []*structs.TxnResult(*out.(*structs.TxnResults)), id,
				func(r *structs.TxnResult) bool {
					// transaction results: a KV pair by its key, a node by its name, a service by its name,
					// a service check by its service, a node check by its node
					switch {
					case r.KV != nil:
						return o.az.KeyRead(r.KV.Key, nil) == acl.Allow
					case r.Node != nil:
						return o.nodeRead(r.Node.PeerName, r.Node.Node)
					case r.Service != nil:
						return o.serviceRead(r.Service.PeerName, r.Service.Service)
					case r.Check != nil:
						if r.Check.ServiceName != "" {
							return o.serviceRead(r.Check.PeerName, r.Check.ServiceName)
						}
						return o.nodeRead(r.Check.PeerName, r.Check.Node)
					}
					return true
				})
		}})
}

// the four families of ACL objects that are only ever dropped (no secret): list + single
func addACLObj[E any](sw func(respType), listName, oneName string, mk func(g *G) *E, id func(*E) string,
	wrap func([]*E) any, unwrap func(any) []*E) {
	termOf := func(p *E) T { return atoi(id(p)) }
	sw(respType{name: "*structs." + listName, noArrangement: true,
		gen: func(g *G) any { return wrap(mkPtrList(g, func() *E { return mk(g) })) },
		term: func(v any) T {
			return C("R"+listName, list(unwrap(v), func(p *E) T { return optTerm(p, termOf) }))
		},
		oracle: func(o *orc, in, out any) { checkACLList(o, listName, unwrap(in), unwrap(out), id, nil) }})
	sw(respType{name: "**structs." + oneName, noArrangement: true,
		gen: func(g *G) any {
			p := mk(g)
			if g.malformed() && g.coin(0.3) {
				p = nil
			}
			return &p
		},
		term:   func(v any) T { return C("R"+oneName, optTerm(*v.(**E), termOf)) },
		oracle: func(o *orc, in, out any) { checkACLList(o, oneName, one(in.(**E)), one(out.(**E)), id, nil) }})
}
