package main

import (
	"context"
	"encoding/json"
	"errors"
	"fmt"
	"math/rand"
	"sync"
	"time"

	"github.com/hashicorp/go-hclog"

	"github.com/hashicorp/consul/acl"
	"github.com/hashicorp/consul/acl/resolver"
	"github.com/hashicorp/consul/agent/consul"
	"github.com/hashicorp/consul/agent/structs"
	"github.com/hashicorp/consul/agent/token"
)

// ---- ACLToken.IsExpired, tabulated ----------------------------------------------------------
type ExpCase struct {
	Exp   T    `json:"exp"`   // None | Some ns
	AsOf  int64 `json:"as_of"` // 0 = zero time.Time
	Got   bool `json:"got"`
	ExpNs int64 `json:"exp_ns"`
	HasExp bool `json:"has_exp"`
}

var clockBase = time.Now().Add(-time.Hour)

func ns(t time.Time) int64 {
	if t.IsZero() {
		return 0
	}
	return t.Sub(clockBase).Nanoseconds()
}
func expTerm(p *time.Time) T {
	if p == nil {
		return nil
	}
	return some(ns(*p))
}

func genExpiredCases(rng *rand.Rand, tier string, emit func(*Case)) {
	now := time.Now()
	var zero time.Time
	exps := []*time.Time{nil, &zero}
	for _, d := range []time.Duration{-time.Hour, -time.Second, -1, 0, 1, time.Second, time.Hour} {
		t := now.Add(d)
		exps = append(exps, &t)
	}
	asofs := []time.Time{zero, now, now.Add(-1), now.Add(1), now.Add(-time.Hour), now.Add(time.Hour)}
	extra := 50
	if tier == "thorough" {
		extra = 2000
	}
	for i := 0; i < extra; i++ {
		t := now.Add(time.Duration(rng.Int63n(2000) - 1000))
		exps = append(exps, &t)
	}
	for _, e := range exps {
		for _, a := range asofs {
			tok := &structs.ACLToken{ExpirationTime: e}
			got := tok.IsExpired(a)
			c := &Case{Kind: "isexpired", Exp: &ExpCase{Exp: expTerm(e), AsOf: ns(a), Got: got}}
			// oracle: a token is expired exactly when it has an expiration time that lies strictly
			// before the (non-zero) reference time
			want := e != nil && !e.IsZero() && !a.IsZero() && e.Before(a)
			if got != want {
				c.Oracle = fmt.Sprintf("is-expired: IsExpired=%v, expected %v", got, want)
				c.Sig = map[string]any{"kind": "is-expired"}
			}
			emit(c)
		}
	}
}

// ---- the scripted backend ---------------------------------------------------------------------
type TokDesc struct {
	Accessor int    `json:"accessor"`
	ExpKind  string `json:"exp_kind"` // none | zero | rel
	ExpRel   int64  `json:"exp_rel"`  // ns relative to the step's start (rel)
	Local    bool   `json:"local"`
}

type AttemptScript struct {
	Bk    string   `json:"bk"`  // notdone | tok | nil | notfound | err
	BkTok *TokDesc `json:"bk_tok,omitempty"`
	Rpc    string   `json:"rpc"` // tok | tok-otherdc | nil | notfound | fail
	RpcTok *TokDesc `json:"rpc_tok,omitempty"`
	Pol    string   `json:"pol"` // ok | toknotfound | tokdenied | remote | other
}

type StepScript struct {
	Secret   string          `json:"secret"`
	Attempts []AttemptScript `json:"attempts"`
	SleepMs  int             `json:"sleep_ms,omitempty"` // sleep before the step
}

type ResolveCase struct {
	Down    string     `json:"down"`
	ACLs    bool       `json:"acls"`
	Fresh   bool       `json:"fresh"` // ACLTokenTTL: an hour (entries always fresh) or negative (always stale)
	Roles   bool       `json:"roles,omitempty"` // resolveTokenToIdentityAndRoles instead of ResolveToken
	Step    StepScript `json:"step"`
	StepNo  int        `json:"step_no"`
	Class   string     `json:"class"` // root | local | plain
	Now     int64      `json:"now"`
	CacheIn  T         `json:"cache_in"`
	CacheOut T         `json:"cache_out"`
	Attempts T         `json:"attempts_term"`
	Out      T         `json:"out"`
	History []StepScript `json:"history"` // the steps run on this resolver so far (for replay)
}

type fakeBackend struct {
	mu       sync.Mutex
	attempts []AttemptScript
	cur      int // index of the current attempt (-1 before the first)
	toks     map[string]*structs.ACLToken // materialised per (attempt, source)
	t0       time.Time
	polSeq   int
	policies []string
}

var errInduced = errors.New("induced error")

func (b *fakeBackend) att() *AttemptScript {
	i := b.cur
	if i < 0 {
		i = 0
	}
	if i >= len(b.attempts) {
		i = len(b.attempts) - 1
	}
	return &b.attempts[i]
}

func (b *fakeBackend) materialise(d *TokDesc, secret string) *structs.ACLToken {
	if d == nil {
		return nil
	}
	key := fmt.Sprintf("%d/%s/%d/%v", d.Accessor, d.ExpKind, d.ExpRel, d.Local)
	if t := b.toks[key]; t != nil {
		return t
	}
	b.polSeq++
	pid := fmt.Sprintf("pol-%d-%d", d.Accessor, b.polSeq)
	b.policies = append(b.policies, pid)
	t := &structs.ACLToken{AccessorID: fmt.Sprint(d.Accessor), SecretID: secret, Local: d.Local,
		Policies: []structs.ACLTokenPolicyLink{{ID: pid}}}
	switch d.ExpKind {
	case "zero":
		t.ExpirationTime = &time.Time{}
	case "rel":
		e := b.t0.Add(time.Duration(d.ExpRel))
		t.ExpirationTime = &e
	}
	b.toks[key] = t
	return t
}

func (b *fakeBackend) ACLDatacenter() string { return "dc1" }
func (b *fakeBackend) IsServerManagementToken(tok string) bool { return tok == "mgmt-secret" }
func (b *fakeBackend) ResolveIdentityFromToken(secret string) (bool, structs.ACLIdentity, error) {
	b.mu.Lock()
	defer b.mu.Unlock()
	b.cur++
	a := b.att()
	switch a.Bk {
	case "tok":
		return true, b.materialise(a.BkTok, secret), nil
	case "nil":
		return true, nil, nil
	case "notfound":
		return true, nil, acl.ErrNotFound
	case "err":
		return true, nil, errInduced
	}
	return false, nil, nil
}
func (b *fakeBackend) ResolvePolicyFromID(id string) (bool, *structs.ACLPolicy, error) {
	b.mu.Lock()
	defer b.mu.Unlock()
	switch b.att().Pol {
	case "ok":
		p := &structs.ACLPolicy{ID: id, Name: id, Rules: `node_prefix "" { policy = "read" }`}
		p.SetHash(true)
		return true, p, nil
	case "other":
		return true, nil, errInduced
	}
	return false, nil, nil
}
func (b *fakeBackend) ResolveRoleFromID(string) (bool, *structs.ACLRole, error) {
	return true, nil, acl.ErrNotFound
}
func (b *fakeBackend) RPC(_ context.Context, method string, args interface{}, reply interface{}) error {
	b.mu.Lock()
	defer b.mu.Unlock()
	a := b.att()
	switch method {
	case "ACL.TokenRead":
		req := args.(*structs.ACLTokenGetRequest)
		resp := reply.(*structs.ACLTokenResponse)
		switch a.Rpc {
		case "tok":
			resp.Token, resp.SourceDatacenter = b.materialise(a.RpcTok, req.TokenID), "dc1"
			return nil
		case "tok-otherdc":
			resp.Token, resp.SourceDatacenter = b.materialise(a.RpcTok, req.TokenID), "dc2"
			return nil
		case "nil":
			return nil
		case "notfound":
			return acl.ErrNotFound
		}
		return errInduced
	case "ACL.PolicyResolve":
		switch a.Pol {
		case "toknotfound":
			return acl.ErrNotFound
		case "tokdenied":
			return acl.ErrPermissionDenied
		}
		return errInduced
	}
	return fmt.Errorf("unexpected RPC %s", method)
}

func newResolver(down string, acls, fresh bool, b *fakeBackend) *consul.ACLResolver {
	ttl := time.Hour
	if !fresh {
		ttl = -time.Nanosecond
	}
	toks := new(token.Store)
	toks.UpdateAgentRecoveryToken("recovery-secret", token.TokenSourceConfig)
	r, err := consul.NewACLResolver(&consul.ACLResolverConfig{
		Config: consul.ACLResolverSettings{ACLsEnabled: acls, Datacenter: "dc1", NodeName: "node1",
			ACLPolicyTTL: 0, ACLTokenTTL: ttl, ACLRoleTTL: 0, ACLDownPolicy: down, ACLDefaultPolicy: "deny"},
		Logger:      hclog.NewNullLogger(),
		CacheConfig: &structs.ACLCachesConfig{Identities: 64, Policies: 64, ParsedPolicies: 64, Authorizers: 64, Roles: 64},
		Backend:     b,
		Tokens:      toks,
	})
	if err != nil {
		panic(err)
	}
	return r
}

func identTerm(id structs.ACLIdentity) T {
	t, ok := id.(*structs.ACLToken)
	if !ok || t == nil {
		return nil
	}
	return some(C("Ident", atoi(t.AccessorID), expTerm(t.ExpirationTime), t.Local))
}

func tokDescTerm(b *fakeBackend, d *TokDesc, secret string) T {
	t := b.materialise(d, secret)
	return C("Ident", atoi(t.AccessorID), expTerm(t.ExpirationTime), t.Local)
}

func secretClass(s string) string {
	switch s {
	case "allow", "deny", "manage":
		return "root"
	case "recovery-secret", "mgmt-secret":
		return "local"
	}
	return "plain"
}

// runStep executes one ResolveToken call under the step's script and records everything.
func runStep(r *consul.ACLResolver, b *fakeBackend, rc ResolveCase, st StepScript) *Case {
	if st.SleepMs > 0 {
		time.Sleep(time.Duration(st.SleepMs) * time.Millisecond)
	}
	secret := st.Secret
	cacheKey := secret
	if secret == "" {
		cacheKey = "anonymous"
	}
	b.mu.Lock()
	b.attempts, b.cur, b.toks, b.t0 = st.Attempts, -1, map[string]*structs.ACLToken{}, time.Now()
	t0 := b.t0
	b.mu.Unlock()
	rc.Step, rc.Class, rc.Now = st, secretClass(secret), ns(t0)
	var cachedIn *structs.ACLToken
	if id, ok := r.VerifC09CachedIdentity(cacheKey); ok {
		rc.CacheIn = identTerm(id)
		cachedIn, _ = id.(*structs.ACLToken)
	}
	var res resolver.Result
	var err error
	if rc.Roles {
		var id structs.ACLIdentity
		id, err = r.VerifC09ResolveRoles(secret)
		if err == nil {
			res.ACLIdentity = id
		} else if consul.IsACLRemoteError(err) {
			res.ACLIdentity, err = downIdentity{}, nil // what ResolveToken would turn into the down policy
		}
	} else {
		res, err = r.ResolveToken(secret)
	}
	t1 := time.Now()
	r.VerifC09WaitIdentityFetch(cacheKey)
	if id, ok := r.VerifC09CachedIdentity(cacheKey); ok {
		rc.CacheOut = identTerm(id)
	}
	b.mu.Lock()
	// every policy id ever handed out on this resolver: a failed policy fetch leaves a negative
	// cache entry behind, also for the policies of an identity that was served from the cache
	for _, p := range b.policies {
		r.VerifC09ForgetPolicy(p)
	}
	var atts []T
	for _, a := range st.Attempts {
		var bk, rpc T
		switch a.Bk {
		case "tok":
			bk = C("BkDone", some(tokDescTerm(b, a.BkTok, cacheKey)), C("BkOk"))
		case "nil":
			bk = C("BkDone", nil, C("BkOk"))
		case "notfound":
			bk = C("BkDone", nil, C("BkNotFound"))
		case "err":
			bk = C("BkDone", nil, C("BkOther"))
		default:
			bk = C("BkNotDone")
		}
		switch a.Rpc {
		case "tok":
			rpc = C("RpcToken", tokDescTerm(b, a.RpcTok, cacheKey), true)
		case "tok-otherdc":
			rpc = C("RpcToken", tokDescTerm(b, a.RpcTok, cacheKey), false)
		case "nil":
			rpc = C("RpcNoToken")
		case "notfound":
			rpc = C("RpcNotFound")
		default:
			rpc = C("RpcFail")
		}
		pol := map[string]string{"ok": "PolOk", "toknotfound": "PolTokenNotFound", "tokdenied": "PolTokenDenied",
			"remote": "PolRemote", "other": "PolOther"}[a.Pol]
		atts = append(atts, C("Attempt", bk, rc.Fresh, rpc, C(pol), ns(t0)))
	}
	b.mu.Unlock()
	rc.Attempts = atts

	c := &Case{Kind: "resolve", Res: &rc}
	var granted *structs.ACLToken
	switch {
	case err != nil:
		switch {
		case errors.Is(err, acl.ErrRootDenied):
			rc.Out = C("ORootDenied")
		case acl.IsErrNotFound(err):
			rc.Out = C("OErr", C("ENotFound"))
		case acl.IsErrPermissionDenied(err):
			rc.Out = C("OErr", C("EDenied"))
		default:
			rc.Out = C("OErr", C("EOther"))
		}
		if res.Authorizer != nil {
			c.Oracle = "authorizer-with-error: ResolveToken returned an authorizer together with an error"
		}
	case res.ACLIdentity == nil:
		rc.Out = C("OManageAll")
	default:
		switch id := res.ACLIdentity.(type) {
		case *structs.ACLToken:
			granted = id
			rc.Out = C("OGranted", C("Ident", atoi(id.AccessorID), expTerm(id.ExpirationTime), id.Local))
		case *structs.AgentRecoveryTokenIdentity, *structs.ACLServerIdentity:
			rc.Out = C("OLocal")
		default:
			rc.Out = C("ODown") // the unexported missingIdentity
			if id.ID() != "primary-dc-down" {
				rc.Out = C("OUnknown")
			}
		}
	}
	// oracle: an identity whose expiration time lies before the start of the call is never honoured
	if granted != nil && granted.ExpirationTime != nil && !granted.ExpirationTime.IsZero() && granted.ExpirationTime.Before(t0) {
		c.Oracle = fmt.Sprintf("expired-token-honoured: token %s expired %v before the call and was resolved to an authorizer",
			granted.AccessorID, t0.Sub(*granted.ExpirationTime))
		c.Sig = map[string]any{"kind": "expired-token-honoured"}
	}
	if granted != nil && c.Oracle == "" && !rc.Roles {
		if res.Authorizer.NodeRead("x", nil) != acl.Allow || res.Authorizer.NodeWrite("x", nil) == acl.Allow {
			c.Oracle = "authorizer-mismatch: granted token does not carry exactly its policy"
		}
		// the expiry must not lie inside the call window, or the expected outcome is ambiguous
		if granted.ExpirationTime != nil && !granted.ExpirationTime.IsZero() && granted.ExpirationTime.Before(t1) {
			c.Mode = "ambiguous-window"
		}
	}
	// an expiration time inside the call window [t0, t1] makes the expected outcome depend on the
	// instant of the test: such steps are recorded but not compared (the machine may stall)
	inWindow := func(t *structs.ACLToken) bool {
		return t != nil && t.ExpirationTime != nil && !t.ExpirationTime.IsZero() &&
			!t.ExpirationTime.Before(t0) && !t.ExpirationTime.After(t1)
	}
	b.mu.Lock()
	for _, t := range b.toks {
		if inWindow(t) {
			c.Mode = "ambiguous-window"
		}
	}
	b.mu.Unlock()
	if inWindow(cachedIn) {
		c.Mode = "ambiguous-window"
	}
	if c.Mode == "ambiguous-window" {
		c.Oracle, c.Sig = "", nil
	}
	if c.Oracle != "" && c.Sig == nil {
		c.Sig = map[string]any{"kind": "resolver"}
	}
	rc.History = append(rc.History, st)
	c.Res = &rc
	return c
}

// downIdentity stands for the unexported missingIdentity{reason: "primary-dc-down"}
type downIdentity struct{ structs.ACLIdentity }

func (downIdentity) ID() string { return "primary-dc-down" }

var downPolicies = []string{"allow", "deny", "extend-cache", "async-cache"}

func randTok(rng *rand.Rand, acc int) *TokDesc {
	d := &TokDesc{Accessor: acc, Local: rng.Intn(5) == 0}
	switch rng.Intn(8) {
	case 0:
		d.ExpKind = "none"
	case 1:
		d.ExpKind = "zero"
	case 2, 3:
		d.ExpKind, d.ExpRel = "rel", int64(time.Hour)
	case 4:
		d.ExpKind, d.ExpRel = "rel", int64(10*time.Second)
	case 5:
		d.ExpKind, d.ExpRel = "rel", -int64(time.Hour)
	case 6:
		d.ExpKind, d.ExpRel = "rel", -int64(time.Second)
	default:
		d.ExpKind, d.ExpRel = "rel", -int64(time.Millisecond)
	}
	return d
}

func randAttempt(rng *rand.Rand, serverLike bool, acc int) AttemptScript {
	a := AttemptScript{Bk: "notdone", Rpc: "fail", Pol: "ok"}
	if serverLike {
		a.Bk = []string{"tok", "tok", "tok", "nil", "notfound", "err"}[rng.Intn(6)]
	} else if rng.Intn(8) == 0 {
		a.Bk = []string{"tok", "nil", "notfound", "err"}[rng.Intn(4)]
	}
	a.BkTok = randTok(rng, acc)
	a.Rpc = []string{"tok", "tok", "tok", "tok-otherdc", "nil", "notfound", "fail", "fail"}[rng.Intn(8)]
	a.RpcTok = randTok(rng, acc)
	if rng.Intn(3) == 0 {
		a.Pol = []string{"toknotfound", "tokdenied", "tokdenied", "remote", "other"}[rng.Intn(5)]
	}
	return a
}

func genResolveCases(rng *rand.Rand, tier string, emit func(*Case)) {
	seqs := 120
	if tier == "thorough" {
		seqs = 1500
	}
	for s := 0; s < seqs; s++ {
		rc := ResolveCase{Down: downPolicies[rng.Intn(4)], ACLs: rng.Intn(12) != 0, Fresh: rng.Intn(2) == 0}
		b := &fakeBackend{}
		r := newResolver(rc.Down, rc.ACLs, rc.Fresh, b)
		serverLike := rng.Intn(4) == 0
		secrets := []string{"sec-a", "sec-a", "sec-a", "sec-b", "", "allow", "manage", "deny", "recovery-secret", "mgmt-secret"}
		if rc.ACLs && rng.Intn(5) == 0 {
			rc.Roles = true // the roles copy of the loop: plain secrets, no policy resolution involved
			secrets = []string{"sec-a", "sec-a", "sec-b"}
		}
		steps := 3 + rng.Intn(6)
		var hist []StepScript
		for k := 0; k < steps; k++ {
			st := StepScript{Secret: secrets[rng.Intn(len(secrets))]}
			if k < 2 {
				st.Secret = "sec-a"
			}
			acc := 1 + rng.Intn(3)
			base := randAttempt(rng, serverLike, acc)
			for i := 0; i < 5; i++ {
				a := base
				if rng.Intn(3) == 0 {
					a = randAttempt(rng, serverLike, acc)
				}
				// an asynchronous refresh races with the cache eviction done by the policy error paths:
				// keep those two apart so that the cache after the step is determined
				if rc.Down == "async-cache" && (a.Pol == "toknotfound" || a.Pol == "tokdenied") {
					a.Pol = "ok"
				}
				if rc.Roles {
					a.Pol = "ok"
				}
				st.Attempts = append(st.Attempts, a)
			}
			rc.StepNo = k
			rc.History = hist
			c := runStep(r, b, rc, st)
			hist = c.Res.History
			emit(c)
		}
		r.Close()
	}
	genSleepCases(rng, tier, emit)
}

// Tokens that expire while they sit in the cache / in the store: resolved before and after.
func genSleepCases(rng *rand.Rand, tier string, emit func(*Case)) {
	k := 24
	if tier == "thorough" {
		k = 96
	}
	var mu sync.Mutex
	var wg sync.WaitGroup
	out := make([][]*Case, k)
	for i := 0; i < k; i++ {
		i := i
		variant := i % 3
		down := downPolicies[(i/3)%4]
		wg.Add(1)
		go func() {
			defer wg.Done()
			rc := ResolveCase{Down: down, ACLs: true, Fresh: variant != 2}
			b := &fakeBackend{}
			r := newResolver(rc.Down, true, rc.Fresh, b)
			defer r.Close()
			tok := &TokDesc{Accessor: 7, ExpKind: "rel", ExpRel: int64(60 * time.Millisecond)}
			first := AttemptScript{Bk: "notdone", Rpc: "tok", RpcTok: tok, Pol: "ok"}
			if variant == 1 {
				first = AttemptScript{Bk: "tok", BkTok: tok, Rpc: "fail", Pol: "ok"} // the store still holds it (not yet reaped)
			}
			s1 := StepScript{Secret: "sec-s"}
			for j := 0; j < 5; j++ {
				s1.Attempts = append(s1.Attempts, first)
			}
			c1 := runStep(r, b, rc, s1)
			// second step: 75 ms later the same token, now 15 ms past its expiration
			late := &TokDesc{Accessor: 7, ExpKind: "rel", ExpRel: -int64(15 * time.Millisecond)}
			second := AttemptScript{Bk: "notdone", Rpc: "fail", Pol: "ok"}
			switch variant {
			case 1:
				second = AttemptScript{Bk: "tok", BkTok: late, Rpc: "fail", Pol: "ok"}
			case 2:
				second = AttemptScript{Bk: "notdone", Rpc: "tok", RpcTok: late, Pol: "ok"} // stale entry, primary still returns it
			}
			s2 := StepScript{Secret: "sec-s", SleepMs: 75}
			for j := 0; j < 5; j++ {
				s2.Attempts = append(s2.Attempts, second)
			}
			rc2 := rc
			rc2.StepNo, rc2.History = 1, c1.Res.History
			c2 := runStep(r, b, rc2, s2)
			mu.Lock()
			out[i] = []*Case{c1, c2}
			mu.Unlock()
		}()
	}
	wg.Wait()
	for _, cs := range out {
		for _, c := range cs {
			if c.Mode == "" {
				c.Mode = "sleep"
			}
			emit(c)
		}
	}
	_ = rng
}

func replayResolve(raw []byte) *Case {
	var r struct {
		Res ResolveCase `json:"res"`
	}
	if err := json.Unmarshal(raw, &r); err != nil {
		panic(err)
	}
	rc := ResolveCase{Down: r.Res.Down, ACLs: r.Res.ACLs, Fresh: r.Res.Fresh, Roles: r.Res.Roles}
	b := &fakeBackend{}
	res := newResolver(rc.Down, rc.ACLs, rc.Fresh, b)
	defer res.Close()
	var last *Case
	for k, st := range r.Res.History {
		rc.StepNo = k
		last = runStep(res, b, rc, st)
		rc.History = last.Res.History
		if last.Oracle != "" {
			return last
		}
	}
	return last
}
