// Correspondence harness for property C09 (ACL enforcement: result filtering and token expiry).
//
// Part 1 (types.go, gen.go): for every type in the aclfilter.Filter type switch (table
// `respTypes`, plus FilterDirEnt / FilterTxnResults of agent/consul/filter.go) it generates
// responses, runs the real filter with real policy authorizers, and records the response
// before and after as terms of the Coq model's `response` type, the authorizer tabulated
// over the name universe, and a model-independent oracle verdict (element-wise recomputation
// of readability on input versus output).
//
// Part 2 (resolve.go): drives a real consul.ACLResolver over a scripted backend with tokens
// expiring before / after now, cached (fresh, stale) and uncached, every down policy.
//
// CLI: -seed N -tier quick|thorough -out FILE | -types | -replay FILE
package main

import (
	"bufio"
	"encoding/json"
	"flag"
	"fmt"
	"math/rand"
	"os"
	"sort"
)

// ---- Coq terms as JSON ---------------------------------------------------------------
//   {"c": "Ctor", "a": [args]}   constructor application
//   [..] list, number -> N, string -> string, bool, null -> None, {"some": x}, {"pair": [a, b]}
type T = any

func C(name string, args ...T) T {
	if args == nil {
		args = []T{}
	}
	return map[string]any{"c": name, "a": args}
}
func some(x T) T    { return map[string]any{"some": x} }
func pair(a, b T) T { return map[string]any{"pair": []T{a, b}} }
func list[E any](l []E, f func(E) T) T {
	out := make([]T, 0, len(l))
	for _, e := range l {
		out = append(out, f(e))
	}
	return out
}

// sorted association list of a Go map
func amap[V any](m map[string]V, f func(V) T) T {
	keys := make([]string, 0, len(m))
	for k := range m {
		keys = append(keys, k)
	}
	sort.Strings(keys)
	out := make([]T, 0, len(m))
	for _, k := range keys {
		out = append(out, pair(k, f(m[k])))
	}
	return out
}

type Case struct {
	ID     int            `json:"id"`
	Kind   string         `json:"kind"` // "filter" | "resolve" | "isexpired"
	Type   string         `json:"type,omitempty"`
	Mode   string         `json:"mode,omitempty"`
	N      int            `json:"n,omitempty"`
	Mask   int            `json:"mask,omitempty"`
	Seed   int64          `json:"seed"` // sub-seed that regenerates this case
	Policy string         `json:"policy,omitempty"`
	Deflt  string         `json:"default,omitempty"`
	Opt    Opt            `json:"opt"`
	Az     *AzTab         `json:"az,omitempty"`
	In     T              `json:"in,omitempty"`
	Out    T              `json:"out,omitempty"`
	Oracle string         `json:"oracle"`
	Sig    map[string]any `json:"sig,omitempty"`
	Panic  string         `json:"panic,omitempty"`
	Res    *ResolveCase   `json:"res,omitempty"`
	Exp    *ExpCase       `json:"exp,omitempty"`
	Ep     *EndpointCase  `json:"ep,omitempty"`
}

func main() {
	seed := flag.Int64("seed", 1, "seed")
	tier := flag.String("tier", "quick", "quick|thorough")
	out := flag.String("out", "", "output jsonl")
	types := flag.Bool("types", false, "print the table of handled Filter.Filter case types")
	replay := flag.String("replay", "", "replay file")
	flag.Parse()

	if *types {
		for _, rt := range respTypes {
			if rt.inSwitch {
				fmt.Println(rt.name)
			}
		}
		return
	}
	if *replay != "" {
		doReplay(*replay)
		return
	}

	w := bufio.NewWriterSize(os.Stdout, 1<<20)
	if *out != "" {
		f, err := os.Create(*out)
		if err != nil {
			panic(err)
		}
		defer f.Close()
		w = bufio.NewWriterSize(f, 1<<20)
	}
	defer w.Flush()
	enc := json.NewEncoder(w)
	id := 0
	emit := func(c *Case) {
		c.ID = id
		id++
		if err := enc.Encode(c); err != nil {
			panic(err)
		}
	}

	rng := rand.New(rand.NewSource(*seed))
	genFilterCases(rng, *tier, emit)
	genExpiredCases(rng, *tier, emit)
	genResolveCases(rng, *tier, emit)
	genEndpointCases(rng, *tier, emit)
}

func doReplay(path string) {
	b, err := os.ReadFile(path)
	if err != nil {
		panic(err)
	}
	var r struct {
		Kind   string `json:"kind"`
		Type   string `json:"type"`
		Mode   string `json:"mode"`
		N      int    `json:"n"`
		Mask   int    `json:"mask"`
		Seed   int64  `json:"seed"`
		Policy string `json:"policy"`
		Deflt  string `json:"default"`
		Opt    Opt    `json:"opt"`
	}
	if err := json.Unmarshal(b, &r); err != nil {
		panic(err)
	}
	enc := json.NewEncoder(os.Stdout)
	enc.SetIndent("", " ")
	switch r.Kind {
	case "filter":
		rt := findType(r.Type)
		if rt == nil {
			panic("unknown type " + r.Type)
		}
		// map-iterating branches depend on the runtime's iteration order: try several times
		for i := 0; i < 16; i++ {
			c := runFilterCase(rt, r.Mode, r.N, r.Mask, r.Seed, r.Policy, r.Deflt, r.Opt)
			if c.Oracle != "" || i == 15 {
				_ = enc.Encode(c)
				if c.Oracle != "" {
					fmt.Println("ORACLE FAILURE:", c.Oracle)
					os.Exit(1)
				}
			}
		}
		fmt.Println("oracle: ok")
	case "resolve":
		c := replayResolve(b)
		_ = enc.Encode(c)
		if c.Oracle != "" {
			fmt.Println("ORACLE FAILURE:", c.Oracle)
			os.Exit(1)
		}
		fmt.Println("oracle: ok")
	case "endpoint":
		var e struct {
			Ep EndpointCase `json:"ep"`
		}
		_ = json.Unmarshal(b, &e)
		rng := rand.New(rand.NewSource(1))
		failed := false
		genEndpointCases(rng, "quick", func(c *Case) {
			if c.Ep.Scenario == e.Ep.Scenario && c.Ep.Endpoint == e.Ep.Endpoint {
				_ = enc.Encode(c)
				if c.Oracle != "" {
					fmt.Println("ORACLE FAILURE:", c.Oracle)
					failed = true
				}
			}
		})
		if failed {
			os.Exit(1)
		}
		fmt.Println("oracle: ok")
	default:
		panic("unknown replay kind " + r.Kind)
	}
}
