// The "store" family of the C10 harness: the command vocabulary, encoders, result and dump
// projections of harness/store/main.go (same JSON shapes, so that checks/storelib.py and
// coq/Run/Store.v evaluate these histories against coq/Store/Model.v unchanged).
package main

import (
	"encoding/hex"
	"fmt"
	"reflect"
	"sort"
	"strings"
	"time"

	"github.com/hashicorp/go-hclog"
	"github.com/hashicorp/raft"

	"github.com/hashicorp/consul/agent/consul/fsm"
	"github.com/hashicorp/consul/agent/consul/state"
	"github.com/hashicorp/consul/agent/consul/stream"
	"github.com/hashicorp/consul/agent/structs"
	"github.com/hashicorp/consul/api"
	"github.com/hashicorp/consul/types"
)


// ---------------------------------------------------------------- command description (JSON)

type KVReq struct {
	Key     string `json:"key"`
	Value   string `json:"value"` // hex
	Flags   uint64 `json:"flags"`
	Session string `json:"session"`
	Index   uint64 `json:"index"`
	Lock    uint64 `json:"lock"`
}

type CheckReq struct {
	Node     string `json:"node"`
	ID       string `json:"id"`
	Status   int    `json:"status"` // 0 passing 1 warning 2 critical
	Service  string `json:"service"`
	SessType bool   `json:"sess_type"`
	SessName string `json:"sess_name"`
	Output   int    `json:"output"`
	Index    uint64 `json:"index"`
}

type TxnOp struct {
	Kind  string    `json:"kind"` // kv node service check session
	Verb  string    `json:"verb"`
	KV    *KVReq    `json:"kv,omitempty"`
	Node  string    `json:"node,omitempty"`
	ID    string    `json:"id,omitempty"`
	Addr  int       `json:"addr,omitempty"`
	Svc   string    `json:"svc,omitempty"`
	Name  string    `json:"name,omitempty"`
	Port  int       `json:"port,omitempty"`
	Index uint64    `json:"index,omitempty"`
	Check *CheckReq `json:"check,omitempty"`
	Sid   string    `json:"sid,omitempty"`
}

type Cmd struct {
	Kind string `json:"kind"` // kvs session_create session_destroy register deregister txn reap query_set query_delete
	Idx  uint64 `json:"idx"`
	Verb string `json:"verb,omitempty"`
	KV   *KVReq `json:"kv,omitempty"`
	// session
	Sid    string   `json:"sid,omitempty"`
	Node   string   `json:"node,omitempty"`
	Name   string   `json:"name,omitempty"`
	Delete bool     `json:"delete,omitempty"`
	Checks []string `json:"checks,omitempty"`
	Delay  bool     `json:"delay,omitempty"`
	// register
	ID       string     `json:"id,omitempty"`
	Addr     int        `json:"addr,omitempty"`
	Skip     bool       `json:"skip,omitempty"`
	HasSvc   bool       `json:"has_svc,omitempty"`
	Svc      string     `json:"svc,omitempty"`
	SvcName  string     `json:"svc_name,omitempty"`
	Port     int        `json:"port,omitempty"`
	RegCheck []CheckReq `json:"reg_checks,omitempty"`
	// deregister
	CheckID string `json:"check_id,omitempty"`
	// txn
	Ops []TxnOp `json:"ops,omitempty"`
	// reap
	Upto uint64 `json:"upto,omitempty"`
	// query
	Qid string `json:"qid,omitempty"`
}

// ---------------------------------------------------------------- projected observations

type KVRow struct {
	K string `json:"k"`
	V string `json:"v"`
	F uint64 `json:"f"`
	S string `json:"s"`
	L uint64 `json:"l"`
	C uint64 `json:"c"`
	M uint64 `json:"m"`
}
type SessRow struct {
	ID     string   `json:"id"`
	Node   string   `json:"node"`
	Name   string   `json:"name"`
	Del    bool     `json:"del"`
	Checks []string `json:"checks"`
	Delay  bool     `json:"delay"`
	C      uint64   `json:"c"`
}
type NodeRow struct {
	Name string `json:"name"`
	ID   string `json:"id"`
	Addr int    `json:"addr"`
	C    uint64 `json:"c"`
	M    uint64 `json:"m"`
}
type SvcRow struct {
	Node string `json:"node"`
	ID   string `json:"id"`
	Name string `json:"name"`
	Port int    `json:"port"`
	C    uint64 `json:"c"`
	M    uint64 `json:"m"`
}
type CheckRow struct {
	Node     string `json:"node"`
	ID       string `json:"id"`
	Status   int    `json:"status"`
	Svc      string `json:"svc"`
	SvcName  string `json:"svcname"`
	SessType bool   `json:"stype"`
	SessName string `json:"sname"`
	OutKind  string `json:"okind"` // user inforce invalid
	OutN     int    `json:"on"`
	OutSid   string `json:"osid"`
	C        uint64 `json:"c"`
	M        uint64 `json:"m"`
}
type Dump struct {
	KVs      []KVRow      `json:"kvs"`
	Tombs    [][2]string  `json:"tombs"` // key, index (decimal)
	Sessions []SessRow    `json:"sessions"`
	SChecks  [][3]string  `json:"schecks"`
	Queries  [][2]string  `json:"queries"`
	Nodes    []NodeRow    `json:"nodes"`
	Services []SvcRow     `json:"services"`
	Checks   []CheckRow   `json:"checks"`
	Index    [][2]string  `json:"index"`
	Delay    []string     `json:"lockdelay"`
}

type TRes struct {
	Kind  string    `json:"kind"` // kv node service check
	KV    *KVRow    `json:"kv,omitempty"`
	WithV bool      `json:"with_value,omitempty"`
	Node  *NodeRow  `json:"node,omitempty"`
	Svc   *SvcRow   `json:"svc,omitempty"`
	Check *CheckRow `json:"check,omitempty"`
}
type Res struct {
	Kind    string   `json:"kind"` // nil bool str err txn
	Bool    bool     `json:"bool,omitempty"`
	Str     string   `json:"str,omitempty"`

	svcNames  = []string{"web", "db"}
	checkIDs  = []string{"c1", "c2", "serfHealth", "sc1"}
	sessIDs   = []string{"aaaaaaaa-aaaa-aaaa-aaaa-aaaaaaaaaaaa", "bbbbbbbb-bbbb-bbbb-bbbb-bbbbbbbbbbbb", "cccccccc-cccc-cccc-cccc-cccccccccccc", "dddddddd-dddd-dddd-dddd-dddddddddddd"}
	sessNames = []string{"", "lockA", "lockB"}
	keys      = []string{"a", "a/", "a/b", "ab", "b", "é"}
	prefixes  = []string{"", "a", "a/", "b", "zz"}
	values    = [][]byte{{}, {1, 2, 3}, {255, 0}}
	queryIDs  = []string{"99999999-9999-9999-9999-999999999991", "99999999-9999-9999-9999-999999999992"}
)

// ---------------------------------------------------------------- recording publisher

type recPublisher struct{ events int }

func (r *recPublisher) Publish(e []stream.Event) { r.events += len(e) }
func (r *recPublisher) RegisterHandler(stream.Topic, stream.SnapshotFunc, bool) error {
	return nil
}
func (r *recPublisher) Subscribe(*stream.SubscribeRequest) (*stream.Subscription, error) {
	return nil, fmt.Errorf("not supported")
}

// ---------------------------------------------------------------- the implementation under test

type impl struct {

	f   *fsm.FSM
	pub *recPublisher
}

func newImpl() *impl {
	pub := &recPublisher{}
	f := fsm.NewFromDeps(fsm.Deps{
		Logger: hclog.NewNullLogger(),
		NewStateStore: func() *state.Store {
			return state.NewStateStoreWithEventPublisher(nil, pub)
		},
		StorageBackend: fsm.NullStorageBackend,
	})
	return &impl{f: f, pub: pub}
}

func (im *impl) store() *state.Store { return im.f.State() }

func dirEnt(q *KVReq) structs.DirEntry {
	v, _ := hex.DecodeString(q.Value)
	if len(v) == 0 {
		v = nil
	}
	return structs.DirEntry{Key: q.Key, Value: v, Flags: q.Flags, Session: q.Session, LockIndex: q.Lock,
		RaftIndex: structs.RaftIndex{ModifyIndex: q.Index}}
}

var statusNames = []string{api.HealthPassing, api.HealthWarning, api.HealthCritical}

func healthCheck(c *CheckReq) *structs.HealthCheck {
	hc := &structs.HealthCheck{Node: c.Node, CheckID: types.CheckID(c.ID), Name: "chk", Status: statusNames[c.Status],
		ServiceID: c.Service, Output: fmt.Sprintf("out%d", c.Output),
		RaftIndex: structs.RaftIndex{ModifyIndex: c.Index}}
	if c.SessType {
		hc.Type = "session"
		hc.Definition.SessionName = c.SessName
	}
	return hc
}

func addrOf(n int) string { return fmt.Sprintf("10.0.0.%d", n) }

func encode(c *Cmd) []byte {
	var t structs.MessageType
	var msg interface{}
	switch c.Kind {
	case "kvs":
		t = structs.KVSRequestType
		msg = &structs.KVSRequest{Datacenter: "dc1", Op: api.KVOp(c.Verb), DirEnt: dirEnt(c.KV)}
	case "session_create":
		t = structs.SessionRequestType
		s := structs.Session{ID: c.Sid, Node: c.Node, Name: c.Name, Behavior: structs.SessionKeysRelease}
		if c.Delete {
			s.Behavior = structs.SessionKeysDelete
		}
		for _, ck := range c.Checks {
			s.NodeChecks = append(s.NodeChecks, ck)
		}
		if c.Delay {
			s.LockDelay = 15 * time.Second
		}
		msg = &structs.SessionRequest{Datacenter: "dc1", Op: structs.SessionCreate, Session: s}
	case "session_destroy":
		t = structs.SessionRequestType
		msg = &structs.SessionRequest{Datacenter: "dc1", Op: structs.SessionDestroy, Session: structs.Session{ID: c.Sid}}
	case "register":
		t = structs.RegisterRequestType
		r := &structs.RegisterRequest{Datacenter: "dc1", Node: c.Node, ID: types.NodeID(c.ID), Address: addrOf(c.Addr), SkipNodeUpdate: c.Skip}
		if c.HasSvc {
			r.Service = &structs.NodeService{ID: c.Svc, Service: c.SvcName, Port: c.Port}
		}
		for i := range c.RegCheck {
			r.Checks = append(r.Checks, healthCheck(&c.RegCheck[i]))
		}
		msg = r
	case "deregister":
		t = structs.DeregisterRequestType
		msg = &structs.DeregisterRequest{Datacenter: "dc1", Node: c.Node, ServiceID: c.Svc, CheckID: types.CheckID(c.CheckID)}
	case "txn":
		t = structs.TxnRequestType
		r := &structs.TxnRequest{Datacenter: "dc1"}
		for i := range c.Ops {
			r.Ops = append(r.Ops, txnOp(&c.Ops[i]))
		}
		msg = r
	case "reap":
		t = structs.TombstoneRequestType
		msg = &structs.TombstoneRequest{Datacenter: "dc1", Op: structs.TombstoneReap, ReapIndex: c.Upto}
	case "query_set":
		t = structs.PreparedQueryRequestType
		msg = &structs.PreparedQueryRequest{Datacenter: "dc1", Op: structs.PreparedQueryCreate,
			Query: &structs.PreparedQuery{ID: c.Qid, Session: c.Sid, Service: structs.ServiceQuery{Service: "web"}}}
	case "query_delete":
		t = structs.PreparedQueryRequestType
		msg = &structs.PreparedQueryRequest{Datacenter: "dc1", Op: structs.PreparedQueryDelete,
			Query: &structs.PreparedQuery{ID: c.Qid}}
	default:
		panic("unknown cmd kind " + c.Kind)
	}
	b, err := structs.Encode(t, msg)
	if err != nil {
		panic(err)
	}
	return b
}

func txnOp(o *TxnOp) *structs.TxnOp {
	switch o.Kind {
	case "kv":
		return &structs.TxnOp{KV: &structs.TxnKVOp{Verb: api.KVOp(o.Verb), DirEnt: dirEnt(o.KV)}}
	case "node":
		return &structs.TxnOp{Node: &structs.TxnNodeOp{Verb: api.NodeOp(o.Verb),
			Node: structs.Node{Node: o.Node, ID: types.NodeID(o.ID), Address: addrOf(o.Addr), Datacenter: "dc1",
				RaftIndex: structs.RaftIndex{ModifyIndex: o.Index}}}}
	case "service":
		return &structs.TxnOp{Service: &structs.TxnServiceOp{Verb: api.ServiceOp(o.Verb), Node: o.Node,
			Service: structs.NodeService{ID: o.Svc, Service: o.Name, Port: o.Port,
				RaftIndex: structs.RaftIndex{ModifyIndex: o.Index}}}}
	case "check":
		return &structs.TxnOp{Check: &structs.TxnCheckOp{Verb: api.CheckOp(o.Verb), Check: *healthCheck(o.Check)}}
	case "session":
		return &structs.TxnOp{Session: &structs.TxnSessionOp{Verb: api.SessionDelete, Session: structs.Session{ID: o.Sid}}}
	}
	panic("unknown txn op kind " + o.Kind)
}

// errClass maps implementation error text to the model's enum.
func errClass(msg string) string {
	switch {
	case strings.Contains(msg, "failed to check session"), strings.Contains(msg, "failed session check"),
		strings.Contains(msg, "failed to check index"), strings.Contains(msg, "failed index check"),
		strings.HasSuffix(msg, " exists"):
		return "EGuard"
	case strings.Contains(msg, "index is stale"), strings.Contains(msg, "lock is already held"), strings.Contains(msg, "lock isn't held"):
		return "EStale"
	case strings.Contains(msg, "is reserved by node"):
		return "ESimilarName"
	case strings.Contains(msg, "does not match node"):
		return "ECheckNodeMismatch"
	case strings.Contains(msg, "Missing check '"), strings.Contains(msg, "' is in critical state"), strings.Contains(msg, "is in critical state"):
		return "EBadSessionCheck"
	case strings.Contains(msg, state.ErrMissingNode.Error()):
		return "EMissingNode"
	case strings.Contains(msg, state.ErrMissingService.Error()):
		return "EMissingService"
	case strings.Contains(msg, state.ErrMissingSessionID.Error()):
		return "EMissingSessionID"
	case strings.Contains(msg, "missing session"):
		return "ENoSession"
	case strings.Contains(msg, "invalid session"):
		return "EInvalidSession"
	case strings.Contains(msg, "doesn't exist"), strings.Contains(msg, "not found"):
		return "ENotFound"
	}
	return "EOther:" + msg
}

func parseOutput(o string) (string, int, string) {
	var n int
	if _, err := fmt.Sscanf(o, "out%d", &n); err == nil {
		return "user", n, ""
	}
	if strings.HasPrefix(o, "Session '") && strings.HasSuffix(o, "' in force") {
		return "inforce", 0, strings.TrimSuffix(strings.TrimPrefix(o, "Session '"), "' in force")
	}
	if strings.HasPrefix(o, "Session '") && strings.HasSuffix(o, "' is invalid") {
		return "invalid", 0, strings.TrimSuffix(strings.TrimPrefix(o, "Session '"), "' is invalid")
	}
	return "other:" + o, 0, ""
}

func addrNum(a string) int {
	var n int
	fmt.Sscanf(a, "10.0.0.%d", &n)
	return n
}

func statusNum(s string) int {
	for i, n := range statusNames {
		if n == s {
			return i
		}
	}
	return 99
}

func kvRow(e *structs.DirEntry) KVRow {
	return KVRow{K: e.Key, V: hex.EncodeToString(e.Value), F: e.Flags, S: e.Session, L: e.LockIndex, C: e.CreateIndex, M: e.ModifyIndex}
}
func nodeRow(n *structs.Node) NodeRow {
	return NodeRow{Name: n.Node, ID: string(n.ID), Addr: addrNum(n.Address), C: n.CreateIndex, M: n.ModifyIndex}
}
func checkRow(c *structs.HealthCheck) CheckRow {
	k, n, sid := parseOutput(c.Output)
	return CheckRow{Node: c.Node, ID: string(c.CheckID), Status: statusNum(c.Status), Svc: c.ServiceID, SvcName: c.ServiceName,
		SessType: c.Type == "session", SessName: c.Definition.SessionName, OutKind: k, OutN: n, OutSid: sid,
		C: c.CreateIndex, M: c.ModifyIndex}
}

func (im *impl) dump() Dump {
	d := Dump{KVs: []KVRow{}, Tombs: [][2]string{}, Sessions: []SessRow{}, SChecks: [][3]string{}, Queries: [][2]string{},
		Nodes: []NodeRow{}, Services: []SvcRow{}, Checks: []CheckRow{}, Index: [][2]string{}, Delay: []string{}}
	st := im.store()
	st.WalkAllTables(func(table string, item interface{}) bool {
		switch v := item.(type) {
		case *structs.DirEntry:
			d.KVs = append(d.KVs, kvRow(v))
		case *state.Tombstone:
			d.Tombs = append(d.Tombs, [2]string{v.Key, fmt.Sprint(v.Index)})
		case *structs.Session:
			r := SessRow{ID: v.ID, Node: v.Node, Name: v.Name, Del: v.Behavior == structs.SessionKeysDelete, Checks: []string{},
				Delay: v.LockDelay > 0, C: v.CreateIndex}
			for _, c := range v.CheckIDs() {
				r.Checks = append(r.Checks, string(c))
			}
			d.Sessions = append(d.Sessions, r)
		case *structs.Node:
			d.Nodes = append(d.Nodes, nodeRow(v))
		case *structs.ServiceNode:
			d.Services = append(d.Services, SvcRow{Node: v.Node, ID: v.ServiceID, Name: v.ServiceName, Port: v.ServicePort, C: v.CreateIndex, M: v.ModifyIndex})
		case *structs.HealthCheck:
			d.Checks = append(d.Checks, checkRow(v))
		case *state.IndexEntry:
			switch v.Key {
			case "kvs", "tombstones", "sessions", "prepared-queries":
				d.Index = append(d.Index, [2]string{v.Key, fmt.Sprint(v.Value)})
			}
		default:
			rv := reflect.Indirect(reflect.ValueOf(item))
			switch table {
			case "session_checks":
				cid := rv.FieldByName("CheckID").FieldByName("ID")
				d.SChecks = append(d.SChecks, [3]string{rv.FieldByName("Node").String(), cid.String(), rv.FieldByName("Session").String()})
			case "prepared-queries":
				pq := rv.FieldByName("PreparedQuery").Interface().(*structs.PreparedQuery)
				d.Queries = append(d.Queries, [2]string{pq.ID, pq.Session})
			}
		}
		return true
	})
	now := time.Now()
	for _, k := range keys {
		if st.KVSLockDelay(k, nil).After(now) {
			d.Delay = append(d.Delay, k)
		}
	}
	sort.Slice(d.KVs, func(i, j int) bool { return d.KVs[i].K < d.KVs[j].K })
	sort.Slice(d.Tombs, func(i, j int) bool { return d.Tombs[i][0] < d.Tombs[j][0] })
	sort.Slice(d.Sessions, func(i, j int) bool { return d.Sessions[i].ID < d.Sessions[j].ID })
	sort.Slice(d.SChecks, func(i, j int) bool { return fmt.Sprint(d.SChecks[i]) < fmt.Sprint(d.SChecks[j]) })
	sort.Slice(d.Queries, func(i, j int) bool { return d.Queries[i][0] < d.Queries[j][0] })
	sort.Slice(d.Nodes, func(i, j int) bool { return d.Nodes[i].Name < d.Nodes[j].Name })
	sort.Slice(d.Services, func(i, j int) bool { return d.Services[i].Node+"\x00"+d.Services[i].ID < d.Services[j].Node+"\x00"+d.Services[j].ID })
	sort.Slice(d.Checks, func(i, j int) bool { return d.Checks[i].Node+"\x00"+d.Checks[i].ID < d.Checks[j].Node+"\x00"+d.Checks[j].ID })
	sort.Slice(d.Index, func(i, j int) bool { return d.Index[i][0] < d.Index[j][0] })
	return d
}

func (im *impl) apply(c *Cmd) Res {
	out := im.f.Apply(&raft.Log{Index: c.Idx, Term: 1, Type: raft.LogCommand, Data: encode(c)})
	switch v := out.(type) {
	case nil:
		return Res{Kind: "nil"}
	case bool:
		return Res{Kind: "bool", Bool: v}
	case string:
		return Res{Kind: "str", Str: v}
	case error:
		return Res{Kind: "err", Err: errClass(v.Error()), Msg: v.Error()}
	case structs.TxnResponse:
		r := Res{Kind: "txn", Results: []TRes{}, Errors: [][2]any{}}
		for _, tr := range v.Results {
			switch {
			case tr.KV != nil:
				row := kvRow(tr.KV)
				r.Results = append(r.Results, TRes{Kind: "kv", KV: &row})
			case tr.Node != nil:
				row := nodeRow(tr.Node)
				r.Results = append(r.Results, TRes{Kind: "node", Node: &row})
			case tr.Service != nil:
				r.Results = append(r.Results, TRes{Kind: "service", Svc: &SvcRow{ID: tr.Service.ID, Name: tr.Service.Service, Port: tr.Service.Port,
					C: tr.Service.CreateIndex, M: tr.Service.ModifyIndex}})
			case tr.Check != nil:
				row := checkRow(tr.Check)
				r.Results = append(r.Results, TRes{Kind: "check", Check: &row})
			}
		}
		for _, e := range v.Errors {
			r.Errors = append(r.Errors, [2]any{e.OpIndex, errClass(e.What)})
		}
		return r
	}
	return Res{Kind: "err", Err: fmt.Sprintf("EOther:unexpected result type %T", out)}
}

