// The "cas" family of the C10 harness: conditional writes on the tables that coq/CAS/Model.v
// models itself (config entries, CA configuration, CA roots, autopilot configuration, ACL tokens,
// feature gates), driven through the real FSM.
package main

import (
	"crypto/sha256"
	"encoding/hex"
	"encoding/json"
	"fmt"
	"sort"
	"strings"

	"github.com/hashicorp/raft"

	"github.com/hashicorp/consul/agent/consul"
	"github.com/hashicorp/consul/agent/consul/state"
	"github.com/hashicorp/consul/agent/structs"
)

// ---------------------------------------------------------------- commands

type RootReq struct {
	ID     string `json:"id"`
	Active bool   `json:"active"`
}

type TokReq struct {
	Accessor string `json:"accessor"`
	Secret   string `json:"secret"`
	Descr    uint64 `json:"descr"`
	Index    uint64 `json:"index"`
}

// CCmd is one FSM command of the cas family.
//
//	cfg-upsert, cfg-upsert-cas, cfg-upsert-status-cas, cfg-delete, cfg-delete-cas
//	ca-set-config (Index 0 = unconditional, as the FSM decides), ca-set-roots, ca-set-roots-config
//	autopilot (CAS flag), token-set (CAS flag), token-delete, feature-gate
//	rpc-cfg-apply, rpc-cfg-delete (CAS flag): the decision of the RPC endpoints ConfigEntry.Apply /
//	ConfigEntry.Delete -- the real shouldSkipOperation, then the FSM command
type CCmd struct {
	Kind string `json:"kind"`
	Idx  uint64 `json:"idx"`
	// config entries
	CKind   string `json:"ckind,omitempty"`
	Name    string `json:"name,omitempty"`
	Content uint64 `json:"content,omitempty"`
	Status  uint64 `json:"status,omitempty"`
	// the supplied (expected) index; for ca-set-roots-config: of the roots table
	Index uint64 `json:"index,omitempty"`
	// CA
	Cluster  string    `json:"cluster,omitempty"`
	Provider uint64    `json:"provider,omitempty"`
	CfgIndex uint64    `json:"cfg_index,omitempty"` // ca-set-roots-config: expected index of the configuration
	Roots    []RootReq `json:"roots,omitempty"`
	// autopilot / tokens
	CAS     bool     `json:"cas,omitempty"`
	Payload uint64   `json:"payload,omitempty"`
	Tokens  []TokReq `json:"tokens,omitempty"`
	Accs    []string `json:"accessors,omitempty"`
	// feature gates
	HasPolicy bool   `json:"has_policy,omitempty"`
	Policy    uint64 `json:"policy,omitempty"`
	HasStatus bool   `json:"has_status,omitempty"`
	FGStatus  uint64 `json:"fg_status,omitempty"`
	EPI       uint64 `json:"epi,omitempty"`
	ESI       uint64 `json:"esi,omitempty"`
}

type CRes struct {
	Kind string `json:"kind"` // nil bool err
	Bool bool   `json:"bool,omitempty"`
	Err  string `json:"err,omitempty"` // model enum name
	Msg  string `json:"msg,omitempty"`
}

// ---------------------------------------------------------------- projected observations

type CfgRow struct {
	Kind    string `json:"kind"`
	Name    string `json:"name"`
	Content uint64 `json:"content"`
	Status  uint64 `json:"status"`
	C       uint64 `json:"c"`
	M       uint64 `json:"m"`
}
type CAConfRow struct {
	Cluster  string `json:"cluster"`
	Provider uint64 `json:"provider"`
	C        uint64 `json:"c"`
	M        uint64 `json:"m"`
}
type RootRow struct {
	ID     string `json:"id"`
	Active bool   `json:"active"`
	C      uint64 `json:"c"`
	M      uint64 `json:"m"`
}
type APRow struct {
	Payload uint64 `json:"payload"`
	C       uint64 `json:"c"`
	M       uint64 `json:"m"`
}
type TokRow struct {
	Accessor string `json:"accessor"`
	Secret   string `json:"secret"`
	Descr    uint64 `json:"descr"`
	C        uint64 `json:"c"`
	M        uint64 `json:"m"`
}
type FGPRow struct {
	Payload uint64 `json:"payload"`
	C       uint64 `json:"c"`
	M       uint64 `json:"m"`
}
type FGSRow struct {
	Payload     uint64 `json:"payload"`
	PolicyIndex uint64 `json:"policy_index"`
	C           uint64 `json:"c"`
	M           uint64 `json:"m"`
}
type CDump struct {
	Cfg       []CfgRow    `json:"cfg"`
	CAConfig  *CAConfRow  `json:"ca_config"`
	Roots     []RootRow   `json:"roots"`
	Autopilot *APRow      `json:"autopilot"`
	Tokens    []TokRow    `json:"tokens"`
	FGPolicy  *FGPRow     `json:"fg_policy"`
	FGStatus  *FGSRow     `json:"fg_status"`
	Index     [][2]string `json:"index"` // every row of the index table
	Other     []string    `json:"other"` // rows of tables outside the family's vocabulary (expected: none)
}

// ---------------------------------------------------------------- encoders

var protocols = []string{"", "http", "tcp", "grpc"}

func numOf(s, prefix string) uint64 {
	var n uint64
	if _, err := fmt.Sscanf(s, prefix+"%d", &n); err != nil {
		return 9999
	}
	return n
}

func configEntry(kind, name string, content, status, cidx uint64) structs.ConfigEntry {
	ri := structs.RaftIndex{ModifyIndex: cidx}
	switch kind {
	case structs.ServiceDefaults:
		return &structs.ServiceConfigEntry{Kind: kind, Name: name, Protocol: protocols[content%4], RaftIndex: ri}
	case structs.ServiceRouter:
		return &structs.ServiceRouterConfigEntry{Kind: kind, Name: name, Meta: map[string]string{"v": fmt.Sprintf("m%d", content)}, RaftIndex: ri}
	case structs.TCPRoute:
		e := &structs.TCPRouteConfigEntry{Kind: kind, Name: name, Services: []structs.TCPService{{Name: fmt.Sprintf("svc%d", content)}}, RaftIndex: ri}
		if status > 0 {
			e.Status = structs.Status{Conditions: []structs.Condition{{Type: fmt.Sprintf("c%d", status), Status: "True"}}}
		}
		return e
	}
	panic("unknown config entry kind " + kind)
}

func caRoots(rs []RootReq) []*structs.CARoot {
	var out []*structs.CARoot
	for _, r := range rs {
		out = append(out, &structs.CARoot{ID: r.ID, Name: "root " + r.ID, Active: r.Active})
	}
	return out
}

func caConfig(cluster string, provider, cidx uint64) *structs.CAConfiguration {
	return &structs.CAConfiguration{ClusterID: cluster, Provider: fmt.Sprintf("p%d", provider),
		Config: map[string]interface{}{}, RaftIndex: structs.RaftIndex{ModifyIndex: cidx}}
}

func cencode(c *CCmd) []byte {
	var t structs.MessageType
	var msg interface{}
	switch c.Kind {
	case "cfg-upsert", "cfg-upsert-cas", "cfg-upsert-status-cas", "cfg-delete", "cfg-delete-cas":
		t = structs.ConfigEntryRequestType
		op := map[string]structs.ConfigEntryOp{"cfg-upsert": structs.ConfigEntryUpsert, "cfg-upsert-cas": structs.ConfigEntryUpsertCAS,
			"cfg-upsert-status-cas": structs.ConfigEntryUpsertWithStatusCAS, "cfg-delete": structs.ConfigEntryDelete,
			"cfg-delete-cas": structs.ConfigEntryDeleteCAS}[c.Kind]
		e := configEntry(c.CKind, c.Name, c.Content, c.Status, c.Index)
		if err := e.Normalize(); err != nil {
			panic(err)
		}
		msg = &structs.ConfigEntryRequest{Datacenter: "dc1", Op: op, Entry: e}
	case "ca-set-config":
		t = structs.ConnectCARequestType
		msg = &structs.CARequest{Datacenter: "dc1", Op: structs.CAOpSetConfig, Config: caConfig(c.Cluster, c.Provider, c.Index)}
	case "ca-set-roots":
		t = structs.ConnectCARequestType
		msg = &structs.CARequest{Datacenter: "dc1", Op: structs.CAOpSetRoots, Index: c.Index, Roots: caRoots(c.Roots)}
	case "ca-set-roots-config":
		t = structs.ConnectCARequestType
		msg = &structs.CARequest{Datacenter: "dc1", Op: structs.CAOpSetRootsAndConfig, Index: c.Index, Roots: caRoots(c.Roots),
			Config: caConfig(c.Cluster, c.Provider, c.CfgIndex)}
	case "autopilot":
		t = structs.AutopilotRequestType
		msg = &structs.AutopilotSetConfigRequest{Datacenter: "dc1", CAS: c.CAS,
			Config: structs.AutopilotConfig{CleanupDeadServers: true, MaxTrailingLogs: c.Payload, ModifyIndex: c.Index}}
	case "token-set":
		t = structs.ACLTokenSetRequestType
		r := &structs.ACLTokenBatchSetRequest{CAS: c.CAS}
		for _, q := range c.Tokens {
			r.Tokens = append(r.Tokens, &structs.ACLToken{AccessorID: q.Accessor, SecretID: q.Secret, Description: fmt.Sprintf("d%d", q.Descr),
				RaftIndex: structs.RaftIndex{ModifyIndex: q.Index}})
		}
		msg = r
	case "token-delete":
		t = structs.ACLTokenDeleteRequestType
		msg = &structs.ACLTokenBatchDeleteRequest{TokenIDs: c.Accs}
	case "feature-gate":
		t = structs.FeatureGateRequestType
		r := &structs.FeatureGateUpdateRequest{ExpectedPolicyIndex: c.EPI, ExpectedStatusIndex: c.ESI}
		if c.HasPolicy {
			r.Policy = &structs.FeatureGatePolicy{Settings: map[string]structs.FeatureGateSetting{
				fmt.Sprintf("f%d", c.Policy): {Enabled: true, Source: structs.FeatureGateSourceOperator}}}
		}
		if c.HasStatus {
			r.Status = &structs.FeatureGateStatus{RegistryDigest: fmt.Sprintf("g%d", c.FGStatus)}
		}
		msg = r
	default:
		panic("unknown cas cmd kind " + c.Kind)
	}
	b, err := structs.Encode(t, msg)
	if err != nil {
		panic(err)
	}
	return b
}

// cerrClass maps implementation error text to the model's enum.
func cerrClass(msg string) string {
	switch {
	case strings.Contains(msg, "does not permit advanced routing or splitting behavior"):
		return "EGraph"
	case strings.Contains(msg, "ModifyIndex did not match existing"):
		return "ECAConfigIndex"
	case strings.Contains(msg, "there must be exactly one active CA"):
		return "EActiveRoots"
	case strings.Contains(msg, "is replaced by a later entry with the same ID"):
		return "EActiveReplaced"
	case strings.Contains(msg, state.ErrMissingCARootID.Error()):
		return "ERootID"
	case strings.Contains(msg, state.ErrMissingACLTokenSecret.Error()):
		return "ENoSecret"
	case strings.Contains(msg, state.ErrMissingACLTokenAccessor.Error()):
		return "ENoAccessor"
	case strings.Contains(msg, "SecretID field is immutable"):
		return "ESecretImmutable"
	case strings.Contains(msg, "feature-gate update requires status"):
		return "EFGNoStatus"
	case strings.Contains(msg, "feature-gate status cannot exist without policy"):
		return "EFGNoPolicy"
	}
	return "EOther:" + msg
}

// rpcConfigEntry mirrors the tail of ConfigEntry.Apply / ConfigEntry.Delete (config_endpoint.go): the
// operation is normalised to upsert / upsert-cas (delete / delete-cas), the real shouldSkipOperation
// is consulted, and only if it declines is the Raft command applied and its boolean returned.
func (im *impl) rpcConfigEntry(c *CCmd) CRes {
	e := configEntry(c.CKind, c.Name, c.Content, c.Status, c.Index)
	if err := e.Normalize(); err != nil {
		panic(err)
	}
	var op structs.ConfigEntryOp
	del := c.Kind == "rpc-cfg-delete"
	switch {
	case del && c.CAS:
		op = structs.ConfigEntryDeleteCAS
	case del:
		op = structs.ConfigEntryDelete
	case c.CAS:
		op = structs.ConfigEntryUpsertCAS
	default:
		op = structs.ConfigEntryUpsert
	}
	args := &structs.ConfigEntryRequest{Datacenter: "dc1", Op: op, Entry: e}
	skip, err := consul.VerifC10ConfigEntryShouldSkip(im.f, args)
	if err != nil {
		return CRes{Kind: "err", Err: cerrClass(err.Error()), Msg: err.Error()}
	}
	if skip {
		return CRes{Kind: "bool", Bool: true} // "*reply = true" / "reply.Deleted = true"
	}
	b, err := structs.Encode(structs.ConfigEntryRequestType, args)
	if err != nil {
		panic(err)
	}
	switch v := im.f.Apply(&raft.Log{Index: c.Idx, Term: 1, Type: raft.LogCommand, Data: b}).(type) {
	case bool:
		return CRes{Kind: "bool", Bool: v}
	case nil: // plain delete: "any non-error result indicates a successful deletion"
		return CRes{Kind: "bool", Bool: true}
	case error:
		return CRes{Kind: "err", Err: cerrClass(v.Error()), Msg: v.Error()}
	default:
		return CRes{Kind: "err", Err: fmt.Sprintf("EOther:unexpected result type %T", v)}
	}
}

func (im *impl) capply(c *CCmd) CRes {
	if c.Kind == "rpc-cfg-apply" || c.Kind == "rpc-cfg-delete" {
		return im.rpcConfigEntry(c)
	}
	out := im.f.Apply(&raft.Log{Index: c.Idx, Term: 1, Type: raft.LogCommand, Data: cencode(c)})
	switch v := out.(type) {
	case nil:
		return CRes{Kind: "nil"}
	case bool:
		return CRes{Kind: "bool", Bool: v}
	case error:
		return CRes{Kind: "err", Err: cerrClass(v.Error()), Msg: v.Error()}
	}
	return CRes{Kind: "err", Err: fmt.Sprintf("EOther:unexpected result type %T", out)}
}

// ---------------------------------------------------------------- dump

func (im *impl) cdump() CDump {
	d := CDump{Cfg: []CfgRow{}, Roots: []RootRow{}, Tokens: []TokRow{}, Index: [][2]string{}, Other: []string{}}
	im.store().WalkAllTables(func(table string, item interface{}) bool {
		switch v := item.(type) {
		case *structs.ServiceConfigEntry:
			p := uint64(9999)
			for i, n := range protocols {
				if n == v.Protocol {
					p = uint64(i)
				}
			}
			d.Cfg = append(d.Cfg, CfgRow{Kind: v.Kind, Name: v.Name, Content: p, C: v.CreateIndex, M: v.ModifyIndex})
		case *structs.ServiceRouterConfigEntry:
			d.Cfg = append(d.Cfg, CfgRow{Kind: v.Kind, Name: v.Name, Content: numOf(v.Meta["v"], "m"), C: v.CreateIndex, M: v.ModifyIndex})
		case *structs.TCPRouteConfigEntry:
			r := CfgRow{Kind: v.Kind, Name: v.Name, Content: 9999, C: v.CreateIndex, M: v.ModifyIndex}
			if len(v.Services) == 1 {
				r.Content = numOf(v.Services[0].Name, "svc")
			}
			switch len(v.Status.Conditions) {
			case 0:
			case 1:
				r.Status = numOf(v.Status.Conditions[0].Type, "c")
			default:
				r.Status = 9999
			}
			d.Cfg = append(d.Cfg, r)
		case *structs.CAConfiguration:
			d.CAConfig = &CAConfRow{Cluster: v.ClusterID, Provider: numOf(v.Provider, "p"), C: v.CreateIndex, M: v.ModifyIndex}
		case *structs.CARoot:
			d.Roots = append(d.Roots, RootRow{ID: v.ID, Active: v.Active, C: v.CreateIndex, M: v.ModifyIndex})
		case *structs.AutopilotConfig:
			d.Autopilot = &APRow{Payload: v.MaxTrailingLogs, C: v.CreateIndex, M: v.ModifyIndex}
		case *structs.ACLToken:
			d.Tokens = append(d.Tokens, TokRow{Accessor: v.AccessorID, Secret: v.SecretID, Descr: numOf(v.Description, "d"), C: v.CreateIndex, M: v.ModifyIndex})
		case *structs.FeatureGatePolicy:
			r := &FGPRow{Payload: 9999, C: v.CreateIndex, M: v.ModifyIndex}
			if len(v.Settings) == 1 {
				for k := range v.Settings {
					r.Payload = numOf(k, "f")
				}
			}
			d.FGPolicy = r
		case *structs.FeatureGateStatus:
			d.FGStatus = &FGSRow{Payload: numOf(v.RegistryDigest, "g"), PolicyIndex: v.PolicyIndex, C: v.CreateIndex, M: v.ModifyIndex}
		case *state.IndexEntry:
			d.Index = append(d.Index, [2]string{v.Key, fmt.Sprint(v.Value)})
		default:
			if table != "usage" { // derived counters; covered by the fingerprint
				d.Other = append(d.Other, fmt.Sprintf("%s:%T", table, item))
			}
		}
		return true
	})
	sort.Slice(d.Cfg, func(i, j int) bool { return d.Cfg[i].Kind+"\x00"+d.Cfg[i].Name < d.Cfg[j].Kind+"\x00"+d.Cfg[j].Name })
	sort.Slice(d.Roots, func(i, j int) bool { return d.Roots[i].ID < d.Roots[j].ID })
	sort.Slice(d.Tokens, func(i, j int) bool { return d.Tokens[i].Accessor < d.Tokens[j].Accessor })
	sort.Slice(d.Index, func(i, j int) bool { return d.Index[i][0] < d.Index[j][0] })
	sort.Strings(d.Other)
	return d
}

// fingerprint hashes every row of every table (JSON of the stored object, which follows pointers
// and sorts map keys); it is used only to decide "the whole store is unchanged", never compared
// with the model.
func (im *impl) fingerprint() string {
	var rows []string
	im.store().WalkAllTables(func(table string, item interface{}) bool {
		b, err := json.Marshal(item)
		if err != nil {
			b = []byte(fmt.Sprintf("%+v", item))
		}
		rows = append(rows, table+"\x00"+string(b))
		return true
	})
	sort.Strings(rows)
	h := sha256.New()
	for _, r := range rows {
		h.Write([]byte(r))
		h.Write([]byte{0})
	}
	return hex.EncodeToString(h.Sum(nil))[:24]
}
