// Correspondence harness and direct oracle for property C10 (conditional writes are honest).
//
// It drives a real fsm.FSM (state.Store underneath) with encoded Raft log entries.  Two families of
// histories are produced, one JSON line each:
//
//	store  KV set-cas / delete-cas (direct and inside transactions) and the transaction verbs
//	       node / service / check cas and delete-cas, in the vocabulary of harness/store, so that
//	       coq/Store/Model.v (the model already tied to the code by C03-C05) evaluates them;
//	cas    config entries (upsert-cas, upsert-with-status-cas, delete-cas), CA configuration, CA
//	       roots, roots+configuration, autopilot, ACL token set with the CAS option, feature gates,
//	       evaluated against coq/CAS/Model.v.
//
// Cases: the full cross product  command type x pre-state {absent, present, recreated} x supplied
// index {zero, current, stale, future} x payload {same, different, invalid}  on a fresh store each,
// then random histories in which many conditional commands hit an accumulated state.
//
// The oracle is independent of the models: for every conditional command it reads the target's
// presence and current index from the real store before the command, the FSM result, a fingerprint
// of ALL tables before/after and the target row afterwards, and states
//
//	reported_ok -> matched                       (never report success on a mismatch)
//	matched /\ not reported_ok -> result is an error (the only excuse is a rejected write)
//	not reported_ok -> whole store unchanged     (all data and all index rows)
//	reported_ok -> the target reflects the request
//	composite: roots replaced <-> configuration replaced
//
// with the delete variant pinned by upstream's tests for KV: reported_ok <-> key absent afterwards
// /\ (was present -> matched).
package main

import (
	"bufio"
	"strings"
	"encoding/json"
	"flag"
	"fmt"
	"math/rand"
	"os"

	"github.com/hashicorp/consul/agent/structs"
	"github.com/hashicorp/consul/types"
)

var keys = []string{"a", "b", "t"}

const (
	tk0 = "aaaaaaaa-0000-0000-0000-000000000000"
	tk1 = "aaaaaaaa-0000-0000-0000-000000000001"
	tk2 = "aaaaaaaa-0000-0000-0000-000000000002"
	id1 = "11111111-1111-1111-1111-111111111111"
	id2 = "22222222-2222-2222-2222-222222222222"
)

// Obs is what the oracle saw of one conditional command.
type Obs struct {
	Step     int            `json:"step"`
	Target   string         `json:"target"`
	Pre      string         `json:"pre"`
	IdxClass string         `json:"idx_class"`
	Payload  string         `json:"payload"`
	Supplied uint64         `json:"supplied"`
	Present  bool           `json:"present"`
	Current  uint64         `json:"current"`
	Matched  bool           `json:"matched"`
	Reported bool           `json:"reported"`
	Result   string         `json:"result"`
	Changed  bool           `json:"changed"`        // any row of any table differs (fingerprint)
	TChanged bool           `json:"target_changed"` // the entity's presence or modify index differs
	PayloadEqual bool       `json:"payload_equal,omitempty"` // rpc targets: the submitted content/status equal the stored row's
	Effect   string         `json:"effect,omitempty"`
	Oracle   string         `json:"oracle"`
	Sig      map[string]any `json:"sig,omitempty"`
	nocoq    bool
}

type CStep struct {
	Cmd  CCmd   `json:"cmd"`
	Res  CRes   `json:"res"`
	Dump *CDump `json:"dump,omitempty"`
}

type Case struct {
	ID     int    `json:"id"`
	Family string `json:"family"`
	Mode   string `json:"mode"` // cross | random | txn-shape
	NoCoq  bool   `json:"nocoq,omitempty"`
	// store family (shapes of harness/store)
	Cmds    []Cmd `json:"cmds,omitempty"`
	Results []Res `json:"results,omitempty"`
	Final   *Dump `json:"final,omitempty"`
	// cas family
	Steps []CStep `json:"steps,omitempty"`
	Obs   []Obs   `json:"obs"`
}

// ---------------------------------------------------------------- one run against a fresh FSM

type run struct {
	im       *impl
	idx      uint64
	rng      *rand.Rand
	family   string
	cmds     []Cmd
	results  []Res
	steps    []CStep
	perStep  bool // record the dump after every cas-family command
	lastSRes Res
	lastCRes CRes
	payloadEqual bool // set by the rpc targets' cond
}

func newRun(rng *rand.Rand, family string, perStep bool) *run {
	return &run{im: newImpl(), idx: 1 + uint64(rng.Intn(3)), rng: rng, family: family, perStep: perStep}
}

func (b *run) next() uint64 {
	b.idx += 1 + uint64(b.rng.Intn(3))
	return b.idx
}

func (b *run) s(c Cmd) Res {
	c.Idx = b.next()
	r := b.im.apply(&c)
	b.cmds = append(b.cmds, c)
	b.results = append(b.results, r)
	b.lastSRes = r
	return r
}

func (b *run) c(c CCmd) CRes {
	c.Idx = b.next()
	r := b.im.capply(&c)
	st := CStep{Cmd: c, Res: r}
	if b.perStep {
		d := b.im.cdump()
		st.Dump = &d
	}
	b.steps = append(b.steps, st)
	b.lastCRes = r
	return r
}

func (b *run) nsteps() int {
	if b.family == "store" {
		return len(b.cmds)
	}
	return len(b.steps)
}

// result classes of the last command
func sClass(r Res) (string, bool, bool) { // class, reported_ok, is_error (an error other than the mismatch value)
	switch r.Kind {
	case "bool":
		return fmt.Sprint(r.Bool), r.Bool, false
	case "nil":
		return "nil", true, false
	case "err":
		return "err:" + r.Err, false, true
	case "txn":
		if len(r.Errors) == 0 {
			return "txn-ok", true, false
		}
		cls := fmt.Sprint(r.Errors[0][1])
		return "txn-err:" + cls, false, cls != "EStale"
	}
	return "?" + r.Kind, false, true
}

func cClass(r CRes) (string, bool, bool) {
	switch r.Kind {
	case "bool":
		return fmt.Sprint(r.Bool), r.Bool, false
	case "nil":
		return "nil", true, false
	case "err":
		return "err:" + r.Err, false, r.Err != "ECAConfigIndex"
	}
	return "?" + r.Kind, false, true
}

// ---------------------------------------------------------------- targets

// A target is one conditional command type together with the way its pre-states are built and its
// entity is observed.  kind: upsert | delete | kvdelete (delete that reports success on an absent key).
type target struct {
	name     string
	family   string
	kind     string
	txn      bool // the command is a transaction with a trailing unconditional write
	batch    bool // the command carries a second, unrelated write that legitimately changes the store
	nocoq    bool // outside the models' vocabulary (mixed-case names): judged by the oracle only
	payloads []string
	// remove deletes the entity with an unconditional command (pre-state "deleted"); nil for singletons.
	remove func(b *run)
	// sibling writes ANOTHER entity of the same table (index class "sibling": the table's newest index).
	sibling func(b *run)
	// setup builds the pre-state with unconditional commands and returns an index the entity carried
	// earlier (0 when there is none).
	setup func(b *run, pre, payload string) uint64
	// cur reads presence and current index of the entity from the real store.
	cur func(b *run) (bool, uint64)
	// matched overrides the default notion (supplied == current, absent = 0 / delete: present && equal).
	matched func(b *run, supplied uint64) bool
	// cond issues the conditional command.
	cond func(b *run, supplied uint64, payload string)
	// reflects: "" when the entity after the command is what the request asked for.
	reflects func(b *run, payload string) string
	// extra oracle rules evaluated with the dumps before/after (composite command).
	extra func(before, after *CDump, payload string) string
}

func kvq(key string, val byte, idx uint64) *KVReq {
	return &KVReq{Key: key, Value: fmt.Sprintf("%02x", val), Index: idx}
}

func (b *run) kvGet(k string) *structs.DirEntry {
	_, e, _ := b.im.store().KVSGet(nil, k, nil)
	return e
}

func kvTargets() []target {
	setup := func(b *run, pre, payload string) uint64 {
		b.s(Cmd{Kind: "kvs", Verb: "set", KV: kvq("b", 1, 0)})
		switch pre {
		case "present":
			b.s(Cmd{Kind: "kvs", Verb: "set", KV: kvq("a", 1, 0)})
			st := b.idx
			b.s(Cmd{Kind: "kvs", Verb: "set", KV: kvq("a", 2, 0)})
			return st
		case "recreated":
			b.s(Cmd{Kind: "kvs", Verb: "set", KV: kvq("a", 1, 0)})
			st := b.idx
			b.s(Cmd{Kind: "kvs", Verb: "delete", KV: kvq("a", 0, 0)})
			b.s(Cmd{Kind: "kvs", Verb: "set", KV: kvq("a", 1, 0)})
			return st
		}
		return 0
	}
	cur := func(b *run) (bool, uint64) {
		if e := b.kvGet("a"); e != nil {
			return true, e.ModifyIndex
		}
		return false, 0
	}
	val := func(b *run, payload string) byte {
		if e := b.kvGet("a"); e != nil && payload == "same" && len(e.Value) == 1 {
			return e.Value[0]
		}
		if payload == "same" {
			return 1
		}
		if e := b.kvGet("a"); e != nil && len(e.Value) == 1 && e.Value[0] == 7 {
			return 8
		}
		return 7
	}
	var want byte
	refl := func(b *run, payload string) string {
		e := b.kvGet("a")
		if e == nil || len(e.Value) != 1 || e.Value[0] != want {
			return "key a does not hold the requested value"
		}
		return ""
	}
	gone := func(b *run, payload string) string {
		if b.kvGet("a") != nil {
			return "key a still present"
		}
		return ""
	}
	trailer := TxnOp{Kind: "kv", Verb: "set", KV: kvq("t", 9, 0)}
	kvRemove := func(b *run) { b.s(Cmd{Kind: "kvs", Verb: "delete", KV: kvq("a", 0, 0)}) }
	kvSibling := func(b *run) { b.s(Cmd{Kind: "kvs", Verb: "set", KV: kvq("b", byte(2+b.rng.Intn(3)), 0)}) }
	ts := []target{
		{name: "kv-cas", family: "store", kind: "upsert", payloads: []string{"same", "different"}, setup: setup, cur: cur, reflects: refl,
			cond: func(b *run, sup uint64, p string) {
				want = val(b, p)
				b.s(Cmd{Kind: "kvs", Verb: "cas", KV: kvq("a", want, sup)})
			}},
		{name: "kv-delete-cas", family: "store", kind: "kvdelete", payloads: []string{"same"}, setup: setup, cur: cur, reflects: gone,
			cond: func(b *run, sup uint64, p string) { b.s(Cmd{Kind: "kvs", Verb: "delete-cas", KV: kvq("a", 0, sup)}) }},
		{txn: true, name: "txn-kv-cas", family: "store", kind: "upsert", payloads: []string{"same", "different"}, setup: setup, cur: cur, reflects: refl,
			cond: func(b *run, sup uint64, p string) {
				want = val(b, p)
				b.s(Cmd{Kind: "txn", Ops: []TxnOp{{Kind: "kv", Verb: "cas", KV: kvq("a", want, sup)}, trailer}})
			}},
		{txn: true, name: "txn-kv-delete-cas", family: "store", kind: "kvdelete", payloads: []string{"same"}, setup: setup, cur: cur, reflects: gone,
			cond: func(b *run, sup uint64, p string) {
				b.s(Cmd{Kind: "txn", Ops: []TxnOp{{Kind: "kv", Verb: "delete-cas", KV: kvq("a", 0, sup)}, trailer}})
			}},
	}
	for i := range ts {
		ts[i].remove, ts[i].sibling = kvRemove, kvSibling
	}
	return ts
}

func catalogTargets() []target {
	serf := CheckReq{Node: "n1", ID: "serfHealth", Status: 0}
	regNode := func(b *run, addr int) {
		b.s(Cmd{Kind: "register", Node: "n1", ID: id1, Addr: addr, RegCheck: []CheckReq{serf}})
	}
	regSvc := func(b *run, port int) {
		b.s(Cmd{Kind: "register", Node: "n1", ID: id1, Addr: 1, HasSvc: true, Svc: "s1", SvcName: "web", Port: port})
	}
	regCheck := func(b *run, out int) {
		b.s(Cmd{Kind: "register", Node: "n1", ID: id1, Addr: 1, RegCheck: []CheckReq{{Node: "n1", ID: "c1", Status: 1, Output: out}}})
	}
	other := func(b *run) { b.s(Cmd{Kind: "register", Node: "n2", Addr: 5}) }
	trailer := TxnOp{Kind: "kv", Verb: "set", KV: kvq("t", 9, 0)}

	nodeSetup := func(b *run, pre, payload string) uint64 {
		other(b)
		switch pre {
		case "present":
			regNode(b, 1)
			st := b.idx
			regNode(b, 2)
			return st
		case "recreated":
			regNode(b, 1)
			st := b.idx
			b.s(Cmd{Kind: "deregister", Node: "n1"})
			regNode(b, 1)
			return st
		}
		return 0
	}
	nodeCur := func(b *run) (bool, uint64) {
		_, n, _ := b.im.store().GetNode("n1", nil, "")
		if n != nil {
			return true, n.ModifyIndex
		}
		return false, 0
	}
	var wantAddr int
	svcSetup := func(b *run, pre, payload string) uint64 {
		if payload == "invalid" {
			other(b)
			return 0
		}
		regNode(b, 1)
		switch pre {
		case "present":
			regSvc(b, 80)
			st := b.idx
			regSvc(b, 81)
			return st
		case "recreated":
			regSvc(b, 80)
			st := b.idx
			b.s(Cmd{Kind: "deregister", Node: "n1", Svc: "s1"})
			regSvc(b, 80)
			return st
		}
		return 0
	}
	svcCur := func(b *run) (bool, uint64) {
		_, s, _ := b.im.store().NodeService(nil, "n1", "s1", nil, "")
		if s != nil {
			return true, s.ModifyIndex
		}
		return false, 0
	}
	var wantPort int
	chkSetup := func(b *run, pre, payload string) uint64 {
		regNode(b, 1)
		switch pre {
		case "present":
			regCheck(b, 0)
			st := b.idx
			regCheck(b, 1)
			return st
		case "recreated":
			regCheck(b, 0)
			st := b.idx
			b.s(Cmd{Kind: "deregister", Node: "n1", CheckID: "c1"})
			regCheck(b, 0)
			return st
		}
		return 0
	}
	chkCur := func(b *run) (bool, uint64) {
		_, c, _ := b.im.store().NodeCheck("n1", types.CheckID("c1"), nil, "")
		if c != nil {
			return true, c.ModifyIndex
		}
		return false, 0
	}
	var wantOut string
	ts := []target{
		{txn: true, name: "txn-node-cas", family: "store", kind: "upsert", payloads: []string{"same", "different", "invalid"}, setup: nodeSetup, cur: nodeCur,
			cond: func(b *run, sup uint64, p string) {
				wantAddr = 9
				_, n, _ := b.im.store().GetNode("n1", nil, "")
				if n != nil && p == "same" {
					wantAddr = addrNum(n.Address)
				} else if n != nil && addrNum(n.Address) == 9 {
					wantAddr = 8
				}
				id := id1
				if p == "invalid" { // another ID for a name held by a healthy node: the write is rejected
					id = id2
				}
				b.s(Cmd{Kind: "txn", Ops: []TxnOp{{Kind: "node", Verb: "cas", Node: "n1", ID: id, Addr: wantAddr, Index: sup}, trailer}})
			},
			reflects: func(b *run, p string) string {
				_, n, _ := b.im.store().GetNode("n1", nil, "")
				if n == nil || addrNum(n.Address) != wantAddr {
					return "node n1 does not carry the requested address"
				}
				return ""
			}},
		{txn: true, name: "txn-node-delete-cas", family: "store", kind: "delete", payloads: []string{"same"}, setup: nodeSetup, cur: nodeCur,
			cond: func(b *run, sup uint64, p string) {
				b.s(Cmd{Kind: "txn", Ops: []TxnOp{{Kind: "node", Verb: "delete-cas", Node: "n1", Index: sup}, trailer}})
			},
			reflects: func(b *run, p string) string {
				if _, n, _ := b.im.store().GetNode("n1", nil, ""); n != nil {
					return "node n1 still present"
				}
				return ""
			}},
		{txn: true, name: "txn-service-cas", family: "store", kind: "upsert", payloads: []string{"same", "different", "invalid"}, setup: svcSetup, cur: svcCur,
			cond: func(b *run, sup uint64, p string) {
				wantPort = 99
				_, s, _ := b.im.store().NodeService(nil, "n1", "s1", nil, "")
				if s != nil && p == "same" {
					wantPort = s.Port
				} else if s != nil && s.Port == 99 {
					wantPort = 98
				}
				b.s(Cmd{Kind: "txn", Ops: []TxnOp{{Kind: "service", Verb: "cas", Node: "n1", Svc: "s1", Name: "web", Port: wantPort, Index: sup}, trailer}})
			},
			reflects: func(b *run, p string) string {
				_, s, _ := b.im.store().NodeService(nil, "n1", "s1", nil, "")
				if s == nil || s.Port != wantPort {
					return "service s1 does not carry the requested port"
				}
				return ""
			}},
		{txn: true, name: "txn-service-delete-cas", family: "store", kind: "delete", payloads: []string{"same"}, setup: svcSetup, cur: svcCur,
			cond: func(b *run, sup uint64, p string) {
				b.s(Cmd{Kind: "txn", Ops: []TxnOp{{Kind: "service", Verb: "delete-cas", Node: "n1", Svc: "s1", Index: sup}, trailer}})
			},
			reflects: func(b *run, p string) string {
				if _, s, _ := b.im.store().NodeService(nil, "n1", "s1", nil, ""); s != nil {
					return "service s1 still present"
				}
				return ""
			}},
		{txn: true, name: "txn-check-cas", family: "store", kind: "upsert", payloads: []string{"same", "different", "invalid"}, setup: chkSetup, cur: chkCur,
			cond: func(b *run, sup uint64, p string) {
				out := 5
				_, c, _ := b.im.store().NodeCheck("n1", types.CheckID("c1"), nil, "")
				if c != nil && p == "same" {
					_, out, _ = parseOutput(c.Output)
				} else if c != nil && c.Output == "out5" {
					out = 6
				}
				wantOut = fmt.Sprintf("out%d", out)
				svc := ""
				if p == "invalid" { // a check for a service that is not registered: the write is rejected
					svc = "nosvc"
				}
				b.s(Cmd{Kind: "txn", Ops: []TxnOp{{Kind: "check", Verb: "cas", Check: &CheckReq{Node: "n1", ID: "c1", Status: 1, Output: out, Service: svc, Index: sup}}, trailer}})
			},
			reflects: func(b *run, p string) string {
				_, c, _ := b.im.store().NodeCheck("n1", types.CheckID("c1"), nil, "")
				if c == nil || c.Output != wantOut {
					return "check c1 does not carry the requested output"
				}
				return ""
			}},
		{txn: true, name: "txn-check-delete-cas", family: "store", kind: "delete", payloads: []string{"same"}, setup: chkSetup, cur: chkCur,
			cond: func(b *run, sup uint64, p string) {
				b.s(Cmd{Kind: "txn", Ops: []TxnOp{{Kind: "check", Verb: "delete-cas", Check: &CheckReq{Node: "n1", ID: "c1", Index: sup}}, trailer}})
			},
			reflects: func(b *run, p string) string {
				if _, c, _ := b.im.store().NodeCheck("n1", types.CheckID("c1"), nil, ""); c != nil {
					return "check c1 still present"
				}
				return ""
			}},
		// the name differs only in case from the stored one: the store folds node names
		{txn: true, nocoq: true, name: "txn-node-cas/mixed-case", family: "store", kind: "upsert", payloads: []string{"same", "different"}, setup: nodeSetup, cur: nodeCur,
			cond: func(b *run, sup uint64, p string) {
				wantAddr = 9
				_, n, _ := b.im.store().GetNode("n1", nil, "")
				if n != nil && p == "same" {
					wantAddr = addrNum(n.Address)
				}
				b.s(Cmd{Kind: "txn", Ops: []TxnOp{{Kind: "node", Verb: "cas", Node: "N1", ID: id1, Addr: wantAddr, Index: sup}, trailer}})
			},
			reflects: func(b *run, p string) string {
				_, n, _ := b.im.store().GetNode("n1", nil, "")
				if n == nil || addrNum(n.Address) != wantAddr {
					return "node n1 does not carry the requested address"
				}
				return ""
			}},
		// a cas on the NAME n3 carrying the ID of node n1: the condition is about n3, the write renames n1
		{txn: true, name: "txn-node-cas/foreign-id", family: "store", kind: "upsert", payloads: []string{"different"}, setup: nodeSetup,
			cur: func(b *run) (bool, uint64) {
				_, n, _ := b.im.store().GetNode("n3", nil, "")
				if n != nil {
					return true, n.ModifyIndex
				}
				return false, 0
			},
			cond: func(b *run, sup uint64, p string) {
				wantAddr = 9
				if _, n, _ := b.im.store().GetNode("n3", nil, ""); n != nil && addrNum(n.Address) == 9 {
					wantAddr = 8
				}
				b.s(Cmd{Kind: "txn", Ops: []TxnOp{{Kind: "node", Verb: "cas", Node: "n3", ID: id1, Addr: wantAddr, Index: sup}, trailer}})
			},
			reflects: func(b *run, p string) string {
				_, n, _ := b.im.store().GetNode("n3", nil, "")
				if n == nil || addrNum(n.Address) != wantAddr {
					return "node n3 does not carry the requested address"
				}
				return ""
			}},
	}
	for i := range ts {
		t := &ts[i]
		t.sibling = func(b *run) { b.s(Cmd{Kind: "register", Node: "n2", Addr: 5 + b.rng.Intn(3)}) }
		switch {
		case strings.HasPrefix(t.name, "txn-node") && t.name != "txn-node-cas/foreign-id":
			t.remove = func(b *run) { b.s(Cmd{Kind: "deregister", Node: "n1"}) }
		case strings.HasPrefix(t.name, "txn-service"):
			t.remove = func(b *run) { b.s(Cmd{Kind: "deregister", Node: "n1", Svc: "s1"}) }
		case strings.HasPrefix(t.name, "txn-check"):
			t.remove = func(b *run) { b.s(Cmd{Kind: "deregister", Node: "n1", CheckID: "c1"}) }
		}
	}
	return ts
}

func (b *run) cfgRow(kind, name string) *CfgRow {
	d := b.im.cdump()
	for i := range d.Cfg {
		if d.Cfg[i].Kind == kind && strings.EqualFold(d.Cfg[i].Name, name) {
			return &d.Cfg[i]
		}
	}
	return nil
}

func cfgTargets() []target {
	const SD, SR, TR = structs.ServiceDefaults, structs.ServiceRouter, structs.TCPRoute
	ups := func(b *run, kind, name string, content uint64) { b.c(CCmd{Kind: "cfg-upsert", CKind: kind, Name: name, Content: content}) }
	del := func(b *run, kind, name string) { b.c(CCmd{Kind: "cfg-delete", CKind: kind, Name: name}) }
	curOf := func(kind, name string) func(b *run) (bool, uint64) {
		return func(b *run) (bool, uint64) {
			if r := b.cfgRow(kind, name); r != nil {
				return true, r.M
			}
			return false, 0
		}
	}
	// contents used: a, then b, then (different) c; "same" repeats the stored one
	mkSetup := func(kind, name string, a, bb uint64, before func(b *run, pre, payload string), after func(b *run, pre, payload string)) func(b *run, pre, payload string) uint64 {
		return func(b *run, pre, payload string) uint64 {
			ups(b, SD, "api", 2)
			if before != nil {
				before(b, pre, payload)
			}
			var st uint64
			switch pre {
			case "present":
				ups(b, kind, name, a)
				st = b.idx
				ups(b, kind, name, bb)
			case "recreated":
				ups(b, kind, name, a)
				st = b.idx
				del(b, kind, name)
				ups(b, kind, name, a)
			}
			if after != nil {
				after(b, pre, payload)
			}
			return st
		}
	}
	var wantContent, wantStatus uint64
	var wantKind, wantName string
	refl := func(b *run, p string) string {
		r := b.cfgRow(wantKind, wantName)
		if r == nil || r.Content != wantContent || r.Status != wantStatus {
			return fmt.Sprintf("config entry %s/%s does not carry the requested content/status", wantKind, wantName)
		}
		return ""
	}
	gone := func(kind, name string) func(b *run, p string) string {
		return func(b *run, p string) string {
			if b.cfgRow(kind, name) != nil {
				return fmt.Sprintf("config entry %s/%s still present", kind, name)
			}
			return ""
		}
	}
	upsertCond := func(kind, name, verb string, diff, invalid uint64) func(b *run, sup uint64, p string) {
		return func(b *run, sup uint64, p string) {
			wantKind, wantName = kind, name
			cur := b.cfgRow(kind, name)
			wantContent = diff
			if p == "same" && cur != nil {
				wantContent = cur.Content
			}
			if p == "invalid" {
				wantContent = invalid
			}
			wantStatus = 0
			if cur != nil {
				wantStatus = cur.Status // a plain upsert keeps the stored status
			}
			c := CCmd{Kind: verb, CKind: kind, Name: name, Content: wantContent, Index: sup}
			if verb == "cfg-upsert-status-cas" {
				c.Status = 7
				if p == "same" && cur != nil {
					c.Status = cur.Status
				}
				if kind == TR {
					wantStatus = c.Status
				}
			}
			b.c(c)
		}
	}
	// a router on "web" makes a non-http service-defaults (and its deletion) invalid
	withRouter := func(b *run, pre, payload string) {
		if payload == "invalid" && pre != "absent" {
			ups(b, SR, "web", 1)
		}
	}
	httpDefaults := func(b *run, pre, payload string) {
		if payload != "invalid" {
			ups(b, SD, "web", 1)
		}
	}
	statusOn := func(b *run, pre, payload string) { // give the stored route a non-default status
		if cur := b.cfgRow(TR, "r1"); cur != nil {
			b.c(CCmd{Kind: "cfg-upsert-status-cas", CKind: TR, Name: "r1", Content: cur.Content, Status: 5, Index: cur.M})
		}
	}
	rpcCond := func(kind, name string, diff, invalid uint64) func(b *run, sup uint64, p string) {
		return func(b *run, sup uint64, p string) {
			wantKind, wantName = kind, name
			cur := b.cfgRow(kind, name)
			wantContent, wantStatus = diff, 0
			c := CCmd{Kind: "rpc-cfg-apply", CAS: true, CKind: kind, Name: name, Index: sup}
			if cur != nil {
				wantStatus = cur.Status // the endpoint's upsert never touches the stored status
			}
			if p == "same" && cur != nil {
				wantContent = cur.Content
				c.Status = cur.Status // resubmitting the entry exactly as it was read
			}
			if p == "invalid" {
				wantContent = invalid
			}
			if p == "different" && cur != nil && cur.Content == wantContent {
				wantContent = 4 - wantContent // keep "different" different (1 <-> 3, both http-like)
			}
			c.Content = wantContent
			b.payloadEqual = cur != nil && cur.Content == c.Content && cur.Status == c.Status
			b.c(c)
		}
	}
	ts := []target{
		{name: "rpc-cfg-apply-cas/service-defaults", family: "cas", kind: "upsert", payloads: []string{"same", "different", "invalid"},
			setup: mkSetup(SD, "web", 1, 3, nil, withRouter), cur: curOf(SD, "web"), reflects: refl, cond: rpcCond(SD, "web", 1, 2)},
		// (no rpc-cfg-apply target for tcp-route: for kinds with a Status the endpoint's DeepEqual also sees
		// the stored Hash, which is stale after a plain upsert inherited the status -- not modelled)
		{name: "rpc-cfg-delete-cas/service-defaults", family: "cas", kind: "delete", payloads: []string{"same", "invalid"},
			setup: mkSetup(SD, "web", 1, 3, nil, withRouter), cur: curOf(SD, "web"), reflects: gone(SD, "web"),
			cond: func(b *run, sup uint64, p string) {
				b.c(CCmd{Kind: "rpc-cfg-delete", CAS: true, CKind: SD, Name: "web", Index: sup})
			}},
		{name: "rpc-cfg-delete-cas/tcp-route", family: "cas", kind: "delete", payloads: []string{"same"},
			setup: mkSetup(TR, "r1", 1, 2, nil, statusOn), cur: curOf(TR, "r1"), reflects: gone(TR, "r1"),
			cond: func(b *run, sup uint64, p string) {
				b.c(CCmd{Kind: "rpc-cfg-delete", CAS: true, CKind: TR, Name: "r1", Index: sup})
			}},
		// the name differs only in case from the stored one: the table's id index folds names
		{nocoq: true, name: "cfg-upsert-cas/mixed-case", family: "cas", kind: "upsert", payloads: []string{"same", "different"},
			setup: mkSetup(SD, "web", 1, 3, nil, nil), cur: curOf(SD, "web"), reflects: refl,
			cond: upsertCond(SD, "Web", "cfg-upsert-cas", 1, 2)},
		{name: "cfg-upsert-cas/service-defaults", family: "cas", kind: "upsert", payloads: []string{"same", "different", "invalid"},
			setup: mkSetup(SD, "web", 1, 3, nil, withRouter), cur: curOf(SD, "web"), reflects: refl,
			cond: upsertCond(SD, "web", "cfg-upsert-cas", 1, 2)},
		{name: "cfg-upsert-cas/service-router", family: "cas", kind: "upsert", payloads: []string{"same", "different", "invalid"},
			setup: mkSetup(SR, "web", 1, 2, httpDefaults, nil), cur: curOf(SR, "web"), reflects: refl,
			cond: upsertCond(SR, "web", "cfg-upsert-cas", 3, 4)},
		{name: "cfg-upsert-cas/tcp-route", family: "cas", kind: "upsert", payloads: []string{"same", "different"},
			setup: mkSetup(TR, "r1", 1, 2, nil, statusOn), cur: curOf(TR, "r1"), reflects: refl,
			cond: upsertCond(TR, "r1", "cfg-upsert-cas", 3, 0)},
		{name: "cfg-upsert-status-cas/tcp-route", family: "cas", kind: "upsert", payloads: []string{"same", "different"},
			setup: mkSetup(TR, "r1", 1, 2, nil, statusOn), cur: curOf(TR, "r1"), reflects: refl,
			cond: upsertCond(TR, "r1", "cfg-upsert-status-cas", 3, 0)},
		{name: "cfg-upsert-status-cas/service-defaults", family: "cas", kind: "upsert", payloads: []string{"same", "different", "invalid"},
			setup: mkSetup(SD, "web", 1, 3, nil, withRouter), cur: curOf(SD, "web"), reflects: refl,
			cond: upsertCond(SD, "web", "cfg-upsert-status-cas", 1, 2)},
		{name: "cfg-delete-cas/service-defaults", family: "cas", kind: "delete", payloads: []string{"same", "invalid"},
			setup: mkSetup(SD, "web", 1, 3, nil, withRouter), cur: curOf(SD, "web"), reflects: gone(SD, "web"),
			cond: func(b *run, sup uint64, p string) { b.c(CCmd{Kind: "cfg-delete-cas", CKind: SD, Name: "web", Index: sup}) }},
		{name: "cfg-delete-cas/tcp-route", family: "cas", kind: "delete", payloads: []string{"same"},
			setup: mkSetup(TR, "r1", 1, 2, nil, statusOn), cur: curOf(TR, "r1"), reflects: gone(TR, "r1"),
			cond: func(b *run, sup uint64, p string) { b.c(CCmd{Kind: "cfg-delete-cas", CKind: TR, Name: "r1", Index: sup}) }},
	}
	for i := range ts {
		t := &ts[i]
		t.sibling = func(b *run) { ups(b, SD, "api", uint64(b.rng.Intn(4))) }
		switch {
		case strings.Contains(t.name, "tcp-route"):
			t.remove = func(b *run) { del(b, TR, "r1") }
		case strings.Contains(t.name, "service-router"):
			t.remove = func(b *run) { del(b, SR, "web") }
		default:
			t.remove = func(b *run) { del(b, SD, "web") }
		}
	}
	return ts
}

func rootsIndex(d *CDump) uint64 {
	for _, r := range d.Index {
		if r[0] == "connect-ca-roots" {
			var n uint64
			fmt.Sscan(r[1], &n)
			return n
		}
	}
	return 0
}

func sameRoots(rows []RootRow, want []RootReq) bool {
	m := map[string]bool{}
	for _, w := range want {
		m[w.ID] = w.Active
	}
	if len(rows) != len(m) {
		return false
	}
	for _, r := range rows {
		if a, ok := m[r.ID]; !ok || a != r.Active {
			return false
		}
	}
	return true
}

func caTargets() []target {
	setCfg := func(b *run, cluster string, provider uint64) {
		b.c(CCmd{Kind: "ca-set-config", Cluster: cluster, Provider: provider})
	}
	cfgSetup := func(b *run, pre, payload string) uint64 {
		switch pre {
		case "present":
			setCfg(b, "c1", 1)
			st := b.idx
			setCfg(b, "", 2)
			return st
		case "recreated": // a singleton cannot be deleted: written three times instead
			setCfg(b, "c1", 1)
			st := b.idx
			setCfg(b, "c1", 2)
			setCfg(b, "", 1)
			return st
		}
		return 0
	}
	cfgCur := func(b *run) (bool, uint64) {
		if c := b.im.cdump().CAConfig; c != nil {
			return true, c.M
		}
		return false, 0
	}
	var wantProvider uint64
	var wantCluster string
	cfgRefl := func(b *run, p string) string {
		c := b.im.cdump().CAConfig
		if c == nil || c.Provider != wantProvider || c.Cluster != wantCluster {
			return "CA configuration does not carry the requested provider/cluster"
		}
		return ""
	}
	cfgPayload := func(b *run, p string) (string, uint64) {
		cur := b.im.cdump().CAConfig
		wantProvider, wantCluster = 6, "c9"
		cluster := "c9"
		if p == "same" {
			cluster = "" // empty cluster id: keep the stored one
			wantCluster = ""
			wantProvider = 1
			if cur != nil {
				wantProvider, wantCluster = cur.Provider, cur.Cluster
			}
		}
		return cluster, wantProvider
	}
	r := func(id string, active bool) RootReq { return RootReq{ID: id, Active: active} }
	setRoots := func(b *run, rs ...RootReq) {
		d := b.im.cdump()
		b.c(CCmd{Kind: "ca-set-roots", Index: rootsIndex(&d), Roots: rs})
	}
	rootsSetup := func(b *run, pre, payload string) uint64 {
		switch pre {
		case "present":
			setRoots(b, r("r1", true))
			st := b.idx
			setRoots(b, r("r1", false), r("r2", true))
			return st
		case "recreated":
			setRoots(b, r("r1", true))
			st := b.idx
			setRoots(b, r("r2", true))
			setRoots(b, r("r1", true))
			return st
		}
		return 0
	}
	rootsCur := func(b *run) (bool, uint64) {
		d := b.im.cdump()
		return len(d.Roots) > 0, rootsIndex(&d)
	}
	var wantRoots []RootReq
	invalidN := 0
	rootsPayload := func(b *run, p string) []RootReq {
		d := b.im.cdump()
		switch p {
		case "same":
			wantRoots = nil
			for _, x := range d.Roots {
				wantRoots = append(wantRoots, r(x.ID, x.Active))
			}
			if len(wantRoots) == 0 {
				wantRoots = []RootReq{r("r1", true)}
			}
		case "different":
			wantRoots = []RootReq{r("r1", false), r("r3", true)}
		default:
			invalidN++
			wantRoots = [][]RootReq{{r("r1", true), r("r3", true)}, {r("r1", false)}, {r("", true)}, {r("r3", true), r("", false)}, {r("r3", true), r("r1", false), r("r3", false)}}[invalidN%5]
		}
		return wantRoots
	}
	rootsRefl := func(b *run, p string) string {
		if !sameRoots(b.im.cdump().Roots, wantRoots) {
			return "CA roots are not the requested set"
		}
		return ""
	}
	return []target{
		{name: "ca-config-cas", family: "cas", kind: "upsert", payloads: []string{"same", "different"}, setup: cfgSetup, cur: cfgCur, reflects: cfgRefl,
			// the FSM treats a supplied index of zero as "no check": an unconditional write
			matched: func(b *run, sup uint64) bool {
				_, c := cfgCur(b)
				return sup == 0 || sup == c
			},
			cond: func(b *run, sup uint64, p string) {
				cl, pr := cfgPayload(b, p)
				b.c(CCmd{Kind: "ca-set-config", Cluster: cl, Provider: pr, Index: sup})
			}},
		{name: "ca-roots-cas", family: "cas", kind: "upsert", payloads: []string{"same", "different", "invalid"}, setup: rootsSetup, cur: rootsCur, reflects: rootsRefl,
			cond: func(b *run, sup uint64, p string) { b.c(CCmd{Kind: "ca-set-roots", Index: sup, Roots: rootsPayload(b, p)}) }},
	}
}

// The composite command has two expected indexes; it is generated by its own cross product.
func compositeCase(id int, rng *rand.Rand, pre string, rclass, cclass, payload string) Case {
	b := newRun(rng, "cas", true)
	r := func(id string, active bool) RootReq { return RootReq{ID: id, Active: active} }
	var staleR, staleC uint64
	setRoots := func(rs ...RootReq) {
		d := b.im.cdump()
		b.c(CCmd{Kind: "ca-set-roots", Index: rootsIndex(&d), Roots: rs})
	}
	switch pre {
	case "present":
		setRoots(r("r1", true))
		staleR = b.idx
		b.c(CCmd{Kind: "ca-set-config", Cluster: "c1", Provider: 1})
		staleC = b.idx
		setRoots(r("r1", false), r("r2", true))
		b.c(CCmd{Kind: "ca-set-config", Cluster: "", Provider: 2})
	case "recreated":
		setRoots(r("r1", true))
		staleR = b.idx
		b.c(CCmd{Kind: "ca-set-config", Cluster: "c1", Provider: 1})
		staleC = b.idx
		setRoots(r("r2", true))
		b.c(CCmd{Kind: "ca-set-config", Cluster: "c1", Provider: 2})
		setRoots(r("r1", true))
		b.c(CCmd{Kind: "ca-set-config", Cluster: "", Provider: 1})
	case "roots-only":
		setRoots(r("r1", true))
		staleR = b.idx
		setRoots(r("r1", false), r("r2", true))
	case "config-only":
		b.c(CCmd{Kind: "ca-set-config", Cluster: "c1", Provider: 1})
		staleC = b.idx
		b.c(CCmd{Kind: "ca-set-config", Cluster: "c1", Provider: 2})
	}
	before := b.im.cdump()
	fp0 := b.im.fingerprint()
	curR := rootsIndex(&before)
	var curC uint64
	if before.CAConfig != nil {
		curC = before.CAConfig.M
	}
	pick := func(class string, cur, stale uint64) uint64 {
		switch class {
		case "zero":
			return 0
		case "current":
			return cur
		case "stale":
			if stale != 0 && stale != cur {
				return stale
			}
			if cur > 1 {
				return cur - 1
			}
			return b.idx
		}
		return b.idx + 7
	}
	supR, supC := pick(rclass, curR, staleR), pick(cclass, curC, staleC)
	var roots []RootReq
	provider, cluster := uint64(6), "c9"
	switch payload {
	case "same":
		for _, x := range before.Roots {
			roots = append(roots, r(x.ID, x.Active))
		}
		if len(roots) == 0 {
			roots = []RootReq{r("r1", true)}
		}
		if before.CAConfig != nil {
			provider, cluster = before.CAConfig.Provider, ""
		}
	case "different":
		roots = []RootReq{r("r1", false), r("r3", true)}
	default:
		roots = []RootReq{r("r1", true), r("r3", true)}
	}
	b.c(CCmd{Kind: "ca-set-roots-config", Index: supR, Roots: roots, Cluster: cluster, Provider: provider, CfgIndex: supC})
	after := b.im.cdump()
	cls, rep, isErr := cClass(b.lastCRes)
	o := Obs{Step: len(b.steps) - 1, Target: "ca-roots-and-config", Pre: pre, IdxClass: rclass + "/" + cclass, Payload: payload,
		Supplied: supR, Present: len(before.Roots) > 0, Current: curR, Matched: supR == curR && supC == curC, Reported: rep, Result: cls,
		Changed: b.im.fingerprint() != fp0}
	rootsNew := rootsIndex(&after) != curR
	cfgNew := after.CAConfig != nil && (before.CAConfig == nil || after.CAConfig.M != before.CAConfig.M)
	switch {
	case rootsNew != cfgNew:
		o.Oracle = "composite-partial"
	case rep && !o.Matched:
		o.Oracle = "reported-without-match"
	case o.Matched && !rep && !isErr:
		o.Oracle = "matched-not-applied"
	case !rep && o.Changed:
		o.Oracle = "failed-but-changed"
	case rep && (!sameRoots(after.Roots, roots) || after.CAConfig == nil || after.CAConfig.Provider != provider):
		o.Oracle = "reported-without-effect"
		o.Effect = "roots/configuration are not the requested ones"
	}
	if o.Oracle != "" {
		o.Sig = map[string]any{"kind": o.Oracle, "target": o.Target, "pre": pre, "idx": o.IdxClass, "payload": payload}
	}
	return Case{ID: id, Family: "cas", Mode: "cross", Steps: b.steps, Obs: []Obs{o}}
}

func singletonTargets() []target {
	apSetup := func(b *run, pre, payload string) uint64 {
		set := func(p uint64) { b.c(CCmd{Kind: "autopilot", Payload: p}) }
		switch pre {
		case "present":
			set(1)
			st := b.idx
			set(2)
			return st
		case "recreated":
			set(1)
			st := b.idx
			set(2)
			set(1)
			return st
		}
		return 0
	}
	apCur := func(b *run) (bool, uint64) {
		if a := b.im.cdump().Autopilot; a != nil {
			return true, a.M
		}
		return false, 0
	}
	var wantAP uint64
	tokSet := func(b *run, d uint64) {
		b.c(CCmd{Kind: "token-set", Tokens: []TokReq{{Accessor: tk1, Secret: "s-t1", Descr: d}}})
	}
	tokSetup := func(b *run, pre, payload string) uint64 {
		b.c(CCmd{Kind: "token-set", Tokens: []TokReq{{Accessor: tk0, Secret: "s-t0", Descr: 1}}})
		switch pre {
		case "present":
			tokSet(b, 1)
			st := b.idx
			tokSet(b, 2)
			return st
		case "recreated":
			tokSet(b, 1)
			st := b.idx
			b.c(CCmd{Kind: "token-delete", Accs: []string{tk1}})
			tokSet(b, 1)
			return st
		}
		return 0
	}
	tokRow := func(b *run, acc string) *TokRow {
		d := b.im.cdump()
		for i := range d.Tokens {
			if d.Tokens[i].Accessor == acc {
				return &d.Tokens[i]
			}
		}
		return nil
	}
	tokCur := func(b *run) (bool, uint64) {
		if t := tokRow(b, tk1); t != nil {
			return true, t.M
		}
		return false, 0
	}
	var wantDescr uint64
	invalidN := 0
	tokReq := func(b *run, sup uint64, p string) TokReq {
		cur := tokRow(b, tk1)
		wantDescr = 8
		if p == "same" && cur != nil {
			wantDescr = cur.Descr
		}
		q := TokReq{Accessor: tk1, Secret: "s-t1", Descr: wantDescr, Index: sup}
		if p == "invalid" {
			invalidN++
			if invalidN%3 == 0 {
				q.Secret = ""
			} else {
				q.Secret = "x-t1" // the secret of an existing token cannot change
			}
		}
		return q
	}
	tokRefl := func(b *run, p string) string {
		t := tokRow(b, tk1)
		if t == nil || t.Descr != wantDescr {
			return "token t1 does not carry the requested description"
		}
		return ""
	}
	return []target{
		{name: "autopilot-cas", family: "cas", kind: "upsert", payloads: []string{"same", "different"}, setup: apSetup, cur: apCur,
			cond: func(b *run, sup uint64, p string) {
				wantAP = 9
				if a := b.im.cdump().Autopilot; a != nil && p == "same" {
					wantAP = a.Payload
				}
				b.c(CCmd{Kind: "autopilot", CAS: true, Payload: wantAP, Index: sup})
			},
			reflects: func(b *run, p string) string {
				if a := b.im.cdump().Autopilot; a == nil || a.Payload != wantAP {
					return "autopilot configuration does not carry the requested payload"
				}
				return ""
			}},
		{name: "acl-token-set-cas", family: "cas", kind: "upsert", payloads: []string{"same", "different", "invalid"}, setup: tokSetup, cur: tokCur, reflects: tokRefl,
			remove:  func(b *run) { b.c(CCmd{Kind: "token-delete", Accs: []string{tk1}}) },
			sibling: func(b *run) { b.c(CCmd{Kind: "token-set", Tokens: []TokReq{{Accessor: tk0, Secret: "s-t0", Descr: uint64(2 + b.rng.Intn(3))}}}) },
			cond: func(b *run, sup uint64, p string) {
				b.c(CCmd{Kind: "token-set", CAS: true, Tokens: []TokReq{tokReq(b, sup, p)}})
			}},
		{batch: true, name: "acl-token-set-cas-batch", family: "cas", kind: "upsert", payloads: []string{"same", "different", "invalid"}, setup: tokSetup, cur: tokCur, reflects: tokRefl,
			cond: func(b *run, sup uint64, p string) {
				var other TokReq
				if t2 := tokRow(b, tk2); t2 != nil {
					other = TokReq{Accessor: tk2, Secret: "s-t2", Descr: t2.Descr + 1, Index: t2.M}
				} else {
					other = TokReq{Accessor: tk2, Secret: "s-t2", Descr: 3}
				}
				q := tokReq(b, sup, p)
				ts := []TokReq{q, other}
				if b.rng.Intn(2) == 0 {
					ts = []TokReq{other, q}
				}
				b.c(CCmd{Kind: "token-set", CAS: true, Tokens: ts})
			}},
	}
}

// Feature gates: two expected indexes (policy, status), their own cross product.
func featureGateCase(id int, rng *rand.Rand, pre, pclass, sclass, payload string) Case {
	b := newRun(rng, "cas", true)
	fg := func(hasPol bool, pol, st uint64) {
		d := b.im.cdump()
		c := CCmd{Kind: "feature-gate", HasPolicy: hasPol, Policy: pol, HasStatus: true, FGStatus: st}
		if d.FGPolicy != nil {
			c.EPI = d.FGPolicy.M
		}
		if d.FGStatus != nil {
			c.ESI = d.FGStatus.M
		}
		b.c(c)
	}
	var staleP, staleS uint64
	switch pre {
	case "present":
		fg(true, 1, 1)
		staleP, staleS = b.idx, b.idx
		fg(true, 2, 2)
	case "recreated": // policy written once, status refreshed twice: the two indexes differ
		fg(true, 1, 1)
		staleS = b.idx
		fg(false, 0, 2)
		staleP = b.idx // never a policy index
		fg(false, 0, 1)
	}
	before := b.im.cdump()
	fp0 := b.im.fingerprint()
	var curP, curS uint64
	if before.FGPolicy != nil {
		curP = before.FGPolicy.M
	}
	if before.FGStatus != nil {
		curS = before.FGStatus.M
	}
	pick := func(class string, cur, stale uint64) uint64 {
		switch class {
		case "zero":
			return 0
		case "current":
			return cur
		case "stale":
			if stale != 0 && stale != cur {
				return stale
			}
			if cur > 1 {
				return cur - 1
			}
			return b.idx
		}
		return b.idx + 7
	}
	supP, supS := pick(pclass, curP, staleP), pick(sclass, curS, staleS)
	c := CCmd{Kind: "feature-gate", EPI: supP, ESI: supS}
	wantPol, wantSt := uint64(0), uint64(6)
	switch payload {
	case "same":
		c.HasPolicy, c.HasStatus = true, true
		c.Policy, c.FGStatus = 1, 1
		if before.FGPolicy != nil {
			c.Policy = before.FGPolicy.Payload
		}
		if before.FGStatus != nil {
			c.FGStatus = before.FGStatus.Payload
		}
		wantPol, wantSt = c.Policy, c.FGStatus
	case "different":
		c.HasPolicy, c.HasStatus, c.Policy, c.FGStatus = true, true, 5, 6
		wantPol = 5
	case "status-only": // valid only when a policy is stored
		c.HasStatus, c.FGStatus = true, 6
		if before.FGPolicy != nil {
			wantPol = before.FGPolicy.Payload
		}
	default: // no status: rejected
		c.HasPolicy, c.Policy = true, 5
	}
	b.c(c)
	after := b.im.cdump()
	cls, rep, isErr := cClass(b.lastCRes)
	o := Obs{Step: len(b.steps) - 1, Target: "feature-gate", Pre: pre, IdxClass: pclass + "/" + sclass, Payload: payload,
		Supplied: supP, Present: before.FGStatus != nil, Current: curP, Matched: supP == curP && supS == curS, Reported: rep, Result: cls,
		Changed: b.im.fingerprint() != fp0}
	switch {
	case rep && !o.Matched:
		o.Oracle = "reported-without-match"
	case o.Matched && !rep && !isErr:
		o.Oracle = "matched-not-applied"
	case !rep && o.Changed:
		o.Oracle = "failed-but-changed"
	case rep && (after.FGStatus == nil || after.FGStatus.Payload != wantSt || after.FGPolicy == nil || after.FGPolicy.Payload != wantPol ||
		after.FGStatus.PolicyIndex != after.FGPolicy.M):
		o.Oracle = "reported-without-effect"
		o.Effect = "feature-gate policy/status are not the requested ones, or the status does not name the stored policy's index"
	}
	if o.Oracle != "" {
		o.Sig = map[string]any{"kind": o.Oracle, "target": o.Target, "pre": pre, "idx": o.IdxClass, "payload": payload}
	}
	return Case{ID: id, Family: "cas", Mode: "cross", Steps: b.steps, Obs: []Obs{o}}
}

// ---------------------------------------------------------------- one conditional command + oracle

func pickIndex(b *run, class string, present bool, cur, stale uint64) uint64 {
	switch class {
	case "zero":
		return 0
	case "current":
		return cur
	case "stale":
		if stale != 0 && stale != cur {
			return stale
		}
		if cur > 1 {
			return cur - 1
		}
		return b.idx // absent entity: an index that was current for something else
	}
	return b.idx + 7
}

func (b *run) conditional(t *target, pre, class, payload string, stale uint64) Obs {
	if class == "sibling" && t.sibling != nil {
		t.sibling(b) // another entity of the table now carries the table's newest index
	}
	present, cur := t.cur(b)
	sup := pickIndex(b, class, present, cur, stale)
	if class == "sibling" {
		sup = b.idx
	}
	var before CDump
	if t.family == "cas" {
		before = b.im.cdump()
	}
	fp0 := b.im.fingerprint()
	var matched bool
	switch {
	case t.matched != nil:
		matched = t.matched(b, sup)
	case t.kind == "upsert":
		matched = sup == cur // absent = index 0
	default:
		matched = present && sup == cur
	}
	b.payloadEqual = false
	t.cond(b, sup, payload)
	var cls string
	var rep, isErr bool
	if t.family == "store" {
		cls, rep, isErr = sClass(b.lastSRes)
	} else {
		cls, rep, isErr = cClass(b.lastCRes)
	}
	o := Obs{Step: b.nsteps() - 1, Target: t.name, Pre: pre, IdxClass: class, Payload: payload, Supplied: sup, Present: present, Current: cur,
		Matched: matched, Reported: rep, Result: cls, Changed: b.im.fingerprint() != fp0, PayloadEqual: b.payloadEqual}
	if rep {
		o.Effect = t.reflects(b, payload)
	}
	if p2, c2 := t.cur(b); p2 != present || c2 != cur {
		o.TChanged = true
	}
	switch {
	case t.kind == "kvdelete":
		// reported_ok <-> key absent afterwards /\ (was present -> matched)
		goneNow := t.reflects(b, payload) == ""
		want := goneNow && (!present || matched)
		switch {
		case rep != want:
			o.Oracle = "delete-variant-report"
		case !rep && o.Changed:
			o.Oracle = "failed-but-changed"
		case !present && o.Changed && !t.txn:
			o.Oracle = "absent-delete-changed"
		}
	case !matched && ((t.batch && o.TChanged) || (!t.batch && o.Changed)):
		// judged before (and independently of) what was reported: a mismatch must leave everything alone
		o.Oracle = "mismatch-but-changed"
	case rep && !matched:
		o.Oracle = "reported-without-match"
	case matched && !rep && !isErr:
		o.Oracle = "matched-not-applied"
	case matched && !rep && isErr && payload != "invalid" && pre != "random":
		// the set-ups of the cross product make every non-"invalid" payload acceptable
		o.Oracle = "matched-but-error"
	case !rep && o.Changed:
		o.Oracle = "failed-but-changed"
	case rep && o.Effect != "":
		o.Oracle = "reported-without-effect"
	case rep && payload == "different" && !o.Changed && !o.PayloadEqual:
		o.Oracle = "reported-without-effect"
		o.Effect = "a different payload was accepted but nothing changed"
	}
	if o.Oracle == "" && t.extra != nil {
		after := b.im.cdump()
		o.Oracle = t.extra(&before, &after, payload)
	}
	if o.Oracle != "" {
		o.Sig = map[string]any{"kind": o.Oracle, "target": t.name, "pre": pre, "idx": class, "payload": payload, "present": present}
	}
	o.nocoq = t.nocoq
	return o
}

func (b *run) toCase(id int, mode string, obs []Obs) Case {
	if obs == nil {
		obs = []Obs{}
	}
	c := Case{ID: id, Family: b.family, Mode: mode, Obs: obs}
	for _, o := range obs {
		c.NoCoq = c.NoCoq || o.nocoq
	}
	if b.family == "store" {
		d := b.im.dump()
		c.Cmds, c.Results, c.Final = b.cmds, b.results, &d
	} else {
		if !b.perStep && len(b.steps) > 0 {
			d := b.im.cdump()
			b.steps[len(b.steps)-1].Dump = &d
		}
		c.Steps = b.steps
	}
	return c
}

func allTargets() []target {
	var ts []target
	ts = append(ts, kvTargets()...)
	ts = append(ts, catalogTargets()...)
	ts = append(ts, cfgTargets()...)
	ts = append(ts, caTargets()...)
	ts = append(ts, singletonTargets()...)
	return ts
}

var pres = []string{"absent", "present", "recreated"}
var classes = []string{"zero", "current", "stale", "future", "sibling"}
var classes2 = []string{"zero", "current", "stale", "future"} // per expected index of the two-index commands

// ---------------------------------------------------------------- transaction shapes

// txnShapeCases: transactions of several operations in which the conditional operation is not the
// first one, or there are two of them, or the condition is a guard verb.  wantCommit is the
// specification: every conditional operation matches when the operations are read in order, each
// seeing the writes of its predecessors.
func txnShapeCases(id *int, rng *rand.Rand, emit func(Case)) {
	type shape struct {
		name       string
		ops        func(ia, ib, in1 uint64) []TxnOp
		wantCommit bool
		reflect    func(b *run) string
	}
	kvOp := func(verb, key string, val byte, idx uint64) TxnOp { return TxnOp{Kind: "kv", Verb: verb, KV: kvq(key, val, idx)} }
	holds := func(key string, val byte) func(b *run) string {
		return func(b *run) string {
			if e := b.kvGet(key); e == nil || len(e.Value) != 1 || e.Value[0] != val {
				return "key " + key + " does not hold the requested value"
			}
			return ""
		}
	}
	both := func(fs ...func(b *run) string) func(b *run) string {
		return func(b *run) string {
			for _, f := range fs {
				if m := f(b); m != "" {
					return m
				}
			}
			return ""
		}
	}
	nodeAddr := func(addr int) func(b *run) string {
		return func(b *run) string {
			if _, n, _ := b.im.store().GetNode("n1", nil, ""); n == nil || addrNum(n.Address) != addr {
				return "node n1 does not carry the requested address"
			}
			return ""
		}
	}
	shapes := []shape{
		{"set-then-cas-old-index", func(ia, ib, in1 uint64) []TxnOp { return []TxnOp{kvOp("set", "a", 7, 0), kvOp("cas", "a", 8, ia)} }, false, nil},
		{"set-same-then-cas-old-index", func(ia, ib, in1 uint64) []TxnOp { return []TxnOp{kvOp("set", "a", 2, 0), kvOp("cas", "a", 8, ia)} }, true, holds("a", 8)},
		{"cas-ok-then-cas-stale", func(ia, ib, in1 uint64) []TxnOp { return []TxnOp{kvOp("cas", "a", 8, ia), kvOp("cas", "b", 8, ib+1)} }, false, nil},
		{"cas-ok-then-check-index-stale", func(ia, ib, in1 uint64) []TxnOp {
			return []TxnOp{kvOp("cas", "a", 8, ia), kvOp("check-index", "b", 0, ib-1)}
		}, false, nil},
		{"cas-ok-then-check-not-exists-present", func(ia, ib, in1 uint64) []TxnOp {
			return []TxnOp{kvOp("cas", "a", 8, ia), kvOp("check-not-exists", "b", 0, 0)}
		}, false, nil},
		{"set-then-cas-last-ok", func(ia, ib, in1 uint64) []TxnOp { return []TxnOp{kvOp("set", "t", 9, 0), kvOp("cas", "a", 8, ia)} }, true, both(holds("t", 9), holds("a", 8))},
		{"cas-ok-then-cas-ok", func(ia, ib, in1 uint64) []TxnOp { return []TxnOp{kvOp("cas", "a", 8, ia), kvOp("cas", "b", 6, ib)} }, true, both(holds("a", 8), holds("b", 6))},
		{"guards-then-cas-ok", func(ia, ib, in1 uint64) []TxnOp {
			return []TxnOp{kvOp("check-index", "a", 0, ia), kvOp("check-not-exists", "zz", 0, 0), kvOp("cas", "b", 6, ib)}
		}, true, holds("b", 6)},
		{"cas-twice-same-key-second-sees-first", func(ia, ib, in1 uint64) []TxnOp { return []TxnOp{kvOp("cas", "a", 8, ia), kvOp("cas", "a", 6, ia)} }, false, nil},
		{"delete-cas-then-create-if-absent", func(ia, ib, in1 uint64) []TxnOp { return []TxnOp{kvOp("delete-cas", "a", 0, ia), kvOp("cas", "a", 6, 0)} }, true, holds("a", 6)},
		{"kv-set-then-node-cas-stale", func(ia, ib, in1 uint64) []TxnOp {
			return []TxnOp{kvOp("set", "t", 9, 0), {Kind: "node", Verb: "cas", Node: "n1", ID: id1, Addr: 9, Index: in1 - 1}}
		}, false, nil},
		{"node-cas-ok-then-service-cas-stale", func(ia, ib, in1 uint64) []TxnOp {
			return []TxnOp{{Kind: "node", Verb: "cas", Node: "n1", ID: id1, Addr: 9, Index: in1},
				{Kind: "service", Verb: "cas", Node: "n1", Svc: "s1", Name: "web", Port: 99, Index: 1}}
		}, false, nil},
		{"node-cas-ok-then-kv-cas-ok", func(ia, ib, in1 uint64) []TxnOp {
			return []TxnOp{{Kind: "node", Verb: "cas", Node: "n1", ID: id1, Addr: 9, Index: in1}, kvOp("cas", "a", 8, ia)}
		}, true, both(nodeAddr(9), holds("a", 8))},
	}
	for _, sh := range shapes {
		b := newRun(rng, "store", false)
		b.s(Cmd{Kind: "kvs", Verb: "set", KV: kvq("a", 1, 0)})
		b.s(Cmd{Kind: "kvs", Verb: "set", KV: kvq("b", 1, 0)})
		b.s(Cmd{Kind: "kvs", Verb: "set", KV: kvq("a", 2, 0)})
		b.s(Cmd{Kind: "register", Node: "n1", ID: id1, Addr: 1, HasSvc: true, Svc: "s1", SvcName: "web", Port: 80,
			RegCheck: []CheckReq{{Node: "n1", ID: "serfHealth", Status: 0}}})
		ia, ib := b.kvGet("a").ModifyIndex, b.kvGet("b").ModifyIndex
		_, n1, _ := b.im.store().GetNode("n1", nil, "")
		fp0 := b.im.fingerprint()
		b.s(Cmd{Kind: "txn", Ops: sh.ops(ia, ib, n1.ModifyIndex)})
		cls, rep, _ := sClass(b.lastSRes)
		o := Obs{Step: b.nsteps() - 1, Target: "txn-shape/" + sh.name, Pre: "present", IdxClass: "shape", Payload: "different",
			Present: true, Matched: sh.wantCommit, Reported: rep, Result: cls, Changed: b.im.fingerprint() != fp0}
		switch {
		case !sh.wantCommit && o.Changed:
			o.Oracle = "mismatch-but-changed"
		case rep && !sh.wantCommit:
			o.Oracle = "reported-without-match"
		case !rep && sh.wantCommit:
			o.Oracle = "matched-not-applied"
		case rep && sh.reflect != nil && sh.reflect(b) != "":
			o.Oracle = "reported-without-effect"
			o.Effect = sh.reflect(b)
		}
		emit(b.toCase(*id, "txn-shape", []Obs{o}))
		*id++
	}
}

// ---------------------------------------------------------------- random histories

func randomCase(id int, rng *rand.Rand, family string, n int) Case {
	b := newRun(rng, family, false)
	var ts []target
	for _, t := range allTargets() {
		if t.family == family && !t.nocoq {
			ts = append(ts, t)
		}
	}
	var obs []Obs
	// unconditional writes that move the state between conditional commands
	mutate := func() {
		if family == "store" {
			switch rng.Intn(6) {
			case 0:
				b.s(Cmd{Kind: "kvs", Verb: "set", KV: kvq("a", byte(1+rng.Intn(3)), 0)})
			case 1:
				b.s(Cmd{Kind: "kvs", Verb: "delete", KV: kvq("a", 0, 0)})
			case 2:
				b.s(Cmd{Kind: "register", Node: "n1", ID: id1, Addr: 1 + rng.Intn(2), RegCheck: []CheckReq{{Node: "n1", ID: "serfHealth", Status: 0}}})
			case 3:
				b.s(Cmd{Kind: "register", Node: "n1", ID: id1, Addr: 1, HasSvc: true, Svc: "s1", SvcName: "web", Port: 80 + rng.Intn(2)})
			case 4:
				b.s(Cmd{Kind: "register", Node: "n1", ID: id1, Addr: 1, RegCheck: []CheckReq{{Node: "n1", ID: "c1", Status: 1, Output: rng.Intn(2)}}})
			case 5:
				b.s(Cmd{Kind: "deregister", Node: "n1", Svc: []string{"", "s1"}[rng.Intn(2)]})
			}
			return
		}
		switch rng.Intn(11) {
		case 9: // the composite on an accumulated state; each expected index current (2/3) or off by one
			d := b.im.cdump()
			ri, ci := rootsIndex(&d), uint64(0)
			if d.CAConfig != nil {
				ci = d.CAConfig.M
			}
			if rng.Intn(3) == 0 {
				ri++
			}
			if rng.Intn(3) == 0 {
				ci++
			}
			b.c(CCmd{Kind: "ca-set-roots-config", Index: ri, CfgIndex: ci, Cluster: []string{"", "c3"}[rng.Intn(2)], Provider: uint64(rng.Intn(3)),
				Roots: []RootReq{{ID: "r1", Active: rng.Intn(2) == 0}, {ID: "r4", Active: rng.Intn(2) == 0}}})
		case 10: // a feature-gate update on an accumulated state
			d := b.im.cdump()
			c := CCmd{Kind: "feature-gate", HasPolicy: rng.Intn(2) == 0, Policy: uint64(rng.Intn(3)), HasStatus: rng.Intn(8) > 0, FGStatus: uint64(rng.Intn(3))}
			if d.FGPolicy != nil {
				c.EPI = d.FGPolicy.M
			}
			if d.FGStatus != nil {
				c.ESI = d.FGStatus.M
			}
			if rng.Intn(4) == 0 {
				c.EPI += uint64(rng.Intn(2))
				c.ESI += uint64(1 - rng.Intn(2))
			}
			b.c(c)
		case 0:
			b.c(CCmd{Kind: "cfg-upsert", CKind: structs.ServiceDefaults, Name: "web", Content: uint64(rng.Intn(4))})
		case 1:
			b.c(CCmd{Kind: "cfg-upsert", CKind: structs.ServiceRouter, Name: "web", Content: uint64(rng.Intn(3))})
		case 2:
			b.c(CCmd{Kind: "cfg-upsert", CKind: structs.TCPRoute, Name: "r1", Content: uint64(rng.Intn(3))})
		case 3:
			b.c(CCmd{Kind: "cfg-delete", CKind: []string{structs.ServiceDefaults, structs.ServiceRouter, structs.TCPRoute}[rng.Intn(3)], Name: []string{"web", "web", "r1"}[rng.Intn(3)]})
		case 4:
			b.c(CCmd{Kind: "ca-set-config", Cluster: []string{"", "c1", "c2"}[rng.Intn(3)], Provider: uint64(rng.Intn(3))})
		case 5:
			b.c(CCmd{Kind: "autopilot", Payload: uint64(rng.Intn(3))})
		case 6:
			b.c(CCmd{Kind: "token-set", Tokens: []TokReq{{Accessor: tk1, Secret: "s-t1", Descr: uint64(rng.Intn(3))}}})
		case 7:
			b.c(CCmd{Kind: "token-delete", Accs: []string{tk1, tk2}[:1+rng.Intn(2)]})
		case 8:
			d := b.im.cdump()
			rs := []RootReq{{ID: "r1", Active: rng.Intn(2) == 0}, {ID: "r2", Active: rng.Intn(2) == 0}}
			if rng.Intn(3) == 0 { // the same root ID twice: the later entry is the one stored; it must not replace the active root
				rs = [][]RootReq{
					{{ID: "r1", Active: false}, {ID: "r2", Active: true}, {ID: "r1", Active: false}},
					{{ID: "r2", Active: false}, {ID: "r1", Active: true}, {ID: "r2", Active: false}, {ID: "r2", Active: false}},
					{{ID: "r1", Active: true}, {ID: "r2", Active: false}, {ID: "r1", Active: false}},
					{{ID: "r1", Active: false}, {ID: "r1", Active: true}},
				}[rng.Intn(4)]
			}
			b.c(CCmd{Kind: "ca-set-roots", Index: rootsIndex(&d), Roots: rs})
		}
	}
	seen := map[string]uint64{} // target -> an index its entity carried earlier
	for i := 0; i < n; i++ {
		if rng.Intn(3) == 0 {
			mutate()
			continue
		}
		t := &ts[rng.Intn(len(ts))]
		class := classes[[]int{0, 1, 1, 1, 2, 2, 3, 4}[rng.Intn(8)]]
		payload := t.payloads[rng.Intn(len(t.payloads))]
		_, cur := t.cur(b)
		o := b.conditional(t, "random", class, payload, seen[t.name])
		if cur != 0 {
			seen[t.name] = cur
		}
		obs = append(obs, o)
	}
	return b.toCase(id, "random", obs)
}

// ---------------------------------------------------------------- main

func main() {
	seed := flag.Int64("seed", 1, "seed")
	tier := flag.String("tier", "quick", "quick|thorough")
	out := flag.String("out", "", "output jsonl")
	count := flag.Int("n", -1, "number of random histories per family (default by tier)")
	replay := flag.String("replay", "", "replay file produced by the check: re-runs the commands and prints results and dumps")
	flag.Parse()

	w := bufio.NewWriterSize(os.Stdout, 1<<20)
	if *out != "" {
		f, err := os.Create(*out)
		if err != nil {
			panic(err)
		}
		defer f.Close()
		w = bufio.NewWriterSize(f, 1<<20)
	}
	defer w.Flush()
	emit := func(c Case) {
		j, err := json.Marshal(&c)
		if err != nil {
			panic(err)
		}
		w.Write(j)
		w.WriteByte('\n')
	}

	if *replay != "" {
		raw, err := os.ReadFile(*replay)
		if err != nil {
			panic(err)
		}
		var r struct {
			Family string `json:"family"`
			Cmds   []Cmd  `json:"cmds"`
			CCmds  []CCmd `json:"ccmds"`
		}
		if err := json.Unmarshal(raw, &r); err != nil {
			panic(err)
		}
		im := newImpl()
		type line struct {
			Cmd  any    `json:"cmd"`
			Res  any    `json:"res"`
			FP   string `json:"fingerprint"`
			Dump any    `json:"dump"`
		}
		for i := range r.Cmds {
			res := im.apply(&r.Cmds[i])
			j, _ := json.Marshal(line{r.Cmds[i], res, im.fingerprint(), im.dump()})
			w.Write(j)
			w.WriteByte('\n')
		}
		for i := range r.CCmds {
			res := im.capply(&r.CCmds[i])
			j, _ := json.Marshal(line{r.CCmds[i], res, im.fingerprint(), im.cdump()})
			w.Write(j)
			w.WriteByte('\n')
		}
		return
	}

	rng := rand.New(rand.NewSource(*seed))
	id := 0
	// 1. the cross product, each case on a fresh store
	for _, t := range allTargets() {
		t := t
		for _, pre := range []string{"absent", "present", "recreated", "deleted"} {
			for _, class := range classes {
				for _, payload := range t.payloads {
					b := newRun(rng, t.family, true)
					var stale uint64
					if pre == "deleted" { // existed, now gone; the index it last carried is the stale one
						if t.remove == nil {
							continue
						}
						t.setup(b, "present", payload)
						_, stale = t.cur(b)
						t.remove(b)
					} else {
						stale = t.setup(b, pre, payload)
					}
					o := b.conditional(&t, pre, class, payload, stale)
					emit(b.toCase(id, "cross", []Obs{o}))
					id++
				}
			}
		}
	}
	for _, pre := range []string{"absent", "present", "recreated", "roots-only", "config-only"} {
		for _, rc := range classes2 {
			for _, cc := range classes2 {
				for _, payload := range []string{"same", "different", "invalid"} {
					emit(compositeCase(id, rng, pre, rc, cc, payload))
					id++
				}
			}
		}
	}
	for _, pre := range pres {
		for _, pc := range classes2 {
			for _, sc := range classes2 {
				for _, payload := range []string{"same", "different", "status-only", "invalid"} {
					emit(featureGateCase(id, rng, pre, pc, sc, payload))
					id++
				}
			}
		}
	}
	txnShapeCases(&id, rng, emit)
	// 2. random histories on an accumulated state
	n := *count
	if n < 0 {
		n = 100
		if *tier == "thorough" {
			n = 1500
		}
	}
	for i := 0; i < n; i++ {
		for _, fam := range []string{"store", "cas"} {
			ln := 6 + rng.Intn(14)
			if *tier == "thorough" {
				ln = 6 + rng.Intn(30)
			}
			emit(randomCase(id, rng, fam, ln))
			id++
		}
	}
}
