// Correspondence harness for property C15 (discovery-chain compilation).
//
// compile cases: generated sets of service-router / service-splitter / service-resolver /
// service-defaults / proxy-defaults entries over a few service names are handed to the real
// discoverychain.Compile several times (fresh entry objects, shuffled insertion order); the
// canonical projection of every distinct result is recorded, together with the verdict of
// a direct oracle that looks only at the implementation's output (closure, paths ending at
// resolvers, termination watchdog, determinism over the full JSON, no panic, cycles reported).
//
// store cases: sequences of EnsureConfigEntry / DeleteConfigEntry on a real state.Store, the
// accept/reject verdicts and the stored set after each call, and a direct oracle (a rejected
// write leaves the store unchanged and has a cause among the chains that can reach the written
// name; an accepted write breaks no chain). Three-deep splitter chains (regression for 2e58eb8) and
// two-hop write sequences (regression for f9df4b1) are generated on every run.
package main

import (
	"bufio"
	"crypto/sha256"
	"encoding/hex"
	"encoding/json"
	"flag"
	"fmt"
	"math"
	"math/rand"
	"os"
	"sort"
	"strings"
	"time"

	"github.com/hashicorp/consul/agent/configentry"
	"github.com/hashicorp/consul/agent/consul/discoverychain"
	"github.com/hashicorp/consul/agent/consul/state"
	"github.com/hashicorp/consul/agent/structs"
	"github.com/hashicorp/consul/proto/private/pbpeering"
)

// ------------------------------------------------------------------ case format

type Route struct {
	Svc string `json:"svc"`
	Sub string `json:"sub"`
}
type Split struct {
	W   int    `json:"w"` // 1/100 %
	Svc string `json:"svc"`
	Sub string `json:"sub"`
}
type Redirect struct {
	Svc  string `json:"svc"`
	Sub  string `json:"sub"`
	DC   string `json:"dc"`
	Peer string `json:"peer,omitempty"` // wide only
}
type FTarget struct {
	Svc  string `json:"svc"`
	Sub  string `json:"sub"`
	DC   string `json:"dc"`
	Peer string `json:"peer,omitempty"` // wide only
}
type Failover struct {
	Key     string    `json:"key"`
	Svc     string    `json:"svc"`
	Sub     string    `json:"sub"`
	DCs     []string  `json:"dcs"`
	Targets []FTarget `json:"targets"`
	Policy  string    `json:"policy,omitempty"` // wide only
}
type Entry struct {
	Kind          string     `json:"kind"` // router splitter resolver defaults proxy
	Name          string     `json:"name"`
	Routes        []Route    `json:"routes,omitempty"`
	Splits        []Split    `json:"splits,omitempty"`
	DefaultSubset string     `json:"default_subset,omitempty"`
	Subsets       []string   `json:"subsets,omitempty"`
	Redirect      *Redirect  `json:"redirect,omitempty"`
	Failover      []Failover `json:"failover,omitempty"`
	Other         bool       `json:"other,omitempty"`
	Protocol      string     `json:"protocol,omitempty"`
	External      bool       `json:"external,omitempty"`
	LB            bool       `json:"lb,omitempty"`      // wide only: hash based load balancer
	MeshGW        string     `json:"mesh_gw,omitempty"` // wide only
}

type Tgt struct {
	Svc string `json:"svc"`
	Sub string `json:"sub"`
	DC  string `json:"dc"`
}
type Nid struct {
	K string `json:"k"` // router splitter resolver
	S string `json:"s,omitempty"`
	T *Tgt   `json:"t,omitempty"`
}
type Edge struct {
	W    int `json:"w"`
	Next Nid `json:"next"`
}
type NodeObs struct {
	ID    Nid    `json:"id"`
	Next  []Nid  `json:"next,omitempty"`
	Edges []Edge `json:"edges,omitempty"`
	Dflt  bool   `json:"dflt,omitempty"`
	FO    []Tgt  `json:"fo,omitempty"`
}
type Out struct {
	Ok      bool      `json:"ok"`
	Err     int       `json:"err,omitempty"`
	Msg     string    `json:"msg,omitempty"`
	Start   *Nid      `json:"start,omitempty"`
	Nodes   []NodeObs `json:"nodes,omitempty"`
	Targets []Tgt     `json:"targets,omitempty"`
	Proto   string    `json:"proto,omitempty"`
}

type Op struct {
	Del      bool     `json:"del"`
	Entry    Entry    `json:"entry"` // for delete only kind+name
	Accepted bool     `json:"accepted"`
	Msg      string   `json:"msg,omitempty"`
	Stored   []Stored `json:"stored"`
}
type Stored struct {
	Kind string `json:"kind"`
	Name string `json:"name"`
	Op   int    `json:"op"` // index of the op that wrote it
}

type Case struct {
	ID      int                    `json:"id"`
	Kind    string                 `json:"kind"` // compile | store
	Gen     string                 `json:"gen"`  // generator that produced it
	Entries []Entry                `json:"entries,omitempty"`
	Svc     string                 `json:"svc,omitempty"`
	DC      string                 `json:"dc,omitempty"`
	Ovr     string                 `json:"override,omitempty"`
	Wide    *WideCtx               `json:"wide,omitempty"`
	Valid   bool                   `json:"valid"` // every entry passes Normalize+Validate (what an endpoint can emit)
	Outs    []Out                  `json:"outs,omitempty"`
	Ops     []Op                   `json:"ops,omitempty"`
	Oracle  string                 `json:"oracle"`
	Sig     map[string]interface{} `json:"sig,omitempty"`
	ToCoq   bool                   `json:"to_coq"`
	Feat    []string               `json:"feat,omitempty"`
}

type WideCtx struct {
	MeshGW  string   `json:"mesh_gw,omitempty"`
	Timeout int      `json:"timeout_ms,omitempty"`
	Peers   []string `json:"peers,omitempty"`
}

// ------------------------------------------------------------------ to consul structs

func w32(h int) float32 { return float32(h) / 100.0 }

func (e Entry) consul() structs.ConfigEntry {
	switch e.Kind {
	case "router":
		r := &structs.ServiceRouterConfigEntry{Kind: structs.ServiceRouter, Name: e.Name}
		for i, rt := range e.Routes {
			sr := structs.ServiceRoute{Match: &structs.ServiceRouteMatch{HTTP: &structs.ServiceRouteHTTPMatch{PathPrefix: fmt.Sprintf("/p%d", i)}}}
			if rt.Svc != "" || rt.Sub != "" {
				sr.Destination = &structs.ServiceRouteDestination{Service: rt.Svc, ServiceSubset: rt.Sub}
			}
			r.Routes = append(r.Routes, sr)
		}
		return r
	case "splitter":
		s := &structs.ServiceSplitterConfigEntry{Kind: structs.ServiceSplitter, Name: e.Name}
		for _, sp := range e.Splits {
			s.Splits = append(s.Splits, structs.ServiceSplit{Weight: w32(sp.W), Service: sp.Svc, ServiceSubset: sp.Sub})
		}
		return s
	case "resolver":
		r := &structs.ServiceResolverConfigEntry{Kind: structs.ServiceResolver, Name: e.Name, DefaultSubset: e.DefaultSubset}
		if len(e.Subsets) > 0 {
			r.Subsets = map[string]structs.ServiceResolverSubset{}
			for _, s := range e.Subsets {
				r.Subsets[s] = structs.ServiceResolverSubset{Filter: "Service.Meta.version == " + s}
			}
		}
		if e.Redirect != nil {
			r.Redirect = &structs.ServiceResolverRedirect{Service: e.Redirect.Svc, ServiceSubset: e.Redirect.Sub, Datacenter: e.Redirect.DC, Peer: e.Redirect.Peer}
		}
		if len(e.Failover) > 0 {
			r.Failover = map[string]structs.ServiceResolverFailover{}
			for _, f := range e.Failover {
				fo := structs.ServiceResolverFailover{Service: f.Svc, ServiceSubset: f.Sub, Datacenters: append([]string(nil), f.DCs...)}
				for _, t := range f.Targets {
					fo.Targets = append(fo.Targets, structs.ServiceResolverFailoverTarget{Service: t.Svc, ServiceSubset: t.Sub, Datacenter: t.DC, Peer: t.Peer})
				}
				if f.Policy != "" {
					fo.Policy = &structs.ServiceResolverFailoverPolicy{Mode: f.Policy}
				}
				r.Failover[f.Key] = fo
			}
		}
		if e.Other {
			r.ConnectTimeout = 33 * time.Second
		}
		if e.LB {
			r.LoadBalancer = &structs.LoadBalancer{Policy: structs.LBPolicyRingHash, HashPolicies: []structs.HashPolicy{{SourceIP: true}}}
		}
		return r
	case "defaults":
		d := &structs.ServiceConfigEntry{Kind: structs.ServiceDefaults, Name: e.Name, Protocol: e.Protocol}
		if e.External {
			d.ExternalSNI = e.Name + ".external.example"
		}
		if e.MeshGW != "" {
			d.MeshGateway = structs.MeshGatewayConfig{Mode: structs.MeshGatewayMode(e.MeshGW)}
		}
		return d
	case "proxy":
		p := &structs.ProxyConfigEntry{Kind: structs.ProxyDefaults, Name: structs.ProxyConfigGlobal}
		if e.Protocol != "" {
			p.Config = map[string]interface{}{"protocol": e.Protocol}
		}
		return p
	}
	panic("bad kind " + e.Kind)
}

func consulKind(k string) string {
	switch k {
	case "router":
		return structs.ServiceRouter
	case "splitter":
		return structs.ServiceSplitter
	case "resolver":
		return structs.ServiceResolver
	case "defaults":
		return structs.ServiceDefaults
	case "proxy":
		return structs.ProxyDefaults
	}
	return k
}
func shortKind(k string) string {
	switch k {
	case structs.ServiceRouter:
		return "router"
	case structs.ServiceSplitter:
		return "splitter"
	case structs.ServiceResolver:
		return "resolver"
	case structs.ServiceDefaults:
		return "defaults"
	case structs.ProxyDefaults:
		return "proxy"
	}
	return k
}

// normalized+validated copy, as the ConfigEntry.Apply endpoint would hand it to raft
func prepared(e Entry) (structs.ConfigEntry, error) {
	c := e.consul()
	if err := c.Normalize(); err != nil {
		return c, err
	}
	if err := c.Validate(); err != nil {
		return c, err
	}
	return c, nil
}

func allValid(es []Entry) bool {
	for _, e := range es {
		if _, err := prepared(e); err != nil {
			return false
		}
	}
	return true
}

// ------------------------------------------------------------------ running Compile

func errCode(err error) int {
	s := err.Error()
	switch {
	case strings.Contains(s, "uses inconsistent protocols"):
		return 1
	case strings.Contains(s, "detected circular resolver redirect"):
		return 2
	case strings.Contains(s, "does not have a subset named"):
		return 3
	case strings.Contains(s, "cannot define redirects for external"):
		return 4
	case strings.Contains(s, "cannot define subsets for external"):
		return 5
	case strings.Contains(s, "cannot define failover for external"):
		return 6
	case strings.Contains(s, "detected circular reference"):
		return 7
	case strings.Contains(s, "does not permit advanced routing or splitting"):
		return 8
	}
	return 9
}

type runResult struct {
	chain   *structs.CompiledDiscoveryChain
	err     error
	panicV  interface{}
	timeout bool
}

var hung = false // a compile did not come back: stop generating (the goroutine cannot be killed)

func compileOnce(es []Entry, svc, dc, ovr string, wide *WideCtx, perm []int) runResult {
	ch := make(chan runResult, 1)
	go func() {
		var res runResult
		defer func() {
			if r := recover(); r != nil {
				res.panicV = r
			}
			ch <- res
		}()
		set := configentry.NewDiscoveryChainSet()
		for _, i := range perm {
			c := es[i].consul()
			_ = c.Normalize()
			set.AddEntries(c)
		}
		req := discoverychain.CompileRequest{
			ServiceName: svc, EvaluateInNamespace: "default", EvaluateInPartition: "default",
			EvaluateInDatacenter: dc, EvaluateInTrustDomain: "11111111-2222-3333-4444-555555555555.consul",
			OverrideProtocol: ovr, Entries: set,
		}
		if wide != nil {
			if wide.MeshGW != "" {
				req.OverrideMeshGateway = structs.MeshGatewayConfig{Mode: structs.MeshGatewayMode(wide.MeshGW)}
			}
			if wide.Timeout > 0 {
				req.OverrideConnectTimeout = time.Duration(wide.Timeout) * time.Millisecond
			}
			for _, p := range wide.Peers {
				set.AddPeers(&pbpeering.Peering{Name: p})
			}
		}
		res.chain, res.err = discoverychain.Compile(req)
	}()
	select {
	case r := <-ch:
		return r
	case <-time.After(20 * time.Second):
		hung = true
		return runResult{timeout: true}
	}
}

func tgtOf(c *structs.CompiledDiscoveryChain, id string) (*Tgt, bool) {
	t, ok := c.Targets[id]
	if !ok || t == nil {
		return nil, false
	}
	return &Tgt{Svc: t.Service, Sub: t.ServiceSubset, DC: t.Datacenter}, true
}

func nidOf(c *structs.CompiledDiscoveryChain, key string) (Nid, bool) {
	n, ok := c.Nodes[key]
	if !ok || n == nil {
		return Nid{K: "missing", S: key}, false
	}
	switch n.Type {
	case structs.DiscoveryGraphNodeTypeRouter:
		return Nid{K: "router", S: strings.SplitN(n.Name, ".", 2)[0]}, true
	case structs.DiscoveryGraphNodeTypeSplitter:
		return Nid{K: "splitter", S: strings.SplitN(n.Name, ".", 2)[0]}, true
	case structs.DiscoveryGraphNodeTypeResolver:
		if n.Resolver == nil {
			return Nid{K: "missing", S: key}, false
		}
		t, ok := tgtOf(c, n.Resolver.Target)
		if !ok {
			return Nid{K: "missing", S: key}, false
		}
		return Nid{K: "resolver", T: t}, true
	}
	return Nid{K: "missing", S: key}, false
}

func scale(w float32) int { return int(math.Round(float64(w * 100.0))) }

// canonical projection of a result (what the model is compared with); convertible=false when
// the graph is not closed (then the oracle has already objected)
func project(r runResult) (Out, bool) {
	if r.err != nil {
		return Out{Ok: false, Err: errCode(r.err), Msg: r.err.Error()}, true
	}
	c := r.chain
	okAll := true
	st, ok := nidOf(c, c.StartNode)
	okAll = okAll && ok
	o := Out{Ok: true, Start: &st, Proto: c.Protocol}
	keys := make([]string, 0, len(c.Nodes))
	for k := range c.Nodes {
		keys = append(keys, k)
	}
	sort.Strings(keys)
	for _, k := range keys {
		n := c.Nodes[k]
		id, ok := nidOf(c, k)
		okAll = okAll && ok
		no := NodeObs{ID: id}
		switch n.Type {
		case structs.DiscoveryGraphNodeTypeRouter:
			for _, rt := range n.Routes {
				x, ok := nidOf(c, rt.NextNode)
				okAll = okAll && ok
				no.Next = append(no.Next, x)
			}
		case structs.DiscoveryGraphNodeTypeSplitter:
			for _, sp := range n.Splits {
				x, ok := nidOf(c, sp.NextNode)
				okAll = okAll && ok
				no.Edges = append(no.Edges, Edge{W: scale(sp.Weight), Next: x})
			}
		case structs.DiscoveryGraphNodeTypeResolver:
			if n.Resolver != nil {
				no.Dflt = n.Resolver.Default
				if n.Resolver.Failover != nil {
					for _, ft := range n.Resolver.Failover.Targets {
						t, ok := tgtOf(c, ft)
						okAll = okAll && ok
						if ok {
							no.FO = append(no.FO, *t)
						}
					}
				}
			}
		}
		o.Nodes = append(o.Nodes, no)
	}
	tk := make([]string, 0, len(c.Targets))
	for k := range c.Targets {
		tk = append(tk, k)
	}
	sort.Strings(tk)
	for _, k := range tk {
		t := c.Targets[k]
		o.Targets = append(o.Targets, Tgt{Svc: t.Service, Sub: t.ServiceSubset, DC: t.Datacenter})
	}
	return o, okAll
}

// ------------------------------------------------------------------ direct oracle on one result

// structural oracle: every referenced node and target exists, every path from the start ends
// at a resolver that has a target (no cycle, no dead end)
func structureOracle(c *structs.CompiledDiscoveryChain) string {
	if c.StartNode == "" {
		return "closure:no-start-node"
	}
	if _, ok := c.Nodes[c.StartNode]; !ok {
		return "closure:start-node-missing"
	}
	for k, n := range c.Nodes {
		if n == nil {
			return "closure:nil-node"
		}
		if n.MapKey() != k {
			return "closure:node-key-mismatch"
		}
		switch n.Type {
		case structs.DiscoveryGraphNodeTypeRouter:
			for _, r := range n.Routes {
				if _, ok := c.Nodes[r.NextNode]; !ok {
					return "closure:route-next-missing"
				}
			}
		case structs.DiscoveryGraphNodeTypeSplitter:
			for _, s := range n.Splits {
				if _, ok := c.Nodes[s.NextNode]; !ok {
					return "closure:split-next-missing"
				}
			}
		case structs.DiscoveryGraphNodeTypeResolver:
			if n.Resolver == nil {
				return "closure:resolver-nil"
			}
			if _, ok := c.Targets[n.Resolver.Target]; !ok {
				return "closure:resolver-target-missing"
			}
			if n.Resolver.Failover != nil {
				for _, t := range n.Resolver.Failover.Targets {
					if _, ok := c.Targets[t]; !ok {
						return "closure:failover-target-missing"
					}
				}
			}
		default:
			return "closure:unknown-node-type"
		}
	}
	// every path from the start ends at a resolver
	onPath := map[string]bool{}
	var walk func(k string, depth int) string
	walk = func(k string, depth int) string {
		if onPath[k] {
			return "paths:cycle"
		}
		if depth > 64 {
			return "paths:too-deep"
		}
		n := c.Nodes[k]
		var next []string
		switch n.Type {
		case structs.DiscoveryGraphNodeTypeRouter:
			for _, r := range n.Routes {
				next = append(next, r.NextNode)
			}
		case structs.DiscoveryGraphNodeTypeSplitter:
			for _, s := range n.Splits {
				next = append(next, s.NextNode)
			}
		case structs.DiscoveryGraphNodeTypeResolver:
			return ""
		}
		if len(next) == 0 {
			return "paths:dead-end-" + n.Type
		}
		onPath[k] = true
		defer delete(onPath, k)
		for _, x := range next {
			if r := walk(x, depth+1); r != "" {
				return r
			}
		}
		return ""
	}
	return walk(c.StartNode, 0)
}

// target identity: where the entries leave no freedom (no redirect, no default subset in the way),
// the resolver a route or the chain itself lands on must be the service / subset that was asked for
func plainDestination(es []Entry, svc, sub string) bool {
	r := findEntry(es, "resolver", svc)
	if r == nil {
		return sub == ""
	}
	if r.Redirect != nil {
		return false
	}
	if sub == "" {
		return r.DefaultSubset == ""
	}
	for _, x := range r.Subsets {
		if x == sub {
			return true
		}
	}
	return false
}

func identityOracle(c *Case, ch *structs.CompiledDiscoveryChain) string {
	es := c.Entries
	want := func(key, svc, sub string) string {
		n := ch.Nodes[key]
		if n == nil || n.Type != structs.DiscoveryGraphNodeTypeResolver || n.Resolver == nil {
			return ""
		}
		t := ch.Targets[n.Resolver.Target]
		if t == nil {
			return ""
		}
		if t.Service != svc || t.ServiceSubset != sub {
			return fmt.Sprintf("identity:asked-for-%s/%s-got-%s/%s", svc, sub, t.Service, t.ServiceSubset)
		}
		return ""
	}
	disabled := advancedDisabled(c.Ovr)
	if rt := findEntry(es, "router", c.Svc); rt != nil && !disabled {
		start := ch.Nodes[ch.StartNode]
		if start == nil || start.Type != structs.DiscoveryGraphNodeTypeRouter || len(start.Routes) != len(rt.Routes)+1 {
			return ""
		}
		for i, r := range rt.Routes {
			s := r.Svc
			if s == "" {
				s = c.Svc
			}
			if r.Sub == "" && findEntry(es, "splitter", s) != nil {
				continue
			}
			if plainDestination(es, s, r.Sub) {
				if m := want(start.Routes[i].NextNode, s, r.Sub); m != "" {
					return m
				}
			}
		}
		return ""
	}
	if findEntry(es, "splitter", c.Svc) != nil && !disabled {
		return ""
	}
	// the chain's own resolver, possibly one redirect away
	if plainDestination(es, c.Svc, "") {
		return want(ch.StartNode, c.Svc, "")
	}
	if r := findEntry(es, "resolver", c.Svc); r != nil && r.Redirect != nil && r.Redirect.Peer == "" && r.Redirect.Svc != "" && r.Redirect.Svc != c.Svc {
		if plainDestination(es, r.Redirect.Svc, r.Redirect.Sub) {
			return want(ch.StartNode, r.Redirect.Svc, r.Redirect.Sub)
		}
	}
	return ""
}

func dottedNames(es []Entry) bool {
	for _, e := range es {
		if strings.Contains(e.Name, ".") {
			return true
		}
		for _, r := range e.Routes {
			if strings.Contains(r.Svc, ".") {
				return true
			}
		}
		for _, sp := range e.Splits {
			if strings.Contains(sp.Svc, ".") {
				return true
			}
		}
		if e.Redirect != nil && strings.Contains(e.Redirect.Svc, ".") {
			return true
		}
	}
	return false
}

// entries-level facts the oracle uses to decide "a cycle must have been reported"
func findEntry(es []Entry, kind, name string) *Entry {
	for i := range es {
		if es[i].Kind == kind && es[i].Name == name {
			return &es[i]
		}
	}
	return nil
}

func advancedDisabled(ovr string) bool {
	return ovr != "" && !structs.IsProtocolHTTPLike(ovr)
}

// a cycle of pure service redirects (no subset, datacenter or peer) reached from the start
// service when nothing sits in front of its resolver
func pureRedirectCycle(es []Entry, svc, ovr string) bool {
	if !advancedDisabled(ovr) && (findEntry(es, "router", svc) != nil || findEntry(es, "splitter", svc) != nil) {
		return false
	}
	seen := map[string]bool{}
	cur := svc
	for {
		if seen[cur] {
			return true
		}
		seen[cur] = true
		r := findEntry(es, "resolver", cur)
		if r == nil || r.Redirect == nil {
			return false
		}
		rd := r.Redirect
		if rd.Sub != "" || rd.DC != "" || rd.Peer != "" || rd.Svc == "" || rd.Svc == cur {
			return false
		}
		cur = rd.Svc
	}
}

// a cycle of splitter-to-splitter legs reached from the start service (no router in front)
func splitterCycle(es []Entry, svc, ovr string) bool {
	if advancedDisabled(ovr) || findEntry(es, "router", svc) != nil {
		return false
	}
	onPath := map[string]bool{}
	var walk func(s string, depth int) bool
	walk = func(s string, depth int) bool {
		sp := findEntry(es, "splitter", s)
		if sp == nil {
			return false
		}
		if onPath[s] {
			return true
		}
		if depth > 16 {
			return false
		}
		onPath[s] = true
		defer delete(onPath, s)
		for _, leg := range sp.Splits {
			n := leg.Svc
			if n == "" {
				n = s
			}
			if n != s && leg.Sub == "" && findEntry(es, "splitter", n) != nil {
				if walk(n, depth+1) {
					return true
				}
			}
		}
		return false
	}
	return walk(svc, 0)
}

// depth of the deepest chain of splitter-to-splitter legs (entries level)
func splitterDepth(es []Entry) int {
	best := 0
	var walk func(s string, depth int, onPath map[string]bool)
	walk = func(s string, depth int, onPath map[string]bool) {
		sp := findEntry(es, "splitter", s)
		if sp == nil || onPath[s] || depth > 8 {
			return
		}
		if depth+1 > best {
			best = depth + 1
		}
		onPath[s] = true
		for _, leg := range sp.Splits {
			n := leg.Svc
			if n == "" {
				n = s
			}
			if n != s && leg.Sub == "" {
				walk(n, depth+1, onPath)
			}
		}
		delete(onPath, s)
	}
	for _, e := range es {
		if e.Kind == "splitter" {
			walk(e.Name, 0, map[string]bool{})
		}
	}
	return best
}

func eraseWeights(o Out) Out {
	c := o
	c.Nodes = nil
	for _, n := range o.Nodes {
		m := n
		m.Edges = nil
		for _, e := range n.Edges {
			m.Edges = append(m.Edges, Edge{W: 0, Next: e.Next})
		}
		c.Nodes = append(c.Nodes, m)
	}
	return c
}

func js(v interface{}) string {
	b, _ := json.Marshal(v)
	return string(b)
}

// weights in the full JSON are float32; strip them for the "weights only" comparison
func fullJSON(c *structs.CompiledDiscoveryChain) string {
	b, err := json.Marshal(c)
	if err != nil {
		return "marshal-error:" + err.Error()
	}
	return string(b)
}

// runs Compile [reps] times and fills Outs / Oracle / Sig
func runCompileCase(c *Case, rng *rand.Rand, reps int) {
	n := len(c.Entries)
	seenProj := map[string]bool{}
	seenFull := map[string]bool{}
	convertible := true
	anyOk := false
	for i := 0; i < reps; i++ {
		perm := rng.Perm(n)
		if i == 0 {
			for j := range perm {
				perm[j] = j
			}
		}
		r := compileOnce(c.Entries, c.Svc, c.DC, c.Ovr, c.Wide, perm)
		if r.timeout {
			c.Oracle = "termination:compile-did-not-return-in-20s"
			c.Sig = map[string]interface{}{"kind": "termination"}
			return
		}
		if r.panicV != nil {
			c.Oracle = fmt.Sprintf("panic:%v", r.panicV)
			c.Sig = map[string]interface{}{"kind": "panic"}
			return
		}
		if r.err != nil {
			if _, isGraph := r.err.(*structs.ConfigEntryGraphError); !isGraph && c.Oracle == "" {
				c.Oracle = "internal-error:" + r.err.Error()
				c.Sig = map[string]interface{}{"kind": "internal-error"}
			}
		} else {
			anyOk = true
			if s := structureOracle(r.chain); s != "" && c.Oracle == "" {
				if !(strings.HasPrefix(s, "paths:dead-end-splitter") && !c.Valid) { // a splitter without splits never passes Validate
					c.Oracle = s
					c.Sig = map[string]interface{}{"kind": strings.SplitN(s, ":", 2)[0], "what": s}
				}
			}
			if s := identityOracle(c, r.chain); s != "" && c.Oracle == "" {
				c.Oracle = s
				c.Sig = map[string]interface{}{"kind": "target-identity", "dotted_name": dottedNames(c.Entries)}
			}
		}
		o, conv := project(r)
		convertible = convertible && conv
		pj := js(o)
		if !seenProj[pj] {
			seenProj[pj] = true
			c.Outs = append(c.Outs, o)
		}
		if r.err != nil {
			seenFull["err:"+fmt.Sprint(errCode(r.err))] = true
		} else {
			seenFull[fullJSON(r.chain)] = true
		}
	}
	if c.Oracle == "" && len(seenFull) > 1 {
		// result differs between repeated compilations / insertion orders
		w := map[string]bool{}
		allOk := true
		for _, o := range c.Outs {
			allOk = allOk && o.Ok
			w[js(eraseWeights(o))] = true
		}
		differs := "structure"
		if allOk && len(w) == 1 && len(c.Outs) > 1 {
			differs = "split-weights-only"
		} else if len(c.Outs) == 1 {
			differs = "unprojected-fields"
		}
		c.Oracle = "determinism:" + differs
		c.Sig = map[string]interface{}{"kind": "nondeterministic-output", "differs": differs, "splitter_depth_ge3": splitterDepth(c.Entries) >= 3}
	}
	if c.Oracle == "" && anyOk {
		if pureRedirectCycle(c.Entries, c.Svc, c.Ovr) {
			c.Oracle = "cycles:redirect-cycle-not-reported"
			c.Sig = map[string]interface{}{"kind": "cycle-not-reported", "what": "redirect"}
		} else if splitterCycle(c.Entries, c.Svc, c.Ovr) {
			c.Oracle = "cycles:splitter-cycle-not-reported"
			c.Sig = map[string]interface{}{"kind": "cycle-not-reported", "what": "splitter"}
		}
	}
	if !convertible {
		c.ToCoq = false
	}
}

// ------------------------------------------------------------------ generators (compile)

var svcsQuick = []string{"a", "b", "c"}
var subsetsU = []string{"v1", "v2"}
var dcsU = []string{"dc1", "dc2", "dc3"}
var protosU = []string{"", "tcp", "http", "http2", "grpc"}

// weight partitions of 100.00 whose products Go's float32 arithmetic and exact rounding agree on
// (checked at start-up by floatSafe)
var partitions = [][]int{{10000}, {5000, 5000}, {2500, 7500}, {1000, 9000}, {3333, 6667}, {1250, 8750},
	{100, 9900}, {3333, 3333, 3334}, {2500, 2500, 5000}, {1000, 2000, 7000}, {500, 9500}}

func floatMul(h1, h2 int) int {
	return scale(w32(h1) * w32(h2) / 100)
}
func exactMul(h1, h2 int) int { return (h1*h2 + 5000) / 10000 }

func floatSafePartitions() [][]int {
	var ws []int
	for _, p := range partitions {
		ws = append(ws, p...)
	}
	bad := map[int]bool{}
	for _, a := range ws {
		for _, b := range ws {
			if floatMul(a, b) != exactMul(a, b) {
				bad[a], bad[b] = true, true
			}
			for _, c := range ws {
				if floatMul(exactMul(a, b), c) != exactMul(exactMul(a, b), c) || floatMul(a, exactMul(b, c)) != exactMul(a, exactMul(b, c)) {
					bad[a], bad[b], bad[c] = true, true, true
				}
			}
		}
	}
	var out [][]int
	for _, p := range partitions {
		ok := true
		for _, w := range p {
			if bad[w] {
				ok = false
			}
		}
		if ok {
			out = append(out, p)
		}
	}
	return out
}

type gen struct {
	rng   *rand.Rand
	svcs  []string
	parts [][]int
}

func (g *gen) pick(l []string) string { return l[g.rng.Intn(len(l))] }
func (g *gen) p(x float64) bool       { return g.rng.Float64() < x }

func (g *gen) subsetOf(res map[string]*Entry, svc string, wellFormed bool) string {
	if r, ok := res[svc]; ok && len(r.Subsets) > 0 && wellFormed {
		return r.Subsets[g.rng.Intn(len(r.Subsets))]
	}
	if wellFormed {
		return ""
	}
	return g.pick(subsetsU)
}

// a random entry set inside the modelled feature set; mostly what Validate accepts
func (g *gen) entrySet(malformed bool) []Entry {
	var es []Entry
	wf := func() bool { return !malformed || g.p(0.7) }
	// protocols
	switch {
	case g.p(0.55):
		es = append(es, Entry{Kind: "proxy", Name: "global", Protocol: g.pick([]string{"http", "http", "http2", "grpc"})})
	case g.p(0.3):
		es = append(es, Entry{Kind: "proxy", Name: "global", Protocol: g.pick(protosU)})
	}
	for _, s := range g.svcs {
		if g.p(0.3) {
			es = append(es, Entry{Kind: "defaults", Name: s, Protocol: g.pick(protosU), External: g.p(0.08)})
		}
	}
	// resolvers first (subsets are referenced by everything else)
	res := map[string]*Entry{}
	for _, s := range g.svcs {
		if !g.p(0.6) {
			continue
		}
		r := &Entry{Kind: "resolver", Name: s, Other: g.p(0.2)}
		switch g.rng.Intn(3) {
		case 1:
			r.Subsets = []string{"v1"}
		case 2:
			r.Subsets = []string{"v1", "v2"}
		}
		res[s] = r
	}
	for _, s := range g.svcs {
		r, ok := res[s]
		if !ok {
			continue
		}
		if len(r.Subsets) > 0 && g.p(0.4) {
			r.DefaultSubset = r.Subsets[g.rng.Intn(len(r.Subsets))]
		} else if !wf() {
			r.DefaultSubset = g.pick(subsetsU)
		}
		if g.p(0.4) {
			rd := &Redirect{}
			switch g.rng.Intn(6) {
			case 0: // other datacenter, same service
				rd.DC = g.pick(dcsU[1:])
			case 1:
				rd.Svc = g.pick(g.svcs)
				rd.DC = g.pick(dcsU)
			default:
				rd.Svc = g.pick(g.svcs)
			}
			if rd.Svc != "" && g.p(0.3) {
				rd.Sub = g.subsetOf(res, rd.Svc, wf())
			}
			if !wf() && g.p(0.3) {
				rd.Sub = g.pick(subsetsU)
			}
			r.Redirect = rd
		}
		if (r.Redirect == nil || !wf()) && g.p(0.45) {
			keys := []string{"*"}
			keys = append(keys, r.Subsets...)
			if !wf() {
				keys = append(keys, "v2", "")
			}
			nf := 1 + g.rng.Intn(2)
			used := map[string]bool{}
			for i := 0; i < nf; i++ {
				k := g.pick(keys)
				if used[k] {
					continue
				}
				used[k] = true
				f := Failover{Key: k}
				switch g.rng.Intn(4) {
				case 0:
					f.Svc = g.pick(g.svcs)
					if g.p(0.3) {
						f.Sub = g.subsetOf(res, f.Svc, wf())
					}
				case 1:
					f.DCs = []string{g.pick(dcsU[1:])}
					if g.p(0.4) {
						f.DCs = append(f.DCs, g.pick(dcsU))
					}
					if g.p(0.3) {
						f.Svc = g.pick(g.svcs)
					}
				case 2:
					nt := 1 + g.rng.Intn(2)
					for j := 0; j < nt; j++ {
						t := FTarget{Svc: g.pick(append([]string{""}, g.svcs...))}
						if g.p(0.4) {
							t.DC = g.pick(dcsU)
						}
						if g.p(0.3) {
							n := t.Svc
							if n == "" {
								n = s
							}
							t.Sub = g.subsetOf(res, n, wf())
						}
						if t.Svc == "" && t.DC == "" && t.Sub == "" {
							t.DC = "dc2"
						}
						f.Targets = append(f.Targets, t)
					}
				case 3:
					f.Sub = g.subsetOf(res, s, wf())
					if f.Sub == "" {
						f.Svc = g.pick(g.svcs)
					}
				}
				if malformed && g.p(0.15) {
					// Validate refuses Datacenters together with Targets; Compile takes the Datacenters
					f.DCs = []string{g.pick(dcsU)}
					f.Targets = []FTarget{{Svc: g.pick(g.svcs), DC: g.pick(dcsU)}}
					f.Svc = g.pick(append([]string{""}, g.svcs...))
				}
				r.Failover = append(r.Failover, f)
			}
		}
		es = append(es, *r)
	}
	for _, s := range g.svcs {
		if g.p(0.4) {
			part := g.parts[g.rng.Intn(len(g.parts))]
			if !wf() && g.p(0.3) {
				part = []int{}
			}
			sp := Entry{Kind: "splitter", Name: s}
			used := map[string]bool{}
			for _, w := range part {
				leg := Split{W: w, Svc: g.pick(append([]string{""}, g.svcs...))}
				n := leg.Svc
				if n == "" {
					n = s
				}
				if g.p(0.3) {
					leg.Sub = g.subsetOf(res, n, wf())
				}
				if used[n+"/"+leg.Sub] && wf() {
					continue
				}
				used[n+"/"+leg.Sub] = true
				sp.Splits = append(sp.Splits, leg)
			}
			// re-balance when a duplicate leg was dropped
			if len(sp.Splits) != len(part) && len(sp.Splits) > 0 && wf() {
				sum := 0
				for _, l := range sp.Splits[1:] {
					sum += l.W
				}
				sp.Splits[0].W = 10000 - sum
			}
			es = append(es, sp)
		}
	}
	for _, s := range g.svcs {
		if g.p(0.3) {
			rt := Entry{Kind: "router", Name: s}
			nr := g.rng.Intn(3)
			for i := 0; i < nr; i++ {
				r := Route{Svc: g.pick(append([]string{""}, g.svcs...))}
				n := r.Svc
				if n == "" {
					n = s
				}
				if g.p(0.35) {
					r.Sub = g.subsetOf(res, n, wf())
				}
				rt.Routes = append(rt.Routes, r)
			}
			es = append(es, rt)
		}
	}
	g.rng.Shuffle(len(es), func(i, j int) { es[i], es[j] = es[j], es[i] })
	return es
}

func (g *gen) compileCase(genName string, es []Entry) Case {
	c := Case{Kind: "compile", Gen: genName, Entries: es, Svc: g.pick(g.svcs), DC: "dc1", ToCoq: true}
	if g.p(0.15) {
		c.DC = "dc2"
	}
	if g.p(0.15) {
		c.Ovr = g.pick([]string{"tcp", "http", "grpc", "http2"})
	}
	c.Valid = allValid(es)
	return c
}

// structured families ------------------------------------------------------------

// every redirect map over the services (none / each service), optionally with subsets and datacenters
func (g *gen) redirectFamily(emit func(Case)) {
	n := len(g.svcs)
	choices := n + 1
	total := 1
	for i := 0; i < n; i++ {
		total *= choices
	}
	for code := 0; code < total; code++ {
		for variant := 0; variant < 3; variant++ {
			var es []Entry
			x := code
			for i := 0; i < n; i++ {
				ch := x % choices
				x /= choices
				r := Entry{Kind: "resolver", Name: g.svcs[i], Subsets: []string{"v1"}}
				if ch > 0 {
					r.Redirect = &Redirect{Svc: g.svcs[ch-1]}
					if variant == 1 && i%2 == 0 {
						r.Redirect.DC = "dc2"
					}
					if variant == 2 {
						r.Redirect.Sub = "v1"
					}
				} else if variant == 2 {
					r.DefaultSubset = "v1"
				}
				es = append(es, r)
			}
			for _, s := range g.svcs {
				c := Case{Kind: "compile", Gen: "redirect-family", Entries: es, Svc: s, DC: "dc1", ToCoq: true}
				c.Valid = allValid(es)
				emit(c)
			}
		}
	}
}

// every splitter graph over the services: each service has no splitter or one whose legs go
// to a non-empty subset of the services (cycles and three-deep chains included)
func (g *gen) splitterFamily(emit func(Case), weightVariants int) {
	n := len(g.svcs)
	sets := 1 << n // subset of services as legs; 0 = no splitter
	total := 1
	for i := 0; i < n; i++ {
		total *= sets
	}
	for code := 0; code < total; code++ {
		for wv := 0; wv < weightVariants; wv++ {
			es := []Entry{{Kind: "proxy", Name: "global", Protocol: "http"}}
			x := code
			ok := true
			for i := 0; i < n; i++ {
				m := x % sets
				x /= sets
				if m == 0 {
					continue
				}
				var legs []string
				for j := 0; j < n; j++ {
					if m&(1<<j) != 0 {
						legs = append(legs, g.svcs[j])
					}
				}
				var part []int
				for _, p := range g.parts {
					if len(p) == len(legs) {
						part = p
						if wv == 0 || g.p(0.4) {
							break
						}
					}
				}
				if part == nil {
					ok = false
					break
				}
				sp := Entry{Kind: "splitter", Name: g.svcs[i]}
				for j, l := range legs {
					sp.Splits = append(sp.Splits, Split{W: part[j], Svc: l})
				}
				es = append(es, sp)
			}
			if !ok {
				continue
			}
			c := Case{Kind: "compile", Gen: "splitter-family", Entries: es, Svc: g.svcs[0], DC: "dc1", ToCoq: true}
			c.Valid = allValid(es)
			emit(c)
		}
	}
}

// three-deep splitter chains with weights that round differently depending on the order in
// which flattenAdjacentSplitterNodes meets the nodes (any weights: the model multiplies exactly)
func (g *gen) deepChains(emit func(Case), count int) {
	g.deepChainsNamed(emit, count, [3]string{"a", "b", "c"}, "deep-chain")
	// names that sort differently as plain strings and as "splitter:<name>.default.default" ids
	g.deepChainsNamed(emit, (count+2)/3, [3]string{"ab", "a", "a-b"}, "deep-chain-names")
	g.deepChainsNamed(emit, (count+2)/3, [3]string{"a-b", "ab", "a"}, "deep-chain-names")
}

func (g *gen) deepChainsNamed(emit func(Case), count int, n [3]string, genName string) {
	ws := [][]int{{3333, 6667}, {5000, 5000}, {1250, 8750}, {2500, 7500}, {500, 9500}, {3300, 6700}, {4500, 5500}}
	for i := 0; i < count; i++ {
		mk := func(name, next string) Entry {
			w := ws[g.rng.Intn(len(ws))]
			return Entry{Kind: "splitter", Name: name, Splits: []Split{{W: w[0], Svc: next}, {W: w[1], Svc: name, Sub: ""}}}
		}
		es := []Entry{{Kind: "proxy", Name: "global", Protocol: "http"}, mk(n[0], n[1]), mk(n[1], n[2]), mk(n[2], n[2])}
		// the last splitter splits between two subsets of itself
		es[3].Splits = []Split{{W: es[3].Splits[0].W, Svc: n[2], Sub: "v1"}, {W: es[3].Splits[1].W, Svc: n[2], Sub: "v2"}}
		es = append(es, Entry{Kind: "resolver", Name: n[2], Subsets: []string{"v1", "v2"}})
		c := Case{Kind: "compile", Gen: genName, Entries: es, Svc: n[0], DC: "dc1", ToCoq: true}
		c.Valid = allValid(es)
		emit(c)
	}
}

// outside the modelled feature set: oracle only
func (g *gen) wideCase() Case {
	es := g.entrySet(g.p(0.2))
	w := &WideCtx{}
	for i := range es {
		e := &es[i]
		switch e.Kind {
		case "resolver":
			e.LB = g.p(0.3)
			if e.Redirect != nil && g.p(0.3) {
				e.Redirect.Peer = "peer1"
				e.Redirect.DC = ""
				e.Redirect.Sub = ""
				if e.Redirect.Svc == "" {
					e.Redirect.Svc = g.pick(g.svcs)
				}
				w.Peers = []string{"peer1"}
			}
			for j := range e.Failover {
				if g.p(0.3) {
					e.Failover[j].Policy = g.pick([]string{"sequential", "order-by-locality"})
				}
				for k := range e.Failover[j].Targets {
					if g.p(0.3) {
						e.Failover[j].Targets[k].Peer = "peer1"
						e.Failover[j].Targets[k].DC = ""
						e.Failover[j].Targets[k].Sub = ""
						w.Peers = []string{"peer1"}
					}
				}
			}
		case "defaults":
			if g.p(0.3) {
				e.MeshGW = g.pick([]string{"local", "remote", "none"})
			}
			if g.p(0.2) {
				e.Protocol = strings.ToUpper(e.Protocol)
			}
		}
	}
	if g.p(0.3) {
		w.MeshGW = g.pick([]string{"local", "remote"})
	}
	if g.p(0.3) {
		w.Timeout = 1000 + g.rng.Intn(5000)
	}
	c := g.compileCase("wide", es)
	c.Wide = w
	c.ToCoq = false
	return c
}

// ------------------------------------------------------------------ store cases

type storedRow struct {
	Kind, Name string
	Modify     uint64
	Hash       string
}

func dumpStore(s *state.Store) []storedRow {
	_, all, err := s.ConfigEntries(nil, structs.WildcardEnterpriseMetaInDefaultPartition())
	if err != nil {
		panic(err)
	}
	var rows []storedRow
	for _, e := range all {
		b, _ := json.Marshal(e)
		h := sha256.Sum256(b)
		rows = append(rows, storedRow{Kind: e.GetKind(), Name: e.GetName(), Modify: e.GetRaftIndex().ModifyIndex, Hash: hex.EncodeToString(h[:8])})
	}
	sort.Slice(rows, func(i, j int) bool {
		if rows[i].Kind != rows[j].Kind {
			return rows[i].Kind < rows[j].Kind
		}
		return rows[i].Name < rows[j].Name
	})
	return rows
}

func chainCompiles(s *state.Store, svc string) (ok bool, msg string, hungNow bool) {
	return chainCompilesIn(s, svc, "dc1", "")
}

// the other evaluation contexts a proxy can ask for: the guard test-compiles in dc1 without override only
var otherContexts = [][2]string{{"dc2", ""}, {"dc1", "tcp"}, {"dc1", "http"}, {"dc2", "grpc"}}

func chainCompilesIn(s *state.Store, svc, dc, ovr string) (ok bool, msg string, hungNow bool) {
	type res struct {
		ok  bool
		msg string
	}
	ch := make(chan res, 1)
	go func() {
		defer func() {
			if r := recover(); r != nil {
				ch <- res{false, fmt.Sprintf("panic:%v", r)}
			}
		}()
		_, set, err := s.ReadDiscoveryChainConfigEntries(nil, svc, structs.DefaultEnterpriseMetaInDefaultPartition())
		if err != nil {
			ch <- res{false, "read:" + err.Error()}
			return
		}
		_, err = discoverychain.Compile(discoverychain.CompileRequest{
			ServiceName: svc, EvaluateInNamespace: "default", EvaluateInPartition: "default",
			EvaluateInDatacenter: dc, EvaluateInTrustDomain: "11111111-2222-3333-4444-555555555555.consul", Entries: set,
			OverrideProtocol: ovr,
		})
		if err != nil {
			ch <- res{false, err.Error()}
			return
		}
		ch <- res{true, ""}
	}()
	select {
	case r := <-ch:
		return r.ok, r.msg, false
	case <-time.After(20 * time.Second):
		hung = true
		return false, "timeout", true
	}
}

type related interface {
	ListRelatedServices() []structs.ServiceID
}

// can chain X reach the written name through router/splitter/resolver entries (any number of
// hops): those are the chains a write to (kind,name) must re-validate; every chain owning such
// an entry for proxy-defaults.  hops = 0 for the name itself, 1 for a chain that names it, ...
func reachesName(before []structs.ConfigEntry, x, kind, name string) (bool, int) {
	if kind == structs.ProxyDefaults {
		for _, e := range before {
			if e.GetName() == x {
				switch e.GetKind() {
				case structs.ServiceRouter, structs.ServiceSplitter, structs.ServiceResolver:
					return true, 1
				}
			}
		}
		return false, 0
	}
	dist := map[string]int{x: 0}
	queue := []string{x}
	for len(queue) > 0 {
		cur := queue[0]
		queue = queue[1:]
		if cur == name {
			return true, dist[cur]
		}
		for _, e := range before {
			if e.GetName() != cur {
				continue
			}
			switch e.GetKind() {
			case structs.ServiceRouter, structs.ServiceSplitter, structs.ServiceResolver:
				for _, sid := range e.(related).ListRelatedServices() {
					if _, ok := dist[sid.ID]; !ok {
						dist[sid.ID] = dist[cur] + 1
						queue = append(queue, sid.ID)
					}
				}
			}
		}
	}
	return false, 0
}

// the proposed full entry set compiled directly (no store), for "rejected without cause"
func proposedCompiles(before []structs.ConfigEntry, newEntry structs.ConfigEntry, delKind, delName, svc string) bool {
	set := configentry.NewDiscoveryChainSet()
	for _, e := range before {
		if newEntry != nil && e.GetKind() == newEntry.GetKind() && e.GetName() == newEntry.GetName() {
			continue
		}
		if newEntry == nil && e.GetKind() == delKind && e.GetName() == delName {
			continue
		}
		set.AddEntries(e)
	}
	if newEntry != nil {
		set.AddEntries(newEntry)
	}
	_, err := discoverychain.Compile(discoverychain.CompileRequest{
		ServiceName: svc, EvaluateInNamespace: "default", EvaluateInPartition: "default",
		EvaluateInDatacenter: "dc1", EvaluateInTrustDomain: "11111111-2222-3333-4444-555555555555.consul", Entries: set,
	})
	return err == nil
}

// drives a fresh store through the ops; fills verdicts, stored sets, oracle
func runStoreCase(c *Case, universe []string) {
	s := state.NewStateStore(nil)
	c.Oracle = ""
	c.Sig = nil
	broken := map[string]bool{}
	brokenCtx := map[string]bool{}
	const base = 100
	for i := range c.Ops {
		op := &c.Ops[i]
		idx := uint64(base + i)
		beforeRows := dumpStore(s)
		_, before, _ := s.ConfigEntries(nil, structs.WildcardEnterpriseMetaInDefaultPartition())
		var err error
		var ce structs.ConfigEntry
		kind := consulKind(op.Entry.Kind)
		if op.Del {
			err = s.DeleteConfigEntry(idx, kind, op.Entry.Name, structs.DefaultEnterpriseMetaInDefaultPartition())
		} else {
			ce, err = prepared(op.Entry)
			if err != nil {
				panic("store op with an entry the endpoint would refuse: " + err.Error())
			}
			err = s.EnsureConfigEntry(idx, ce)
		}
		op.Accepted = err == nil
		op.Msg = ""
		if err != nil {
			op.Msg = err.Error()
		}
		afterRows := dumpStore(s)
		op.Stored = nil
		for _, r := range afterRows {
			op.Stored = append(op.Stored, Stored{Kind: shortKind(r.Kind), Name: r.Name, Op: int(r.Modify) - base})
		}
		if c.Oracle != "" {
			continue
		}
		if !op.Accepted {
			if js(beforeRows) != js(afterRows) {
				c.Oracle = fmt.Sprintf("write-guard:rejected-write-changed-store@%d", i)
				c.Sig = map[string]interface{}{"kind": "rejected-write-changed-store"}
				continue
			}
			// a cause must exist among the chains that can reach the written name (any number of hops)
			cause := false
			for _, x := range universe {
				if r, _ := reachesName(before, x, kind, op.Entry.Name); r {
					var ne structs.ConfigEntry
					if !op.Del {
						ne = ce
					}
					if !proposedCompiles(before, ne, kind, op.Entry.Name, x) {
						cause = true
					}
				}
			}
			if !cause {
				c.Oracle = fmt.Sprintf("write-guard:rejected-without-cause@%d:%s", i, op.Msg)
				c.Sig = map[string]interface{}{"kind": "rejected-without-cause"}
			}
			continue
		}
		// accepted: no chain that compiled before may be broken now (whatever its distance from the written name)
		for _, x := range universe {
			ok, msg, h := chainCompiles(s, x)
			if h {
				c.Oracle = fmt.Sprintf("termination:chain-%s-did-not-compile-in-20s@%d", x, i)
				c.Sig = map[string]interface{}{"kind": "termination"}
				return
			}
			if !ok && !broken[x] {
				reaches, hops := reachesName(before, x, kind, op.Entry.Name)
				if c.Oracle == "" {
					c.Oracle = fmt.Sprintf("write-guard:accepted-write-breaks-chain-%s@%d:%s", x, i, msg)
					c.Sig = map[string]interface{}{"kind": "accepted-write-breaks-chain", "reaches_written_name": reaches, "hops": hops}
				}
			}
			broken[x] = !ok
			// a stored chain that compiles in the guard's context must compile in every context
			if ok && c.Oracle == "" {
				for _, cxo := range otherContexts {
					ok2, msg2, h2 := chainCompilesIn(s, x, cxo[0], cxo[1])
					if h2 {
						c.Oracle = fmt.Sprintf("termination:chain-%s-did-not-compile-in-20s@%d", x, i)
						c.Sig = map[string]interface{}{"kind": "termination"}
						return
					}
					if !ok2 && !brokenCtx[x+"|"+cxo[0]+"|"+cxo[1]] {
						c.Oracle = fmt.Sprintf("write-guard:chain-%s-compiles-in-dc1-but-not-in-dc=%s-override=%q@%d:%s", x, cxo[0], cxo[1], i, msg2)
						_, after, _ := s.ConfigEntries(nil, structs.WildcardEnterpriseMetaInDefaultPartition())
						inFront := false
						for _, e := range after {
							if e.GetName() == x && (e.GetKind() == structs.ServiceRouter || e.GetKind() == structs.ServiceSplitter) {
								inFront = true
							}
						}
						c.Sig = map[string]interface{}{"kind": "context-dependent-chain", "dc": cxo[0],
							"override_disables_routing": advancedDisabled(cxo[1]), "router_or_splitter_in_front": inFront}
					}
					brokenCtx[x+"|"+cxo[0]+"|"+cxo[1]] = !ok2
				}
			}
		}
	}
}

func (g *gen) storeOps() []Op {
	var es []Entry
	for tries := 0; tries < 50; tries++ {
		es = g.entrySet(false)
		if allValid(es) && len(es) >= 3 {
			break
		}
	}
	var keep []Entry
	for _, e := range es {
		if _, err := prepared(e); err == nil {
			keep = append(keep, e)
		}
	}
	var ops []Op
	for _, e := range keep {
		ops = append(ops, Op{Entry: e})
	}
	// then deletions, protocol flips and rewrites that may invalidate chains
	extra := 2 + g.rng.Intn(4)
	for i := 0; i < extra && len(keep) > 0; i++ {
		e := keep[g.rng.Intn(len(keep))]
		switch g.rng.Intn(4) {
		case 0:
			ops = append(ops, Op{Del: true, Entry: Entry{Kind: e.Kind, Name: e.Name}})
		case 1:
			ops = append(ops, Op{Entry: Entry{Kind: "defaults", Name: g.pick(g.svcs), Protocol: g.pick(protosU)}})
		case 2:
			ops = append(ops, Op{Entry: Entry{Kind: "proxy", Name: "global", Protocol: g.pick(protosU)}})
		default:
			for tries := 0; tries < 20; tries++ {
				alt := g.entrySet(false)
				done := false
				for _, a := range alt {
					if a.Kind == e.Kind && a.Name == e.Name {
						if _, err := prepared(a); err == nil {
							ops = append(ops, Op{Entry: a})
							done = true
						}
						break
					}
				}
				if done {
					break
				}
			}
		}
	}
	return ops
}

// the two-hop situation: chain a reaches c only through b's splitter
func indirectOps(variant int) []Op {
	switch variant {
	case 0:
		return []Op{
			{Entry: Entry{Kind: "defaults", Name: "a", Protocol: "http"}},
			{Entry: Entry{Kind: "defaults", Name: "c", Protocol: "http"}},
			{Entry: Entry{Kind: "splitter", Name: "b", Splits: []Split{{W: 10000, Svc: "c"}}}},
			{Entry: Entry{Kind: "router", Name: "a", Routes: []Route{{Svc: "b"}}}},
			{Entry: Entry{Kind: "defaults", Name: "c", Protocol: "grpc"}},
		}
	default:
		return []Op{
			{Entry: Entry{Kind: "proxy", Name: "global", Protocol: "http"}},
			{Entry: Entry{Kind: "resolver", Name: "c", Subsets: []string{"v1"}}},
			{Entry: Entry{Kind: "resolver", Name: "b", Subsets: []string{"v1", "v2"}, Failover: []Failover{{Key: "v2", Svc: "c", Sub: "v1"}}}},
			{Entry: Entry{Kind: "router", Name: "a", Routes: []Route{{Svc: "b", Sub: "v2"}}}},
			{Del: true, Entry: Entry{Kind: "resolver", Name: "c"}},
		}
	}
}

// ------------------------------------------------------------------ shrinking

func sameSig(a, b map[string]interface{}) bool { return js(a) == js(b) }

func shrinkCompile(c Case, rng *rand.Rand, reps int) Case {
	best := c
	try := func(es []Entry) bool {
		if hung {
			return false
		}
		t := Case{Kind: "compile", Gen: c.Gen, Entries: es, Svc: c.Svc, DC: c.DC, Ovr: c.Ovr, Wide: c.Wide, ToCoq: c.ToCoq}
		t.Valid = allValid(es)
		runCompileCase(&t, rng, reps)
		if t.Oracle != "" && sameSig(t.Sig, c.Sig) {
			t.ID = c.ID
			best = t
			return true
		}
		return false
	}
	changed := true
	for changed && !hung {
		changed = false
		for i := 0; i < len(best.Entries); i++ {
			es := append(append([]Entry(nil), best.Entries[:i]...), best.Entries[i+1:]...)
			if try(es) {
				changed = true
				break
			}
		}
		if changed {
			continue
		}
		for i := 0; i < len(best.Entries) && !changed; i++ {
			e := best.Entries[i]
			cp := func() []Entry { return append([]Entry(nil), best.Entries...) }
			for j := range e.Routes {
				es := cp()
				ne := e
				ne.Routes = append(append([]Route(nil), e.Routes[:j]...), e.Routes[j+1:]...)
				es[i] = ne
				if try(es) {
					changed = true
					break
				}
			}
			if changed {
				break
			}
			for j := range e.Failover {
				es := cp()
				ne := e
				ne.Failover = append(append([]Failover(nil), e.Failover[:j]...), e.Failover[j+1:]...)
				es[i] = ne
				if try(es) {
					changed = true
					break
				}
			}
			if changed {
				break
			}
			if e.Redirect != nil {
				es := cp()
				ne := e
				ne.Redirect = nil
				es[i] = ne
				if try(es) {
					changed = true
				}
			}
		}
	}
	return best
}

func shrinkStore(c Case, universe []string) Case {
	best := c
	changed := true
	for changed && !hung {
		changed = false
		for i := 0; i < len(best.Ops); i++ {
			t := Case{Kind: "store", Gen: c.Gen, ID: c.ID, ToCoq: c.ToCoq, Valid: true}
			t.Ops = append(append([]Op(nil), best.Ops[:i]...), best.Ops[i+1:]...)
			t.Ops = append([]Op(nil), t.Ops...)
			runStoreCase(&t, universe)
			if t.Oracle != "" && sameSig(t.Sig, c.Sig) {
				best = t
				changed = true
				break
			}
		}
	}
	return best
}

// ------------------------------------------------------------------ main

func features(c *Case) []string {
	f := map[string]bool{}
	for _, e := range c.Entries {
		f[e.Kind] = true
		if e.Redirect != nil {
			f["redirect"] = true
		}
		if len(e.Failover) > 0 {
			f["failover"] = true
		}
		if e.DefaultSubset != "" {
			f["default-subset"] = true
		}
		if e.External {
			f["external"] = true
		}
	}
	if c.Ovr != "" {
		f["override-protocol"] = true
	}
	if d := splitterDepth(c.Entries); d >= 2 {
		f[fmt.Sprintf("splitter-depth-%d", d)] = true
	}
	var out []string
	for k := range f {
		out = append(out, k)
	}
	sort.Strings(out)
	return out
}

func main() {
	seed := flag.Int64("seed", 1, "")
	tier := flag.String("tier", "quick", "")
	outp := flag.String("out", "", "")
	replay := flag.String("replay", "", "")
	flag.Parse()

	if *replay != "" {
		doReplay(*replay)
		return
	}

	rng := rand.New(rand.NewSource(*seed))
	g := &gen{rng: rng, svcs: svcsQuick, parts: floatSafePartitions()}
	thorough := *tier == "thorough"

	f, err := os.Create(*outp)
	if err != nil {
		panic(err)
	}
	defer f.Close()
	w := bufio.NewWriterSize(f, 1<<20)
	defer w.Flush()
	enc := json.NewEncoder(w)
	id := 0
	reps := 5
	emitC := func(c Case) {
		if hung {
			return
		}
		c.ID = id
		id++
		r := reps
		if splitterDepth(c.Entries) >= 3 {
			r = 24
		}
		runCompileCase(&c, rng, r)
		c.Feat = features(&c)
		if c.Oracle != "" && !hung {
			orig := c.Oracle
			c = shrinkCompile(c, rng, r)
			c.Feat = append(features(&c), "shrunk-from:"+orig)
		}
		if err := enc.Encode(&c); err != nil {
			panic(err)
		}
	}
	emitS := func(c Case) {
		if hung {
			return
		}
		c.ID = id
		id++
		c.Kind = "store"
		c.ToCoq = true
		c.Valid = true
		runStoreCase(&c, g.svcs)
		if c.Oracle != "" && !hung {
			c = shrinkStore(c, g.svcs)
		}
		if err := enc.Encode(&c); err != nil {
			panic(err)
		}
	}

	nRandom, nMal, nWide, nStore, nDeep, wv := 1200, 400, 500, 200, 12, 1
	if thorough {
		nRandom, nMal, nWide, nStore, nDeep, wv = 12000, 4000, 6000, 2500, 60, 3
	}
	// fixed scenarios first
	for v := 0; v < 2; v++ {
		emitS(Case{Gen: "indirect", Ops: indirectOps(v)})
	}
	g.deepChains(emitC, nDeep)
	g.redirectFamily(emitC)
	g.splitterFamily(emitC, wv)
	for i := 0; i < nRandom && !hung; i++ {
		emitC(g.compileCase("random", g.entrySet(false)))
	}
	for i := 0; i < nMal && !hung; i++ {
		emitC(g.compileCase("malformed", g.entrySet(true)))
	}
	if thorough {
		g4 := &gen{rng: rng, svcs: []string{"a", "b", "c", "d"}, parts: g.parts}
		for i := 0; i < 4000 && !hung; i++ {
			emitC(g4.compileCase("random4", g4.entrySet(i%4 == 0)))
		}
	}
	// dotted, prefix and hyphen names: outside the model's "ids are triples" assumption (oracle only)
	gd := &gen{rng: rng, svcs: []string{"a", "v1.a", "a.b", "ab", "a-b"}, parts: g.parts}
	for i := 0; i < nWide/2 && !hung; i++ {
		c := gd.compileCase("dotted-names", gd.entrySet(i%5 == 0))
		c.ToCoq = false
		emitC(c)
	}
	for _, sw := range [][2]int{{0, 1}, {1, 0}} {
		rts := []Route{{Svc: "a", Sub: "v1"}, {Svc: "v1.a"}}
		emitC(Case{Kind: "compile", Gen: "dotted-names", Svc: "x", DC: "dc1", Valid: true, Entries: []Entry{
			{Kind: "proxy", Name: "global", Protocol: "http"}, {Kind: "resolver", Name: "a", Subsets: []string{"v1"}},
			{Kind: "router", Name: "x", Routes: []Route{rts[sw[0]], rts[sw[1]]}}}})
	}
	// hyphen / prefix names inside the model (sort key of the flatten order, memo keys)
	gh := &gen{rng: rng, svcs: []string{"a", "ab", "a-b"}, parts: g.parts}
	for i := 0; i < nRandom/6 && !hung; i++ {
		emitC(gh.compileCase("hyphen-names", gh.entrySet(false)))
	}
	for i := 0; i < nWide && !hung; i++ {
		emitC(g.wideCase())
	}
	for i := 0; i < nStore && !hung; i++ {
		ops := g.storeOps()
		emitS(Case{Gen: "store-random", Ops: ops})
		// the same writes in other orders
		for k := 0; k < 2; k++ {
			p := append([]Op(nil), ops...)
			rng.Shuffle(len(p), func(i, j int) { p[i], p[j] = p[j], p[i] })
			emitS(Case{Gen: "store-reordered", Ops: p})
		}
	}
	w.Flush()
	if hung {
		// a goroutine is still spinning inside the compiler; leave without waiting for it
		f.Sync()
		os.Exit(0)
	}
}

func doReplay(path string) {
	b, err := os.ReadFile(path)
	if err != nil {
		panic(err)
	}
	var wrap struct {
		Case *Case `json:"case"`
	}
	if err := json.Unmarshal(b, &wrap); err != nil || wrap.Case == nil {
		fmt.Println("replay file has no \"case\" (a correspondence or proof failure names the lemma instead)")
		os.Exit(2)
	}
	c := *wrap.Case
	rng := rand.New(rand.NewSource(1))
	if c.Kind == "store" {
		runStoreCase(&c, svcsQuick)
		for i, op := range c.Ops {
			fmt.Printf("op %d del=%v %s/%s accepted=%v %s\n", i, op.Del, op.Entry.Kind, op.Entry.Name, op.Accepted, op.Msg)
		}
	} else {
		c.Outs = nil
		c.Oracle = ""
		runCompileCase(&c, rng, 24)
		for _, o := range c.Outs {
			fmt.Println("output:", js(o))
		}
	}
	if c.Oracle != "" {
		fmt.Println("ORACLE FAILS:", c.Oracle)
		os.Exit(1)
	}
	fmt.Println("oracle silent")
}
