package main

import (
	"fmt"
	"sort"
	"strings"

	"github.com/hashicorp/consul/agent/configentry"
	"github.com/hashicorp/consul/agent/consul/discoverychain"
	"github.com/hashicorp/consul/agent/consul/state"
	"github.com/hashicorp/consul/agent/structs"
)

func compile(svc string, es ...structs.ConfigEntry) (*structs.CompiledDiscoveryChain, error) {
	set := configentry.NewDiscoveryChainSet()
	set.AddEntries(es...)
	return discoverychain.Compile(discoverychain.CompileRequest{
		ServiceName: svc, EvaluateInNamespace: "default", EvaluateInPartition: "default",
		EvaluateInDatacenter: "dc1", EvaluateInTrustDomain: "trust.consul", Entries: set,
	})
}

func dump(c *structs.CompiledDiscoveryChain) string {
	var keys []string
	for k := range c.Nodes {
		keys = append(keys, k)
	}
	sort.Strings(keys)
	var sb strings.Builder
	for _, k := range keys {
		n := c.Nodes[k]
		sb.WriteString(k + ":")
		for _, s := range n.Splits {
			sb.WriteString(fmt.Sprintf(" %v->%s", s.Weight, s.NextNode))
		}
		for _, r := range n.Routes {
			sb.WriteString(fmt.Sprintf(" ->%s", r.NextNode))
		}
		sb.WriteString("\n")
	}
	return sb.String()
}

func main() {
	// experiment 1: flatten order
	found := 0
	ws := []float32{33.33, 66.67, 50, 50, 25, 75, 10, 90, 1, 99, 12.5, 87.5, 0.01, 99.99, 45, 55, 3, 97, 5, 95}
	for i := 0; i < len(ws) && found < 5; i += 2 {
		for j := 0; j < len(ws) && found < 5; j += 2 {
			for k := 0; k < len(ws) && found < 5; k += 2 {
				mk := func(name, next string, w1, w2 float32) *structs.ServiceSplitterConfigEntry {
					return &structs.ServiceSplitterConfigEntry{Kind: "service-splitter", Name: name, Splits: []structs.ServiceSplit{
						{Weight: w1, Service: next}, {Weight: w2, Service: name + "x"}}}
				}
				es := []structs.ConfigEntry{
					&structs.ProxyConfigEntry{Kind: "proxy-defaults", Name: "global", Protocol: "http"},
					mk("a", "b", ws[i], ws[i+1]), mk("b", "c", ws[j], ws[j+1]), mk("c", "d", ws[k], ws[k+1]),
				}
				seen := map[string]int{}
				for r := 0; r < 40; r++ {
					c, err := compile("a", es...)
					if err != nil {
						fmt.Println("err", err)
						break
					}
					seen[dump(c)]++
				}
				if len(seen) > 1 {
					found++
					fmt.Println("NONDET", ws[i], ws[j], ws[k])
					for d, n := range seen {
						fmt.Println(n, "times:\n"+d)
					}
				}
			}
		}
	}
	fmt.Println("nondet found:", found)

	// experiment 2: indirect chain
	s := state.NewStateStore(nil)
	idx := uint64(1)
	put := func(e structs.ConfigEntry) {
		idx++
		if err := e.Normalize(); err != nil {
			fmt.Println("normalize", err)
		}
		if err := e.Validate(); err != nil {
			fmt.Println("validate", err)
		}
		err := s.EnsureConfigEntry(idx, e)
		fmt.Printf("put %s/%s: %v\n", e.GetKind(), e.GetName(), err)
	}
	put(&structs.ServiceConfigEntry{Kind: "service-defaults", Name: "a", Protocol: "http"})
	put(&structs.ServiceConfigEntry{Kind: "service-defaults", Name: "c", Protocol: "http"})
	put(&structs.ServiceSplitterConfigEntry{Kind: "service-splitter", Name: "b", Splits: []structs.ServiceSplit{{Weight: 100, Service: "c"}}})
	put(&structs.ServiceRouterConfigEntry{Kind: "service-router", Name: "a", Routes: []structs.ServiceRoute{{Match: &structs.ServiceRouteMatch{HTTP: &structs.ServiceRouteHTTPMatch{PathPrefix: "/x"}}, Destination: &structs.ServiceRouteDestination{Service: "b"}}}})
	put(&structs.ServiceConfigEntry{Kind: "service-defaults", Name: "c", Protocol: "grpc"})
	for _, n := range []string{"a", "b", "c"} {
		_, set, err := s.ReadDiscoveryChainConfigEntries(nil, n, structs.DefaultEnterpriseMetaInDefaultPartition())
		if err != nil {
			fmt.Println("read", err)
			continue
		}
		_, err = discoverychain.Compile(discoverychain.CompileRequest{
			ServiceName: n, EvaluateInNamespace: "default", EvaluateInPartition: "default",
			EvaluateInDatacenter: "dc1", EvaluateInTrustDomain: "trust.consul", Entries: set,
		})
		fmt.Printf("chain %s: %v\n", n, err)
	}
}
