// Correspondence harness and direct oracle for C06 (blocking-query contract).
//
// A real state.Store is driven with generated write histories over a small universe.  In every
// state (before the first write and after every single write) every query of the list below is
// evaluated on every parameter of the universe through the real Store read method, with a real
// memdb.WatchSet; after the next write the watch set registered in the previous state is polled.
// Recorded per history: the writes, for every state the (index, canonical result) of every query
// (delta-encoded), and for every write the set of queries whose watch fired.
//
// The direct oracle (independent of the Coq model) is the contract itself:
//   result changed  =>  floor(index') > floor(index)  and the watch fired
//   floor(index') >= floor(index) unless the write is a tombstone reap
// where floor(i) = max(i, 1) is what Server.SetQueryMeta does to every reply.
//
// Two streams: "model" histories stay inside the fragment the Coq model covers (compared exactly
// with the model and checked by the oracle); "ext" histories add node IDs / renames by ID,
// session-type checks, transactions-free extras, intentions and peerings (oracle only).
package main

import (
	"bufio"
	"context"
	"encoding/json"
	"errors"
	"flag"
	"fmt"
	"math/rand"
	"os"
	"sort"
	"strings"
	"sync"
	"time"

	memdb "github.com/hashicorp/go-memdb"
	"github.com/hashicorp/serf/coordinate"
	"google.golang.org/protobuf/types/known/timestamppb"

	"github.com/hashicorp/consul/acl"
	"github.com/hashicorp/consul/agent/blockingquery"
	"github.com/hashicorp/consul/agent/consul/state"
	"github.com/hashicorp/consul/agent/structs"
	"github.com/hashicorp/consul/api"
	"github.com/hashicorp/consul/proto/private/pbpeering"
	"github.com/hashicorp/consul/types"
)

// ---------------------------------------------------------------- writes

type CheckSpec struct {
	ID     string `json:"id"`
	Status int    `json:"status"`  // 0 passing 1 warning 2 critical
	Svc    string `json:"svc"`     // service id, "" = node-level
	Output int    `json:"output"`  // opaque payload
	Sess   string `json:"sess"`    // Type=="session" with this Definition.SessionName (ext stream only)
}

type SvcSpec struct {
	ID     string   `json:"id"`
	Name   string   `json:"name"`
	Kind   string   `json:"kind"` // "" typical | "connect-proxy"
	Dest   string   `json:"dest"` // proxy destination
	Native bool     `json:"native"`
	Tags   []string `json:"tags"`
	Port   int      `json:"port"`
}

type Op struct {
	Kind string `json:"kind"`
	Idx  uint64 `json:"idx"`
	// kv
	Key     string `json:"key,omitempty"`
	Val     int    `json:"val,omitempty"`
	Flags   uint64 `json:"flags,omitempty"`
	Session string `json:"session,omitempty"`
	Cas     uint64 `json:"cas,omitempty"`
	// catalog
	Node   string      `json:"node,omitempty"`
	NodeID string      `json:"node_id,omitempty"`
	Addr   int         `json:"addr,omitempty"`
	Svc    *SvcSpec    `json:"svc,omitempty"`
	Checks []CheckSpec `json:"checks,omitempty"`
	SvcID  string      `json:"svc_id,omitempty"`
	ChkID  string      `json:"chk_id,omitempty"`
	// session
	Sid    string   `json:"sid,omitempty"`
	Name   string   `json:"name,omitempty"`
	Delete bool     `json:"delete,omitempty"`
	SChk   []string `json:"schk,omitempty"`
	// generic
	Tab     string `json:"tab,omitempty"` // cfg kinds: service-defaults | proxy-defaults | service-intentions
	Content int    `json:"content,omitempty"`
	Upto    uint64 `json:"upto,omitempty"`
	Roots   []int  `json:"roots,omitempty"` // CA roots: ids, first is active
	Sub     []*Op  `json:"sub,omitempty"`   // txn: the verbs of one transaction (all at Idx)
}

func sessID(n int) string { return fmt.Sprintf("00000000-0000-0000-0000-00000000000%d", n) }
func pqID(n int) string   { return fmt.Sprintf("11111111-0000-0000-0000-00000000000%d", n) }
func peerID(n int) string { return fmt.Sprintf("22222222-0000-0000-0000-00000000000%d", n) }

var statusName = []string{api.HealthPassing, api.HealthWarning, api.HealthCritical}

func mkService(s *SvcSpec) *structs.NodeService {
	ns := &structs.NodeService{ID: s.ID, Service: s.Name, Port: s.Port, Tags: append([]string(nil), s.Tags...),
		EnterpriseMeta: *structs.DefaultEnterpriseMetaInDefaultPartition()}
	if s.Kind == "connect-proxy" {
		ns.Kind = structs.ServiceKindConnectProxy
		ns.Proxy.DestinationServiceName = s.Dest
	}
	ns.Connect.Native = s.Native
	return ns
}

func mkCheck(node string, c CheckSpec) *structs.HealthCheck {
	hc := &structs.HealthCheck{Node: node, CheckID: types.CheckID(c.ID), Name: c.ID, Status: statusName[c.Status],
		ServiceID: c.Svc, Output: fmt.Sprintf("out%d", c.Output),
		EnterpriseMeta: *structs.DefaultEnterpriseMetaInDefaultPartition()}
	if c.Sess != "" {
		hc.Type = "session"
		hc.Definition.SessionName = c.Sess
	}
	return hc
}

func addr(n int) string { return fmt.Sprintf("10.0.0.%d", n) }

// apply runs one write against the real store; returns the error text ("" when it succeeded) and
// for conditional writes whether it was applied.
func apply(s *state.Store, op *Op) (errs string) {
	defer func() {
		if r := recover(); r != nil {
			errs = fmt.Sprintf("panic: %v", r)
		}
	}()
	e := func(err error) string {
		if err != nil {
			return err.Error()
		}
		return ""
	}
	switch op.Kind {
	case "kv_set":
		return e(s.KVSSet(op.Idx, &structs.DirEntry{Key: op.Key, Value: []byte{byte(op.Val)}, Flags: op.Flags}))
	case "kv_del":
		return e(s.KVSDelete(op.Idx, op.Key, nil))
	case "kv_deltree":
		return e(s.KVSDeleteTree(op.Idx, op.Key, nil))
	case "kv_cas":
		d := &structs.DirEntry{Key: op.Key, Value: []byte{byte(op.Val)}, Flags: op.Flags}
		d.ModifyIndex = op.Cas
		_, err := s.KVSSetCAS(op.Idx, d)
		return e(err)
	case "kv_delcas":
		_, err := s.KVSDeleteCAS(op.Idx, op.Cas, op.Key, nil)
		return e(err)
	case "kv_lock":
		_, err := s.KVSLock(op.Idx, &structs.DirEntry{Key: op.Key, Value: []byte{byte(op.Val)}, Flags: op.Flags, Session: op.Session})
		return e(err)
	case "kv_unlock":
		_, err := s.KVSUnlock(op.Idx, &structs.DirEntry{Key: op.Key, Value: []byte{byte(op.Val)}, Flags: op.Flags, Session: op.Session})
		return e(err)
	case "reap":
		return e(s.ReapTombstones(op.Idx, op.Upto))
	case "sess_create":
		b := structs.SessionKeysRelease
		if op.Delete {
			b = structs.SessionKeysDelete
		}
		ss := &structs.Session{ID: op.Sid, Node: op.Node, Name: op.Name, Behavior: b}
		for _, c := range op.SChk {
			ss.NodeChecks = append(ss.NodeChecks, c)
		}
		return e(s.SessionCreate(op.Idx, ss))
	case "sess_destroy":
		return e(s.SessionDestroy(op.Idx, op.Sid, nil))
	case "node":
		return e(s.EnsureNode(op.Idx, &structs.Node{Node: op.Node, ID: types.NodeID(op.NodeID), Address: addr(op.Addr)}))
	case "svc":
		return e(s.EnsureService(op.Idx, op.Node, mkService(op.Svc)))
	case "check":
		return e(s.EnsureCheck(op.Idx, mkCheck(op.Node, op.Checks[0])))
	case "register":
		req := &structs.RegisterRequest{Node: op.Node, ID: types.NodeID(op.NodeID), Address: addr(op.Addr),
			EnterpriseMeta: *structs.DefaultEnterpriseMetaInDefaultPartition()}
		if op.Svc != nil {
			req.Service = mkService(op.Svc)
		}
		for _, c := range op.Checks {
			req.Checks = append(req.Checks, mkCheck(op.Node, c))
		}
		return e(s.EnsureRegistration(op.Idx, req))
	case "del_node":
		return e(s.DeleteNode(op.Idx, op.Node, nil, ""))
	case "del_svc":
		return e(s.DeleteService(op.Idx, op.Node, op.SvcID, nil, ""))
	case "del_check":
		return e(s.DeleteCheck(op.Idx, op.Node, types.CheckID(op.ChkID), nil, ""))
	case "coord":
		c := coordinate.NewCoordinate(coordinate.DefaultConfig())
		c.Vec[0] = float64(op.Content)
		return e(s.CoordinateBatchUpdate(op.Idx, structs.Coordinates{&structs.Coordinate{Node: op.Node, Coord: c}}))
	case "cfg_set":
		var ce structs.ConfigEntry
		switch op.Tab {
		case structs.ServiceDefaults:
			ce = &structs.ServiceConfigEntry{Kind: structs.ServiceDefaults, Name: op.Name, Protocol: []string{"tcp", "http", "grpc"}[op.Content%3]}
		case structs.ProxyDefaults:
			ce = &structs.ProxyConfigEntry{Kind: structs.ProxyDefaults, Name: structs.ProxyConfigGlobal,
				Config: map[string]interface{}{"k": fmt.Sprintf("v%d", op.Content)}}
		case structs.ServiceIntentions:
			act := structs.IntentionActionAllow
			if op.Content%2 == 1 {
				act = structs.IntentionActionDeny
			}
			ce = &structs.ServiceIntentionsConfigEntry{Kind: structs.ServiceIntentions, Name: op.Name,
				Sources: []*structs.SourceIntention{{Name: []string{"web", "api", "*"}[op.Content/2%3], Action: act}}}
		default:
			return "bad cfg kind"
		}
		if err := ce.Normalize(); err != nil {
			return e(err)
		}
		if err := ce.Validate(); err != nil {
			return e(err)
		}
		return e(s.EnsureConfigEntry(op.Idx, ce))
	case "cfg_del":
		return e(s.DeleteConfigEntry(op.Idx, op.Tab, op.Name, nil))
	case "pq_set":
		return e(s.PreparedQuerySet(op.Idx, &structs.PreparedQuery{ID: op.Sid, Session: op.Session,
			Service: structs.ServiceQuery{Service: fmt.Sprintf("svc%d", op.Content)}}))
	case "pq_del":
		return e(s.PreparedQueryDelete(op.Idx, op.Sid))
	case "ca_set":
		var rs []*structs.CARoot
		for i, r := range op.Roots {
			rs = append(rs, &structs.CARoot{ID: fmt.Sprintf("root%d", r), Name: fmt.Sprintf("root%d", r), Active: i == 0})
		}
		_, err := s.CARootSetCAS(op.Idx, op.Cas, rs)
		return e(err)
	case "peer_set":
		p := &pbpeering.Peering{ID: op.Sid, Name: op.Name, Meta: map[string]string{"c": fmt.Sprint(op.Content)}}
		if op.Delete {
			p.State = pbpeering.PeeringState_DELETING
			p.DeletedAt = timestamppb.New(time.Unix(1700000000, 0))
		}
		return e(s.PeeringWrite(op.Idx, &pbpeering.PeeringWriteRequest{Peering: p}))
	case "peer_del":
		return e(s.PeeringDelete(op.Idx, state.Query{Value: op.Name}))
	case "txn":
		var ops structs.TxnOps
		for _, o := range op.Sub {
			switch o.Kind {
			case "kv_set", "kv_del", "kv_deltree", "kv_lock", "kv_unlock":
				verb := map[string]api.KVOp{"kv_set": api.KVSet, "kv_del": api.KVDelete, "kv_deltree": api.KVDeleteTree,
					"kv_lock": api.KVLock, "kv_unlock": api.KVUnlock}[o.Kind]
				ops = append(ops, &structs.TxnOp{KV: &structs.TxnKVOp{Verb: verb,
					DirEnt: structs.DirEntry{Key: o.Key, Value: []byte{byte(o.Val)}, Flags: o.Flags, Session: o.Session}}})
			case "node":
				ops = append(ops, &structs.TxnOp{Node: &structs.TxnNodeOp{Verb: api.NodeSet,
					Node: structs.Node{Node: o.Node, Address: addr(o.Addr)}}})
			case "del_node":
				ops = append(ops, &structs.TxnOp{Node: &structs.TxnNodeOp{Verb: api.NodeDelete, Node: structs.Node{Node: o.Node}}})
			case "svc":
				ops = append(ops, &structs.TxnOp{Service: &structs.TxnServiceOp{Verb: api.ServiceSet, Node: o.Node, Service: *mkService(o.Svc)}})
			case "del_svc":
				ops = append(ops, &structs.TxnOp{Service: &structs.TxnServiceOp{Verb: api.ServiceDelete, Node: o.Node,
					Service: structs.NodeService{ID: o.SvcID}}})
			case "check":
				ops = append(ops, &structs.TxnOp{Check: &structs.TxnCheckOp{Verb: api.CheckSet, Check: *mkCheck(o.Node, o.Checks[0])}})
			case "del_check":
				ops = append(ops, &structs.TxnOp{Check: &structs.TxnCheckOp{Verb: api.CheckDelete,
					Check: structs.HealthCheck{Node: o.Node, CheckID: types.CheckID(o.ChkID)}}})
			default:
				return "bad txn verb " + o.Kind
			}
		}
		_, errsT := s.TxnRW(op.Idx, ops)
		if len(errsT) > 0 {
			return "txn: " + errsT[0].What
		}
		return ""
	}
	return "unknown op " + op.Kind
}

// ---------------------------------------------------------------- queries

type Q struct {
	K string `json:"k"`
	A string `json:"a,omitempty"`
	B string `json:"b,omitempty"`
}

type Row struct {
	K []string      `json:"k"`
	V []interface{} `json:"v"`
}

type Obs struct {
	Idx  uint64
	Rows []Row
	canon string
}

func kvRow(e *structs.DirEntry) Row {
	v := 0
	if len(e.Value) > 0 {
		v = int(e.Value[0])
	}
	return Row{K: []string{e.Key}, V: []interface{}{v, e.Flags, e.Session, e.LockIndex, e.CreateIndex, e.ModifyIndex}}
}

func sessRow(x *structs.Session) Row {
	del := 0
	if x.Behavior == structs.SessionKeysDelete {
		del = 1
	}
	return Row{K: []string{x.ID}, V: []interface{}{x.Node, x.Name, del, checkIDs(x), x.CreateIndex}}
}

func checkIDs(x *structs.Session) string {
	var l []string
	for _, c := range x.CheckIDs() {
		l = append(l, string(c))
	}
	return strings.Join(l, ",")
}

func addrNum(a string) int {
	var n int
	fmt.Sscanf(a, "10.0.0.%d", &n)
	return n
}

func nodeVals(n *structs.Node) []interface{} {
	return []interface{}{string(n.ID), addrNum(n.Address), n.CreateIndex, n.ModifyIndex}
}

func nsVals(s *structs.NodeService) []interface{} {
	tags := append([]string(nil), s.Tags...)
	native := 0
	if s.Connect.Native {
		native = 1
	}
	return []interface{}{s.Service, string(s.Kind), s.Proxy.DestinationServiceName, native, strings.Join(tags, ","), s.Port, s.CreateIndex, s.ModifyIndex}
}

func checkVals(c *structs.HealthCheck) []interface{} {
	st := 0
	switch c.Status {
	case api.HealthWarning:
		st = 1
	case api.HealthCritical:
		st = 2
	}
	var out interface{} = c.Output
	var on int
	if _, err := fmt.Sscanf(c.Output, "out%d", &on); err == nil {
		out = on
	}
	return []interface{}{st, c.ServiceID, c.ServiceName, strings.Join(c.ServiceTags, ","), out, c.CreateIndex, c.ModifyIndex}
}

func checkRow(c *structs.HealthCheck) Row {
	return Row{K: []string{c.Node, string(c.CheckID)}, V: checkVals(c)}
}

// ServiceNode (catalog): node fields joined in by parseServiceNodes
func snRow(sn *structs.ServiceNode) Row {
	v := []interface{}{string(sn.ID), addrNum(sn.Address)}
	v = append(v, nsVals(sn.ToNodeService())...)
	return Row{K: []string{sn.Node, sn.ServiceID}, V: v}
}

func csnRows(csn structs.CheckServiceNodes) []Row {
	var rows []Row
	for _, c := range csn {
		v := append([]interface{}{"svc"}, nodeVals(c.Node)...)
		v = append(v, nsVals(c.Service)...)
		rows = append(rows, Row{K: []string{c.Node.Node, c.Service.ID}, V: v})
		for _, hc := range c.Checks {
			rows = append(rows, Row{K: []string{c.Node.Node, c.Service.ID, string(hc.CheckID)}, V: append([]interface{}{"chk"}, checkVals(hc)...)})
		}
	}
	return rows
}

func splitTags(s string) []string {
	if s == "" {
		return nil
	}
	return strings.Split(s, ",")
}

func runQuery(s *state.Store, q Q, ws memdb.WatchSet) (idx uint64, rows []Row, err error) {
	defer func() {
		if r := recover(); r != nil {
			err = fmt.Errorf("panic: %v", r)
		}
	}()
	switch q.K {
	case "kv_get", "kv_get_ep":
		i, e, er := s.KVSGet(ws, q.A, nil)
		if er != nil {
			return 0, nil, er
		}
		if e != nil {
			rows = append(rows, kvRow(e))
			if q.K == "kv_get_ep" {
				i = e.ModifyIndex
			}
		}
		return i, rows, nil
	case "kv_list", "kv_keys":
		i, es, er := s.KVSList(ws, q.A, nil)
		if er != nil {
			return 0, nil, er
		}
		if q.K == "kv_list" {
			for _, e := range es {
				rows = append(rows, kvRow(e))
			}
			return i, rows, nil
		}
		// KVS.ListKeys separator logic
		seen := map[string]bool{}
		pl, sl := len(q.A), len(q.B)
		for _, e := range es {
			key := e.Key
			if sl > 0 {
				after := e.Key[pl:]
				if si := strings.Index(after, q.B); si > -1 {
					key = e.Key[:pl+si+sl]
				}
			}
			if !seen[key] {
				seen[key] = true
				rows = append(rows, Row{K: []string{key}, V: []interface{}{}})
			}
		}
		return i, rows, nil
	case "sess_get":
		i, x, er := s.SessionGet(ws, q.A, nil)
		if x != nil {
			rows = append(rows, sessRow(x))
		}
		return i, rows, er
	case "sess_list":
		i, xs, er := s.SessionList(ws, nil)
		for _, x := range xs {
			rows = append(rows, sessRow(x))
		}
		return i, rows, er
	case "node_sess":
		i, xs, er := s.NodeSessions(ws, q.A, nil)
		for _, x := range xs {
			rows = append(rows, sessRow(x))
		}
		return i, rows, er
	case "nodes":
		i, ns, er := s.Nodes(ws, nil, "")
		for _, n := range ns {
			rows = append(rows, Row{K: []string{n.Node}, V: nodeVals(n)})
		}
		return i, rows, er
	case "services":
		// Catalog.ListServices: Services() reduced to name -> set of tags
		i, sns, er := s.Services(ws, nil, "", false)
		m := map[string]map[string]bool{}
		for _, sn := range sns {
			if m[sn.ServiceName] == nil {
				m[sn.ServiceName] = map[string]bool{}
			}
			for _, t := range sn.ServiceTags {
				m[sn.ServiceName][t] = true
			}
		}
		for name, ts := range m {
			var l []string
			for t := range ts {
				l = append(l, t)
			}
			sort.Strings(l)
			rows = append(rows, Row{K: []string{name}, V: []interface{}{strings.Join(l, ",")}})
		}
		return i, rows, er
	case "service_list":
		i, sl, er := s.ServiceList(ws, nil, "")
		for _, sn := range sl {
			rows = append(rows, Row{K: []string{sn.Name}, V: []interface{}{}})
		}
		return i, rows, er
	case "svc_nodes":
		i, sns, er := s.ServiceNodes(ws, q.A, nil, "")
		for _, sn := range sns {
			rows = append(rows, snRow(sn))
		}
		return i, rows, er
	case "svc_tag_nodes":
		i, sns, er := s.ServiceTagNodes(ws, q.A, []string{q.B}, nil, "")
		for _, sn := range sns {
			rows = append(rows, snRow(sn))
		}
		return i, rows, er
	case "connect_nodes":
		i, sns, er := s.ConnectServiceNodes(ws, q.A, nil, "")
		for _, sn := range sns {
			rows = append(rows, snRow(sn))
		}
		return i, rows, er
	case "node_services":
		i, ns, er := s.NodeServices(ws, q.A, nil, "")
		if ns != nil {
			rows = append(rows, Row{K: []string{"node"}, V: nodeVals(ns.Node)})
			for _, sv := range ns.Services {
				rows = append(rows, Row{K: []string{"svc", sv.ID}, V: nsVals(sv)})
			}
		}
		return i, rows, er
	case "node_checks":
		i, cs, er := s.NodeChecks(ws, q.A, nil, "")
		for _, c := range cs {
			rows = append(rows, checkRow(c))
		}
		return i, rows, er
	case "svc_checks":
		i, cs, er := s.ServiceChecks(ws, q.A, nil, "")
		for _, c := range cs {
			rows = append(rows, checkRow(c))
		}
		return i, rows, er
	case "checks_state":
		i, cs, er := s.ChecksInState(ws, q.A, nil, "")
		for _, c := range cs {
			rows = append(rows, checkRow(c))
		}
		return i, rows, er
	case "csn":
		i, c, er := s.CheckServiceNodes(ws, q.A, nil, "")
		return i, csnRows(c), er
	case "csn_connect":
		i, c, er := s.CheckConnectServiceNodes(ws, q.A, nil, "")
		return i, csnRows(c), er
	case "csn_tag":
		i, c, er := s.CheckServiceTagNodes(ws, q.A, []string{q.B}, nil, "")
		return i, csnRows(c), er
	case "coords":
		i, cs, er := s.Coordinates(ws, nil)
		for _, c := range cs {
			rows = append(rows, Row{K: []string{c.Node}, V: []interface{}{int(c.Coord.Vec[0])}})
		}
		return i, rows, er
	case "coord":
		i, cs, er := s.Coordinate(ws, q.A, nil)
		for _, c := range cs {
			rows = append(rows, Row{K: []string{q.A}, V: []interface{}{int(c.Vec[0])}})
		}
		return i, rows, er
	case "cfg_get":
		i, ce, er := s.ConfigEntry(ws, q.A, q.B, nil)
		if ce != nil {
			rows = append(rows, cfgRow(ce))
		}
		return i, rows, er
	case "cfg_kind":
		i, ces, er := s.ConfigEntriesByKind(ws, q.A, nil)
		for _, ce := range ces {
			rows = append(rows, cfgRow(ce))
		}
		return i, rows, er
	case "ca_roots":
		i, rs, er := s.CARoots(ws)
		for _, r := range rs {
			a := 0
			if r.Active {
				a = 1
			}
			rows = append(rows, Row{K: []string{r.ID}, V: []interface{}{a, r.CreateIndex, r.ModifyIndex}})
		}
		return i, rows, er
	case "ixn_match":
		i, l, er := s.IntentionMatch(ws, &structs.IntentionQueryMatch{Type: structs.IntentionMatchDestination,
			Entries: []structs.IntentionMatchEntry{{Namespace: "default", Name: q.A}}})
		for _, ixns := range l {
			for _, x := range ixns {
				rows = append(rows, Row{K: []string{x.SourceName, x.DestinationName}, V: []interface{}{string(x.Action), x.Precedence, x.CreateIndex, x.ModifyIndex}})
			}
		}
		return i, rows, er
	case "pq_get":
		i, p, er := s.PreparedQueryGet(ws, q.A)
		if p != nil {
			rows = append(rows, pqRow(p))
		}
		return i, rows, er
	case "pq_list":
		i, ps, er := s.PreparedQueryList(ws)
		for _, p := range ps {
			rows = append(rows, pqRow(p))
		}
		return i, rows, er
	case "peer_read":
		i, p, er := s.PeeringRead(ws, state.Query{Value: q.A})
		if p != nil {
			rows = append(rows, peerRow(p))
		}
		return i, rows, er
	case "peer_list":
		i, ps, er := s.PeeringList(ws, *structs.DefaultEnterpriseMetaInDefaultPartition())
		for _, p := range ps {
			rows = append(rows, peerRow(p))
		}
		return i, rows, er
	}
	return 0, nil, fmt.Errorf("unknown query %s", q.K)
}

func cfgRow(ce structs.ConfigEntry) Row {
	var c interface{}
	switch x := ce.(type) {
	case *structs.ServiceConfigEntry:
		c = map[string]int{"tcp": 0, "http": 1, "grpc": 2}[x.Protocol]
	case *structs.ProxyConfigEntry:
		var n int
		fmt.Sscanf(fmt.Sprint(x.Config["k"]), "v%d", &n)
		c = n
	case *structs.ServiceIntentionsConfigEntry:
		t := ""
		for _, s := range x.Sources {
			t += s.Name + ":" + string(s.Action) + ";"
		}
		c = t
	}
	ri := ce.GetRaftIndex()
	return Row{K: []string{ce.GetKind(), ce.GetName()}, V: []interface{}{c, ri.CreateIndex, ri.ModifyIndex}}
}

func pqRow(p *structs.PreparedQuery) Row {
	var n int
	fmt.Sscanf(p.Service.Service, "svc%d", &n)
	return Row{K: []string{p.ID}, V: []interface{}{p.Session, n, p.CreateIndex, p.ModifyIndex}}
}

func peerRow(p *pbpeering.Peering) Row {
	return Row{K: []string{p.Name}, V: []interface{}{p.ID, p.Meta["c"], int(p.State), p.CreateIndex, p.ModifyIndex}}
}

func canonRows(rows []Row) ([]Row, string) {
	sort.Slice(rows, func(i, j int) bool { return strings.Join(rows[i].K, "\x00") < strings.Join(rows[j].K, "\x00") })
	if rows == nil {
		rows = []Row{}
	}
	b, _ := json.Marshal(rows)
	return rows, string(b)
}

// ---------------------------------------------------------------- universe

var (
	uNodes  = []string{"n1", "n2", "n3"}
	uNames  = []string{"web", "api", "db", "web-proxy"}
	uTags   = []string{"a", "b"}
	uKeys   = []string{"a", "a/", "a/b", "a/b/c", "ab", "b", "a/c"}
	uPrefix = []string{"", "a", "a/", "a/b", "a/b/", "b", "z"}
	uChecks = []string{"serfHealth", "c1", "c2", "c3"}
	uSvcIDs = []string{"s1", "s2", "p1"}
	uCfg    = [][2]string{{structs.ServiceDefaults, "web"}, {structs.ServiceDefaults, "api"}, {structs.ProxyDefaults, "global"}}
)

func queryList(ext bool) []Q {
	var qs []Q
	for _, k := range uKeys[:5] {
		qs = append(qs, Q{K: "kv_get", A: k}, Q{K: "kv_get_ep", A: k})
	}
	for _, p := range uPrefix {
		qs = append(qs, Q{K: "kv_list", A: p}, Q{K: "kv_keys", A: p, B: "/"})
	}
	for i := 1; i <= 3; i++ {
		qs = append(qs, Q{K: "sess_get", A: sessID(i)})
	}
	qs = append(qs, Q{K: "sess_list"})
	for _, n := range uNodes {
		qs = append(qs, Q{K: "node_sess", A: n})
	}
	qs = append(qs, Q{K: "nodes"}, Q{K: "services"}, Q{K: "service_list"})
	for _, n := range uNames {
		qs = append(qs, Q{K: "svc_nodes", A: n}, Q{K: "connect_nodes", A: n}, Q{K: "svc_checks", A: n},
			Q{K: "csn", A: n}, Q{K: "csn_connect", A: n})
	}
	for _, n := range uNames[:2] {
		for _, t := range uTags {
			qs = append(qs, Q{K: "svc_tag_nodes", A: n, B: t}, Q{K: "csn_tag", A: n, B: t})
		}
	}
	for _, n := range uNodes {
		qs = append(qs, Q{K: "node_services", A: n}, Q{K: "node_checks", A: n}, Q{K: "coord", A: n})
	}
	for _, st := range []string{api.HealthAny, api.HealthPassing, api.HealthWarning, api.HealthCritical} {
		qs = append(qs, Q{K: "checks_state", A: st})
	}
	qs = append(qs, Q{K: "coords"})
	for _, c := range uCfg {
		qs = append(qs, Q{K: "cfg_get", A: c[0], B: c[1]})
	}
	qs = append(qs, Q{K: "cfg_kind", A: structs.ServiceDefaults}, Q{K: "cfg_kind", A: ""})
	qs = append(qs, Q{K: "ca_roots"}, Q{K: "pq_get", A: pqID(1)}, Q{K: "pq_get", A: pqID(2)}, Q{K: "pq_list"})
	if ext {
		qs = append(qs, Q{K: "svc_nodes", A: "Web"}, Q{K: "csn", A: "Web"})
		qs = append(qs, Q{K: "ixn_match", A: "web"}, Q{K: "ixn_match", A: "api"}, Q{K: "cfg_get", A: structs.ServiceIntentions, B: "web"},
			Q{K: "peer_read", A: "p1"}, Q{K: "peer_read", A: "p2"}, Q{K: "peer_list"})
	}
	return qs
}

// ---------------------------------------------------------------- generator

type gen struct {
	r   *rand.Rand
	ext bool
	idx uint64
	s   *state.Store // for resolving CAS indexes against the implementation's current state
}

func (g *gen) pick(l []string) string { return l[g.r.Intn(len(l))] }

// mostly-valid inputs: 85% of the node / session / service-id arguments name something that exists
func (g *gen) node() string {
	if g.r.Intn(100) < 85 {
		if _, ns, _ := g.s.Nodes(nil, nil, ""); len(ns) > 0 {
			return ns[g.r.Intn(len(ns))].Node
		}
	}
	return g.pick(uNodes)
}

func (g *gen) sess() string {
	if g.r.Intn(100) < 85 {
		if _, ss, _ := g.s.SessionList(nil, nil); len(ss) > 0 {
			return ss[g.r.Intn(len(ss))].ID
		}
	}
	return sessID(1 + g.r.Intn(3))
}

func (g *gen) svcOn(node string) string {
	if g.r.Intn(100) < 85 {
		if _, ns, _ := g.s.NodeServices(nil, node, nil, ""); ns != nil && len(ns.Services) > 0 {
			var ids []string
			for id := range ns.Services {
				ids = append(ids, id)
			}
			sort.Strings(ids)
			return ids[g.r.Intn(len(ids))]
		}
	}
	return g.pick(uSvcIDs)
}

func (g *gen) svcSpec() *SvcSpec {
	id := g.pick(uSvcIDs)
	sp := &SvcSpec{ID: id, Port: 80 + g.r.Intn(2)}
	switch {
	case id == "p1" && g.r.Intn(10) < 8:
		sp.Name, sp.Kind, sp.Dest = "web-proxy", "connect-proxy", g.pick([]string{"web", "web", "api"})
	case g.r.Intn(10) < 1:
		// the same service id under another name (re-registration with a new name)
		sp.Name = g.pick(uNames[:3])
	case id == "s1":
		sp.Name = "web"
	default:
		sp.Name = g.pick([]string{"web", "api", "api", "db"})
	}
	if g.ext && sp.Kind == "" && sp.Name == "web" && g.r.Intn(5) == 0 {
		sp.Name = "Web" // names that differ only in case share the memdb index but not the index-table row
	}
	if sp.Kind == "" && g.r.Intn(6) == 0 {
		sp.Native = true
	}
	for _, t := range uTags {
		if g.r.Intn(3) == 0 {
			sp.Tags = append(sp.Tags, t)
		}
	}
	return sp
}

func (g *gen) checkSpec(node string) CheckSpec {
	c := CheckSpec{ID: g.pick(uChecks), Status: []int{0, 0, 1, 2}[g.r.Intn(4)], Output: g.r.Intn(2)}
	if c.ID == "c2" || c.ID == "c3" {
		c.Svc = g.svcOn(node)
	}
	if g.ext && c.ID == "c1" && g.r.Intn(3) == 0 {
		c.Sess = "lock"
	}
	return c
}

func (g *gen) next() *Op {
	g.idx += uint64(1 + g.r.Intn(3))
	op := &Op{Idx: g.idx}
	if g.ext && g.r.Intn(100) < 8 {
		// a transaction: several verbs under one index (all or nothing)
		op.Kind = "txn"
		for n := 2 + g.r.Intn(3); n > 0; n-- {
			var o *Op
			for o == nil {
				c := g.nextPlain()
				switch c.Kind {
				case "kv_set", "kv_del", "kv_deltree", "kv_lock", "kv_unlock", "node", "del_node", "svc", "del_svc", "check", "del_check":
					o = c
				}
			}
			o.Idx = op.Idx
			op.Sub = append(op.Sub, o)
		}
		return op
	}
	if g.ext && g.r.Intn(100) < 3 {
		op.Kind = "restore"
		return op
	}
	return g.fill(op)
}

// nextPlain: one non-transactional write (its Idx is set by the caller)
func (g *gen) nextPlain() *Op { return g.fill(&Op{Idx: g.idx}) }

// targeted: writes that put the index rules of the repaired classes under test in every run -- a
// check moved to another service of its node, a service id with checks registered under another
// name, the delete of a check whose stored service name is stale.  nil when the catalog offers none.
func (g *gen) targeted(op *Op) *Op {
	_, nodes, _ := g.s.Nodes(nil, nil, "")
	if len(nodes) == 0 {
		return nil
	}
	n := nodes[g.r.Intn(len(nodes))].Node
	_, cs, _ := g.s.NodeChecks(nil, n, nil, "")
	svcs := nodeSvcs(g.s, n)
	sort.Slice(svcs, func(i, j int) bool { return svcs[i].ID < svcs[j].ID })
	var svcChecks []*structs.HealthCheck
	for _, c := range cs {
		if c.ServiceID != "" && c.Type != "session" {
			svcChecks = append(svcChecks, c)
		}
	}
	switch g.r.Intn(3) {
	case 0: // move a service-level check to another service (or to the node level)
		if len(svcChecks) == 0 {
			return nil
		}
		c := svcChecks[g.r.Intn(len(svcChecks))]
		to := ""
		for _, sv := range svcs {
			if sv.ID != c.ServiceID && g.r.Intn(2) == 0 {
				to = sv.ID
			}
		}
		op.Kind, op.Node = "check", n
		op.Checks = []CheckSpec{{ID: string(c.CheckID), Status: g.r.Intn(2), Svc: to, Output: g.r.Intn(2)}}
		return op
	case 1: // register a service id that has checks under another name
		if len(svcChecks) == 0 {
			return nil
		}
		c := svcChecks[g.r.Intn(len(svcChecks))]
		for _, sv := range svcs {
			if sv.ID == c.ServiceID && sv.Kind == "" {
				name := g.pick(uNames[:3])
				if name == sv.Service {
					return nil
				}
				op.Kind, op.Node = "svc", n
				op.Svc = &SvcSpec{ID: sv.ID, Name: name, Port: sv.Port, Tags: sv.Tags, Native: sv.Connect.Native}
				return op
			}
		}
	case 2: // delete (or move) a check whose stored name is stale
		for _, c := range svcChecks {
			for _, sv := range svcs {
				if sv.ID == c.ServiceID && sv.Service != c.ServiceName {
					if g.r.Intn(2) == 0 {
						op.Kind, op.Node, op.ChkID = "del_check", n, string(c.CheckID)
					} else {
						op.Kind, op.Node = "check", n
						op.Checks = []CheckSpec{{ID: string(c.CheckID), Status: 0, Svc: "", Output: g.r.Intn(2)}}
					}
					return op
				}
			}
		}
	}
	return nil
}

func (g *gen) fill(op *Op) *Op {
	if g.r.Intn(100) < 12 {
		if t := g.targeted(op); t != nil {
			return t
		}
	}
	x := g.r.Intn(100)
	if _, ns, _ := g.s.Nodes(nil, nil, ""); len(ns) == 0 && g.r.Intn(3) > 0 {
		x = 63 + g.r.Intn(8) // an empty catalog: register something first
	}
	switch {
	case x < 10:
		op.Kind, op.Key, op.Val, op.Flags = "kv_set", g.pick(uKeys), g.r.Intn(3), uint64(g.r.Intn(2))
	case x < 14:
		op.Kind, op.Key = "kv_del", g.pick(uKeys)
	case x < 17:
		op.Kind, op.Key = "kv_deltree", g.pick(uPrefix)
	case x < 20:
		op.Kind, op.Key, op.Val = "kv_cas", g.pick(uKeys), g.r.Intn(3)
		op.Cas = g.kvIndex(op.Key)
	case x < 22:
		op.Kind, op.Key = "kv_delcas", g.pick(uKeys)
		op.Cas = g.kvIndex(op.Key)
	case x < 26:
		op.Kind, op.Key, op.Val, op.Session = "kv_lock", g.pick(uKeys), g.r.Intn(3), g.sess()
	case x < 28:
		op.Kind, op.Key, op.Val, op.Session = "kv_unlock", g.pick(uKeys), g.r.Intn(3), g.sess()
	case x < 30:
		op.Kind = "reap"
		op.Upto = g.idx - uint64(g.r.Intn(6))
	case x < 36:
		op.Kind, op.Sid, op.Node, op.Delete = "sess_create", sessID(1+g.r.Intn(3)), g.node(), g.r.Intn(2) == 0
		if g.ext {
			op.Name = []string{"", "lock"}[g.r.Intn(2)]
		}
		if g.r.Intn(2) == 0 {
			op.SChk = []string{g.pick(uChecks[:2])}
		}
	case x < 39:
		op.Kind, op.Sid = "sess_destroy", g.sess()
	case x < 45:
		op.Kind, op.Node, op.Addr = "node", g.pick(uNodes), 1+g.r.Intn(2)
		if g.ext && g.r.Intn(2) == 0 {
			op.NodeID = fmt.Sprintf("aaaaaaaa-0000-0000-0000-00000000000%d", 1+g.r.Intn(2))
		}
	case x < 55:
		op.Kind, op.Node, op.Svc = "svc", g.node(), g.svcSpec()
	case x < 63:
		op.Kind, op.Node = "check", g.node()
		op.Checks = []CheckSpec{g.checkSpec(op.Node)}
	case x < 71:
		op.Kind, op.Node, op.Addr = "register", g.pick(uNodes), 1+g.r.Intn(2)
		if g.ext && g.r.Intn(3) == 0 {
			op.NodeID = fmt.Sprintf("aaaaaaaa-0000-0000-0000-00000000000%d", 1+g.r.Intn(2))
		}
		if g.r.Intn(3) > 0 {
			op.Svc = g.svcSpec()
		}
		for n := g.r.Intn(3); n > 0; n-- {
			c := g.checkSpec(op.Node)
			if c.Svc != "" && op.Svc != nil && g.r.Intn(2) == 0 {
				c.Svc = op.Svc.ID
			}
			op.Checks = append(op.Checks, c)
		}
	case x < 74:
		op.Kind, op.Node = "del_node", g.node()
	case x < 79:
		op.Kind, op.Node = "del_svc", g.node()
		op.SvcID = g.svcOn(op.Node)
	case x < 83:
		op.Kind, op.Node, op.ChkID = "del_check", g.node(), g.pick(uChecks)
	case x < 86:
		op.Kind, op.Node, op.Content = "coord", g.node(), g.r.Intn(3)
	case x < 90:
		c := uCfg[g.r.Intn(len(uCfg))]
		op.Kind, op.Tab, op.Name, op.Content = "cfg_set", c[0], c[1], g.r.Intn(3)
		if g.ext && g.r.Intn(2) == 0 {
			op.Tab, op.Name, op.Content = structs.ServiceIntentions, g.pick([]string{"web", "api", "*"}), g.r.Intn(6)
		}
	case x < 92:
		c := uCfg[g.r.Intn(len(uCfg))]
		op.Kind, op.Tab, op.Name = "cfg_del", c[0], c[1]
		if g.ext && g.r.Intn(2) == 0 {
			op.Tab, op.Name = structs.ServiceIntentions, g.pick([]string{"web", "api", "*"})
		}
	case x < 95:
		op.Kind, op.Sid, op.Content = "pq_set", pqID(1+g.r.Intn(2)), g.r.Intn(2)
		if g.r.Intn(2) == 0 {
			op.Session = g.sess()
		}
	case x < 96:
		op.Kind, op.Sid = "pq_del", pqID(1+g.r.Intn(2))
	case x < 98 || !g.ext:
		op.Kind = "ca_set"
		op.Roots = [][]int{{1}, {2, 1}, {1, 2}, {3}}[g.r.Intn(4)]
		i, _, _ := g.s.CARoots(nil)
		op.Cas = i
		if g.r.Intn(4) == 0 {
			op.Cas = i + 1
		}
	default:
		n := 1 + g.r.Intn(2)
		op.Sid, op.Name = peerID(n), fmt.Sprintf("p%d", n)
		switch g.r.Intn(4) {
		case 0:
			op.Kind = "peer_del"
		case 1:
			op.Kind, op.Delete = "peer_set", true
		default:
			op.Kind, op.Content = "peer_set", g.r.Intn(3)
		}
	}
	return op
}

func (g *gen) kvIndex(k string) uint64 {
	_, e, _ := g.s.KVSGet(nil, k, nil)
	switch g.r.Intn(4) {
	case 0:
		return 0
	case 1:
		return g.idx - 1
	}
	if e != nil {
		return e.ModifyIndex
	}
	return 0
}

// ---------------------------------------------------------------- one history

type Delta struct {
	Q    int   `json:"q"`
	Idx  uint64 `json:"i"`
	Rows []Row `json:"r"`
}

type Step struct {
	Chg   []Delta `json:"chg"`
	Fired []int   `json:"fired"`
}

type Viol struct {
	Step int    `json:"step"`
	Q    int    `json:"q"`
	Kind string `json:"kind"` // missed-index | missed-wake | index-decreased | query-error
	I0   uint64 `json:"i0"`
	I1   uint64 `json:"i1"`
	Sit  string `json:"sit"` // situation classification of the write
}

type History struct {
	ID     int      `json:"id"`
	Stream string   `json:"stream"`
	Ops    []*Op    `json:"ops"`
	Errs   []string `json:"errs"`
	Obs0   []Delta  `json:"obs0"`
	Steps  []Step   `json:"steps"`
	Sits   []SitInfo `json:"sits"`
	Viol   []Viol   `json:"viol"`
	Oracle string   `json:"oracle"`
	// statistics
	Evals      int `json:"evals"`
	Changed    int `json:"changed"`
	FiredTot   int `json:"fired_tot"`
	Spurious   int `json:"spurious"`   // fired but result unchanged
	RawZero    int `json:"raw_zero"`   // raw index 0 before the floor
	IdxOnly    int `json:"idx_only"`   // index grew, result unchanged
}

func floor1(i uint64) uint64 {
	if i < 1 {
		return 1
	}
	return i
}

func pollWS(ws memdb.WatchSet) bool {
	for ch := range ws {
		select {
		case <-ch:
			return true
		default:
		}
	}
	return false
}

// situation: a structured description of what the write did, used for finding signatures
func connectName(ns *structs.NodeService) string {
	switch {
	case ns.Kind == structs.ServiceKindConnectProxy:
		return "proxy:" + ns.Proxy.DestinationServiceName
	case ns.Connect.Native:
		return "native:" + ns.Service
	}
	return ""
}

// sharedName: some instance of the same service name elsewhere in the catalog has another Connect
// destination than this one (proxies registered under one name for different destinations)
func sharedName(s *state.Store, node string, ns *structs.NodeService) bool {
	if connectName(ns) == "" {
		return false
	}
	_, sns, _ := s.ServiceNodes(nil, ns.Service, nil, "")
	for _, sn := range sns {
		if sn.Node == node && sn.ServiceID == ns.ID {
			continue
		}
		if connectName(sn.ToNodeService()) != connectName(ns) {
			return true
		}
	}
	return false
}

// SitInfo: a structured description of what the write does, computed on the real store BEFORE the
// write; finding signatures are keyed on it (which service names / destinations are related to
// the anomaly), so that a failure on an unrelated name in the same step is not absorbed.
type StaleRef struct {
	Stale   string `json:"stale"`   // the ServiceName the check still carries
	Current string `json:"current"` // the name its service is registered under now
	Dest    string `json:"dest"`    // connect destination of that service ("" if none)
}

type SitInfo struct {
	Kind      string     `json:"kind"`
	RenOld    string     `json:"ren_old,omitempty"` // service id registered again under another name
	RenNew    string     `json:"ren_new,omitempty"`
	MovedFrom []string   `json:"moved_from,omitempty"` // names (and destinations) of services an existing check leaves
	MovedStale []string  `json:"moved_stale,omitempty"` // ... when the check row carries a STALE name: current name (and destination) of the service it leaves
	Stale     []StaleRef `json:"stale,omitempty"`      // stale-named checks the write touches
	ConnRem   []string   `json:"conn_rem,omitempty"`   // destinations that lose a connect instance
	ConnAdd   []string   `json:"conn_add,omitempty"`   // ... gain one
	ConnTouch []string   `json:"conn_touch,omitempty"` // ... keep one whose row or node changes
}

func connDest(ns *structs.NodeService) string {
	switch {
	case ns == nil:
		return ""
	case ns.Kind == structs.ServiceKindConnectProxy:
		return ns.Proxy.DestinationServiceName
	case ns.Connect.Native:
		return ns.Service
	}
	return ""
}

func nodeSvcs(s *state.Store, node string) []*structs.NodeService {
	var out []*structs.NodeService
	if _, nss, _ := s.NodeServices(nil, node, nil, ""); nss != nil {
		for _, ns := range nss.Services {
			out = append(out, ns)
		}
	}
	return out
}

func staleRefs(s *state.Store, node string, keep func(*structs.HealthCheck) bool) []StaleRef {
	var out []StaleRef
	_, cs, _ := s.NodeChecks(nil, node, nil, "")
	for _, c := range cs {
		if c.ServiceID == "" || !keep(c) {
			continue
		}
		_, ns, _ := s.NodeService(nil, node, c.ServiceID, nil, "")
		if ns != nil && ns.Service != c.ServiceName {
			out = append(out, StaleRef{Stale: c.ServiceName, Current: ns.Service, Dest: connDest(ns)})
		}
	}
	return out
}

func (si *SitInfo) svcWrite(s *state.Store, node string, sp *SvcSpec) {
	_, ns, _ := s.NodeService(nil, node, sp.ID, nil, "")
	nw := mkService(sp)
	kind := "typical"
	if sp.Kind != "" {
		kind = sp.Kind
	} else if sp.Native {
		kind = "connect-native"
	}
	od, nd := connDest(ns), connDest(nw)
	switch {
	case ns == nil:
		si.Kind = "service-new:" + kind
	case ns.Service != sp.Name:
		si.Kind, si.RenOld, si.RenNew = "service-id-renamed", ns.Service, sp.Name
	case connectName(ns) != connectName(nw):
		si.Kind = "service-connect-changed"
	default:
		si.Kind = "service-update:" + kind
	}
	if od != nd {
		if od != "" {
			si.ConnRem = append(si.ConnRem, od)
		}
		if nd != "" {
			si.ConnAdd = append(si.ConnAdd, nd)
		}
	} else if nd != "" {
		si.ConnTouch = append(si.ConnTouch, nd)
	}
}

func (si *SitInfo) checkWrite(s *state.Store, node string, c CheckSpec) {
	_, hc, _ := s.NodeCheck(node, types.CheckID(c.ID), nil, "")
	if hc == nil {
		return
	}
	if hc.ServiceID != c.Svc {
		if si.RenOld == "" {
			si.Kind = "check-service-changed"
		}
		if hc.ServiceID == "" {
			for _, ns := range nodeSvcs(s, node) {
				si.MovedFrom = append(si.MovedFrom, ns.Service, connDest(ns))
			}
		} else {
			_, ns, _ := s.NodeService(nil, node, hc.ServiceID, nil, "")
			si.MovedFrom = append(si.MovedFrom, hc.ServiceName)
			if ns != nil {
				si.MovedFrom = append(si.MovedFrom, ns.Service, connDest(ns))
				if ns.Service != hc.ServiceName {
					si.MovedStale = append(si.MovedStale, ns.Service, connDest(ns))
				}
			}
		}
	}
	st := staleRefs(s, node, func(x *structs.HealthCheck) bool { return string(x.CheckID) == c.ID })
	if len(st) > 0 && si.RenOld == "" && si.Kind != "check-service-changed" {
		si.Kind = "check-stale-service-name"
	}
	si.Stale = append(si.Stale, st...)
}

func (si *SitInfo) nodeTouched(s *state.Store, node string, removed bool) {
	for _, ns := range nodeSvcs(s, node) {
		if d := connDest(ns); d != "" {
			if removed {
				si.ConnRem = append(si.ConnRem, d)
			} else {
				si.ConnTouch = append(si.ConnTouch, d)
			}
		}
	}
}

func situation(s *state.Store, op *Op) SitInfo {
	si := SitInfo{Kind: op.Kind}
	si.add(s, op)
	if op.Kind == "txn" {
		// approximation: every verb is described against the state before the transaction
		for _, o := range op.Sub {
			sub := SitInfo{Kind: o.Kind}
			sub.add(s, o)
			if si.RenOld == "" {
				si.RenOld, si.RenNew = sub.RenOld, sub.RenNew
			}
			si.MovedFrom = append(si.MovedFrom, sub.MovedFrom...)
			si.MovedStale = append(si.MovedStale, sub.MovedStale...)
			si.Stale = append(si.Stale, sub.Stale...)
			si.ConnRem = append(si.ConnRem, sub.ConnRem...)
			si.ConnAdd = append(si.ConnAdd, sub.ConnAdd...)
			si.ConnTouch = append(si.ConnTouch, sub.ConnTouch...)
			if sub.Kind != o.Kind && si.Kind == "txn" {
				si.Kind = "txn:" + sub.Kind
			}
		}
	}
	return si
}

func (si *SitInfo) add(s *state.Store, op *Op) {
	// a node registered under the ID of a node with another name: ensureNodeTxn deletes that node
	// first (rename by ID), with all its services and checks
	if (op.Kind == "register" || op.Kind == "node") && op.NodeID != "" {
		if _, other, _ := s.GetNodeID(types.NodeID(op.NodeID), nil, ""); other != nil && !strings.EqualFold(other.Node, op.Node) {
			si.nodeTouched(s, other.Node, true)
			si.Stale = append(si.Stale, staleRefs(s, other.Node, func(*structs.HealthCheck) bool { return true })...)
		}
	}
	switch op.Kind {
	case "svc":
		si.svcWrite(s, op.Node, op.Svc)
	case "register":
		if _, n, _ := s.GetNode(op.Node, nil, ""); n != nil && (n.Address != addr(op.Addr) || string(n.ID) != op.NodeID) {
			si.nodeTouched(s, op.Node, false)
		}
		if op.Svc != nil {
			si.svcWrite(s, op.Node, op.Svc)
		}
		for _, c := range op.Checks {
			si.checkWrite(s, op.Node, c)
		}
	case "node":
		si.nodeTouched(s, op.Node, false)
	case "check":
		for _, c := range op.Checks {
			si.checkWrite(s, op.Node, c)
		}
	case "del_check":
		si.Stale = staleRefs(s, op.Node, func(x *structs.HealthCheck) bool { return string(x.CheckID) == op.ChkID })
		if len(si.Stale) > 0 {
			si.Kind = "check-stale-service-name"
		}
	case "del_svc":
		_, ns, _ := s.NodeService(nil, op.Node, op.SvcID, nil, "")
		if ns != nil {
			si.Stale = staleRefs(s, op.Node, func(x *structs.HealthCheck) bool { return x.ServiceID == op.SvcID })
			if d := connDest(ns); d != "" {
				si.ConnRem = append(si.ConnRem, d)
			}
			switch {
			case len(si.Stale) > 0:
				si.Kind = "check-stale-service-name"
			case sharedName(s, op.Node, ns):
				si.Kind = "del-connect-shared-name"
			case connectName(ns) != "":
				si.Kind = "del-connect-service"
			}
		}
	case "del_node":
		si.Stale = staleRefs(s, op.Node, func(*structs.HealthCheck) bool { return true })
		si.nodeTouched(s, op.Node, true)
		if len(si.Stale) > 0 {
			si.Kind = "check-stale-service-name"
		} else {
			for _, ns := range nodeSvcs(s, op.Node) {
				if sharedName(s, op.Node, ns) {
					si.Kind = "del-connect-shared-name"
				}
			}
		}
	}
}

func runHistory(id int, seed int64, ext bool, nsteps int, given []*Op) *History {
	s := state.NewStateStore(nil)
	qs := queryList(ext)
	h := &History{ID: id, Stream: map[bool]string{false: "model", true: "ext"}[ext]}
	g := &gen{r: rand.New(rand.NewSource(seed)), ext: ext, idx: 1, s: s}
	if ext {
		// intentions live in config entries (as on every cluster created since 1.9)
		s.SystemMetadataSet(1, &structs.SystemMetadataEntry{Key: structs.SystemMetadataIntentionFormatKey, Value: structs.SystemMetadataIntentionFormatConfigValue})
	}
	if given != nil {
		nsteps = len(given)
	}

	eval := func() ([]Obs, []memdb.WatchSet) {
		obs := make([]Obs, len(qs))
		wss := make([]memdb.WatchSet, len(qs))
		for i, q := range qs {
			ws := memdb.NewWatchSet()
			ws.Add(s.AbandonCh()) // as blockingquery.Query does
			idx, rows, err := runQuery(s, q, ws)
			if err != nil {
				rows = []Row{{K: []string{"ERROR"}, V: []interface{}{err.Error()}}}
			}
			rows, c := canonRows(rows)
			obs[i] = Obs{Idx: idx, Rows: rows, canon: c}
			wss[i] = ws
			h.Evals++
			if idx == 0 {
				h.RawZero++
			}
		}
		return obs, wss
	}

	prev, wss := eval()
	for i, o := range prev {
		if o.Idx != 0 || len(o.Rows) != 0 {
			h.Obs0 = append(h.Obs0, Delta{Q: i, Idx: o.Idx, Rows: o.Rows})
		}
	}
	hw := make([]uint64, len(qs)) // per query: the highest index reported so far (since the last restore)
	for step := 0; step < nsteps; step++ {
		var op *Op
		if given != nil {
			op = given[step]
		} else {
			op = g.next()
		}
		for i := range qs {
			if f := floor1(prev[i].Idx); f > hw[i] {
				hw[i] = f
			}
		}
		si := situation(s, op)
		sit := si.Kind
		h.Sits = append(h.Sits, si)
		if op.Kind == "restore" {
			// a snapshot restore as the FSM does it: a NEW store with the same content takes over and the
			// old one is abandoned.  The content is rebuilt by replaying the successful writes (the real
			// snapshot codec is C02's subject); what is checked here is the hand-over: every watch set of
			// the old store wakes, and no query reports index 0 on the new one.
			ns := state.NewStateStore(nil)
			if ext {
				ns.SystemMetadataSet(1, &structs.SystemMetadataEntry{Key: structs.SystemMetadataIntentionFormatKey, Value: structs.SystemMetadataIntentionFormatConfigValue})
			}
			for k, o := range h.Ops {
				if o.Kind != "restore" && h.Errs[k] == "" {
					apply(ns, o)
				}
			}
			old := s
			s, g.s = ns, ns
			old.Abandon()
			h.Ops = append(h.Ops, op)
			h.Errs = append(h.Errs, "")
			cur, nws := eval()
			st := Step{Chg: []Delta{}, Fired: []int{}}
			for i := range qs {
				if pollWS(wss[i]) {
					st.Fired = append(st.Fired, i)
				} else {
					h.Viol = append(h.Viol, Viol{step, i, "missed-wake", prev[i].Idx, cur[i].Idx, "restore"})
				}
				if cur[i].canon != prev[i].canon || cur[i].Idx != prev[i].Idx {
					st.Chg = append(st.Chg, Delta{Q: i, Idx: cur[i].Idx, Rows: cur[i].Rows})
				}
				hw[i] = 0 // the exemption of the contract: after a restore the index may start lower
			}
			h.Steps = append(h.Steps, st)
			prev, wss = cur, nws
			continue
		}
		errs := apply(s, op)
		h.Ops = append(h.Ops, op)
		h.Errs = append(h.Errs, errs)
		cur, nws := eval()
		st := Step{Chg: []Delta{}, Fired: []int{}}
		for i := range qs {
			fired := pollWS(wss[i])
			changed := cur[i].canon != prev[i].canon
			if fired {
				st.Fired = append(st.Fired, i)
				h.FiredTot++
				if !changed {
					h.Spurious++
				}
			}
			if changed || cur[i].Idx != prev[i].Idx {
				st.Chg = append(st.Chg, Delta{Q: i, Idx: cur[i].Idx, Rows: cur[i].Rows})
			}
			f0, f1 := floor1(prev[i].Idx), floor1(cur[i].Idx)
			if changed {
				h.Changed++
				if !(f1 > f0) {
					h.Viol = append(h.Viol, Viol{step, i, "missed-index", prev[i].Idx, cur[i].Idx, sit})
				} else if !(f1 > hw[i]) {
					// above the previous state's index but not above one handed out earlier (before a reap)
					h.Viol = append(h.Viol, Viol{step, i, "missed-highwater", hw[i], cur[i].Idx, sit})
				}
				if !fired {
					h.Viol = append(h.Viol, Viol{step, i, "missed-wake", prev[i].Idx, cur[i].Idx, sit})
				}
			} else if f1 > f0 {
				h.IdxOnly++
			}
			if f1 < f0 && op.Kind != "reap" {
				h.Viol = append(h.Viol, Viol{step, i, "index-decreased", prev[i].Idx, cur[i].Idx, sit})
			}
			if len(cur[i].Rows) == 1 && len(cur[i].Rows[0].K) == 1 && cur[i].Rows[0].K[0] == "ERROR" {
				h.Viol = append(h.Viol, Viol{step, i, "query-error", prev[i].Idx, cur[i].Idx, sit})
			}
		}
		h.Steps = append(h.Steps, st)
		prev, wss = cur, nws
	}
	if len(h.Viol) > 0 {
		v := h.Viol[0]
		h.Oracle = fmt.Sprintf("%s:%s:%s", v.Kind, qs[v.Q].K, v.Sit)
	}
	return h
}

// ---------------------------------------------------------------- the blocking loop (blockingquery.Query)

type fakeServer struct {
	s       *state.Store
	timeout time.Duration
	shut    chan struct{}
}

func (f *fakeServer) ConsistentRead() error                  { return nil }
func (f *fakeServer) DecrementBlockingQueries() uint64        { return 0 }
func (f *fakeServer) IncrementBlockingQueries() uint64        { return 1 }
func (f *fakeServer) GetShutdownChannel() chan struct{}       { return f.shut }
func (f *fakeServer) GetState() *state.Store                  { return f.s }
func (f *fakeServer) RPCQueryTimeout(time.Duration) time.Duration { return f.timeout }

// The floor of Server.SetQueryMeta (agent/consul/rpc.go); the Server method itself needs a running
// server, so the two lines are restated here (listed in the trusted base).
func (f *fakeServer) SetQueryMeta(m blockingquery.ResponseMeta, _ string) {
	if m.GetIndex() < 1 {
		m.SetIndex(1)
	}
}

type LoopCall struct {
	Idx uint64 `json:"idx"`
	Err int    `json:"err"` // 0 nil 1 not-found 2 not-changed
}

type LoopCase struct {
	ID     int        `json:"id"`
	Min    uint64     `json:"min"`
	Script []string   `json:"script"` // what happens while the query blocks after call k: change | touch | none | abandon
	Calls  []LoopCall `json:"calls"`
	Final  uint64     `json:"final"`
	Timed  bool       `json:"timed_out"`
	Mode   string     `json:"mode"` // plain | notfound | notchanged
	Oracle string     `json:"oracle"`
	Wakes  []string   `json:"wakes"` // effective outcome of script[k]: fired | none | abandon
	Kind   int        `json:"kind"` // how it returned: 0 index advanced 1 timeout 2 abandoned 3 non-blocking
}

// runLoop drives the real blockingquery.Query on a KV key with a scripted environment.
func runLoop(id int, r *rand.Rand) *LoopCase {
	s := state.NewStateStore(nil)
	idx := uint64(10)
	s.KVSSet(idx, &structs.DirEntry{Key: "other", Value: []byte{1}})
	lc := &LoopCase{ID: id, Mode: []string{"plain", "notfound", "notchanged"}[r.Intn(3)]}
	if lc.Mode != "notfound" || r.Intn(2) == 0 {
		idx++
		s.KVSSet(idx, &structs.DirEntry{Key: "k", Value: []byte{1}})
	}
	switch r.Intn(4) {
	case 0:
		lc.Min = 0
	case 1:
		lc.Min = idx - 1
	case 2:
		lc.Min = idx
	default:
		lc.Min = idx + 2
	}
	n := r.Intn(4)
	for i := 0; i < n; i++ {
		lc.Script = append(lc.Script, []string{"change", "touch", "touch", "none", "abandon", "delete"}[r.Intn(6)])
	}
	fs := &fakeServer{s: s, timeout: 150 * time.Millisecond, shut: make(chan struct{})}
	opts := &structs.QueryOptions{MinQueryIndex: lc.Min}
	var meta structs.QueryMeta
	var lastVal []byte
	have := false
	stepCh := make(chan int, 16)
	fn := func(ws memdb.WatchSet, st *state.Store) error {
		i, e, err := st.KVSGet(ws, "k", nil)
		if err != nil {
			return err
		}
		call := LoopCall{}
		var ret error
		if e == nil {
			meta.Index = i
			if lc.Mode == "notfound" {
				call.Err, ret = 1, blockingquery.ErrNotFound
			}
		} else {
			meta.Index = e.ModifyIndex
			if lc.Mode == "notchanged" && have && string(lastVal) == string(e.Value) {
				call.Err, ret = 2, blockingquery.ErrNotChanged
			}
			lastVal, have = e.Value, true
		}
		call.Idx = meta.Index
		lc.Calls = append(lc.Calls, call)
		stepCh <- len(lc.Calls)
		return ret
	}
	done := make(chan struct{})
	t0 := time.Now()
	go func() {
		blockingquery.Query(fs, opts, &meta, fn)
		close(done)
	}()
	// environment: after call k returned and the loop blocks, perform script[k-1]
	envDone := make(chan struct{})
	go func() {
		defer close(envDone)
		for k := range stepCh {
			if k-1 >= len(lc.Script) {
				continue
			}
			time.Sleep(5 * time.Millisecond)
			select {
			case <-done:
				return
			default:
			}
			idx++
			if a := lc.Script[k-1]; a == "none" || a == "abandon" {
				lc.Wakes = append(lc.Wakes, a)
			} else if a != "delete" {
				lc.Wakes = append(lc.Wakes, "fired")
			}
			switch lc.Script[k-1] {
			case "change":
				s.KVSSet(idx, &structs.DirEntry{Key: "k", Value: []byte{byte(idx)}})
			case "touch": // fires the watch (lock index bump through flags change is a change; use same-value rewrite of a sibling below the same radix node)
				s.KVSSet(idx, &structs.DirEntry{Key: "k", Value: lastValOr(lastVal), Flags: idx})
			case "delete":
				if _, e, _ := s.KVSGet(nil, "k", nil); e == nil {
					lc.Wakes = append(lc.Wakes, "none")
					continue
				}
				s.KVSDelete(idx, "k", nil)
				lc.Wakes = append(lc.Wakes, "fired")
			case "abandon":
				func() {
					defer func() { recover() }()
					s.Abandon()
				}()
			}
		}
	}()
	<-done
	el := time.Since(t0)
	close(stepCh)
	<-envDone
	lc.Final = meta.Index
	lc.Timed = el >= fs.timeout-time.Millisecond
	// direct oracle: returned => index > min, or timeout, or abandoned; and never index 0
	abandoned := false
	select {
	case <-s.AbandonCh():
		abandoned = true
	default:
	}
	switch {
	case lc.Min == 0:
		lc.Kind = 3
	case lc.Timed:
		lc.Kind = 1
	case abandoned:
		lc.Kind = 2
	}
	if lc.Final == 0 {
		lc.Oracle = "zero-index"
	} else if lc.Min != 0 && !(lc.Final > lc.Min) && !lc.Timed && !abandoned {
		// the effective minimum may have been replaced by the index of an earlier round that
		// answered not-found / not-changed twice (blockingquery.go: minQueryIndex = GetIndex())
		ok := false
		for j := 0; j+1 < len(lc.Calls); j++ {
			if lc.Calls[j].Err != 0 && lc.Final > floor1(lc.Calls[j].Idx) {
				ok = true
			}
		}
		if !ok {
			lc.Oracle = "returned-early"
		}
	}
	return lc
}

func lastValOr(v []byte) []byte {
	if v == nil {
		return []byte{1}
	}
	return v
}

// ---------------------------------------------------------------- main

func main() {
	seed := flag.Int64("seed", 1, "seed")
	tier := flag.String("tier", "quick", "quick|thorough")
	out := flag.String("out", "", "output file (JSON lines)")
	replay := flag.String("replay", "", "replay file: {\"stream\":..,\"ops\":[..]}")
	nmodel := flag.Int("model", -1, "number of model-stream histories")
	next := flag.Int("ext", -1, "number of ext-stream histories")
	nep := flag.Int("ep", -1, "number of endpoint-tier histories")
	flag.Parse()
	_ = context.Background
	_ = errors.New
	_ = acl.EnterpriseMeta{}

	if *replay != "" {
		b, err := os.ReadFile(*replay)
		if err != nil {
			panic(err)
		}
		var rp struct {
			Stream string `json:"stream"`
			Ops    []*Op  `json:"ops"`
		}
		if err := json.Unmarshal(b, &rp); err != nil {
			panic(err)
		}
		var h *History
		qs := queryList(rp.Stream == "ext")
		if rp.Stream == "ep" {
			h, qs = runEPHistory(0, 0, 0, rp.Ops), epQueries()
		} else {
			h = runHistory(0, 0, rp.Stream == "ext", 0, rp.Ops)
		}
		for _, v := range h.Viol {
			fmt.Printf("step %d (%s idx %d): query %v: %s (index %d -> %d) situation=%s\n", v.Step, h.Ops[v.Step].Kind, h.Ops[v.Step].Idx, qs[v.Q], v.Kind, v.I0, v.I1, v.Sit)
		}
		if len(h.Viol) == 0 {
			fmt.Println("no contract violation on this history")
		}
		if *out != "" {
			f, _ := os.Create(*out)
			w := bufio.NewWriter(f)
			hb, _ := json.Marshal(map[string]interface{}{"queries": queryList(false), "ext_queries": queryList(true), "ep_queries": epQueries()})
			w.Write(hb)
			w.WriteString("\n")
			jb, _ := json.Marshal(h)
			w.Write(jb)
			w.WriteString("\n")
			w.Flush()
			f.Close()
		}
		return
	}

	nm, ne, nl, steps, np := 150, 60, 40, 25, 18
	if *tier == "thorough" {
		nm, ne, nl, steps, np = 1500, 600, 150, 30, 120
	}
	if *nep >= 0 {
		np = *nep
	}
	if *nmodel >= 0 {
		nm = *nmodel
	}
	if *next >= 0 {
		ne = *next
	}
	type job struct {
		id  int
		ext bool
		ep  bool
	}
	jobs := make(chan job, nm+ne+np)
	for i := 0; i < nm; i++ {
		jobs <- job{i, false, false}
	}
	for i := 0; i < ne; i++ {
		jobs <- job{nm + i, true, false}
	}
	for i := 0; i < np; i++ {
		jobs <- job{nm + ne + i, false, true}
	}
	close(jobs)
	res := make([]*History, nm+ne+np)
	var wg sync.WaitGroup
	for w := 0; w < 6; w++ {
		wg.Add(1)
		go func() {
			defer wg.Done()
			for j := range jobs {
				n := 5 + int((*seed*7919+int64(j.id)*104729)%int64(steps-4))
				if j.ep {
					if n > 20 {
						n = 20
					}
					res[j.id] = runEPHistory(j.id, *seed*1000003+int64(j.id), n, nil)
				} else {
					res[j.id] = runHistory(j.id, *seed*1000003+int64(j.id), j.ext, n, nil)
				}
			}
		}()
	}
	wg.Wait()

	f := os.Stdout
	if *out != "" {
		var err error
		f, err = os.Create(*out)
		if err != nil {
			panic(err)
		}
		defer f.Close()
	}
	w := bufio.NewWriterSize(f, 1<<20)
	hb, _ := json.Marshal(map[string]interface{}{"queries": queryList(false), "ext_queries": queryList(true), "ep_queries": epQueries()})
	w.Write(hb)
	w.WriteString("\n")
	for _, h := range res {
		b, err := json.Marshal(h)
		if err != nil {
			panic(err)
		}
		w.Write(b)
		w.WriteString("\n")
	}
	// the loop cases (sequential: they are timing based)
	lr := rand.New(rand.NewSource(*seed*31 + 7))
	var lwg sync.WaitGroup
	loops := make([]*LoopCase, nl)
	sem := make(chan struct{}, 4)
	for i := 0; i < nl; i++ {
		r := rand.New(rand.NewSource(lr.Int63()))
		lwg.Add(1)
		sem <- struct{}{}
		go func(i int) {
			defer lwg.Done()
			loops[i] = runLoop(i, r)
			<-sem
		}(i)
	}
	lwg.Wait()
	for _, lc := range loops {
		b, _ := json.Marshal(map[string]interface{}{"loop": lc})
		w.Write(b)
		w.WriteString("\n")
	}
	w.Flush()
}
