// Endpoint tier of the C06 harness: the REAL read endpoints (KVS.Get/List/ListKeys,
// Health.ServiceNodes plain/tag/connect, Catalog.ServiceNodes, Catalog.NodeServices, Session.Get)
// of a Server reduced by hooks/agent/consul/zz_verif_c06.go, running through the real
// blockingquery.Query and the real Server.SetQueryMeta.  Before every generated write every
// endpoint query is BLOCKED at the index its last reply carried; the write is applied; a query
// whose (non-blocking) reply differs afterwards must have come back with an index above the one it
// was blocked on and with the new result; the others are released through the shutdown channel.
package main

import (
	"encoding/json"
	"fmt"
	"math/rand"
	"sort"
	"time"

	"github.com/hashicorp/consul/agent/consul"
	"github.com/hashicorp/consul/agent/structs"
)

type epReply struct {
	Idx   uint64
	Canon string
	Err   string
}

func epQueries() []Q {
	return []Q{
		{K: "ep:kv_get_ep", A: "a/b"}, {K: "ep:kv_get_ep", A: "a"}, {K: "ep:kv_get_ep", A: "b"},
		{K: "ep:kv_list", A: ""}, {K: "ep:kv_list", A: "a/"}, {K: "ep:kv_list", A: "a/b"},
		{K: "ep:kv_keys", A: "a/", B: "/"}, {K: "ep:kv_keys", A: "", B: "/"},
		{K: "ep:csn", A: "web"}, {K: "ep:csn", A: "api"}, {K: "ep:csn", A: "db"},
		{K: "ep:csn_tag", A: "web", B: "a"}, {K: "ep:csn_tag", A: "api", B: "b"},
		{K: "ep:csn_connect", A: "web"}, {K: "ep:csn_connect", A: "api"},
		{K: "ep:svc_nodes", A: "web"}, {K: "ep:svc_nodes", A: "api"},
		{K: "ep:svc_tag_nodes", A: "web", B: "a"},
		{K: "ep:node_services", A: "n1"}, {K: "ep:node_services", A: "n2"},
		{K: "ep:sess_get", A: sessID(1)},
	}
}

func canonOf(rows []Row) string {
	_, c := canonRows(rows)
	return c
}

func epCall(v *consul.VerifC06, q Q, min uint64, maxTime time.Duration) (r epReply) {
	defer func() {
		if p := recover(); p != nil {
			r.Err = fmt.Sprintf("panic: %v", p)
		}
	}()
	opts := structs.QueryOptions{MinQueryIndex: min, MaxQueryTime: maxTime}
	e := func(err error) {
		if err != nil {
			r.Err = err.Error()
		}
	}
	switch q.K {
	case "ep:kv_get_ep", "ep:kv_list":
		var reply structs.IndexedDirEntries
		args := &structs.KeyRequest{Datacenter: "dc1", Key: q.A, QueryOptions: opts}
		if q.K == "ep:kv_list" {
			e(v.KVS.List(args, &reply))
		} else {
			e(v.KVS.Get(args, &reply))
		}
		var rows []Row
		for _, d := range reply.Entries {
			rows = append(rows, kvRow(d))
		}
		r.Idx, r.Canon = reply.Index, canonOf(rows)
	case "ep:kv_keys":
		var reply structs.IndexedKeyList
		e(v.KVS.ListKeys(&structs.KeyListRequest{Datacenter: "dc1", Prefix: q.A, Seperator: q.B, QueryOptions: opts}, &reply))
		keys := append([]string(nil), reply.Keys...)
		sort.Strings(keys)
		b, _ := json.Marshal(keys)
		r.Idx, r.Canon = reply.Index, string(b)
	case "ep:csn", "ep:csn_tag", "ep:csn_connect":
		var reply structs.IndexedCheckServiceNodes
		args := &structs.ServiceSpecificRequest{Datacenter: "dc1", ServiceName: q.A, QueryOptions: opts}
		if q.K == "ep:csn_tag" {
			args.TagFilter, args.ServiceTags = true, []string{q.B}
		}
		args.Connect = q.K == "ep:csn_connect"
		e(v.Health.ServiceNodes(args, &reply))
		r.Idx, r.Canon = reply.Index, canonOf(csnRows(reply.Nodes))
	case "ep:svc_nodes", "ep:svc_tag_nodes":
		var reply structs.IndexedServiceNodes
		args := &structs.ServiceSpecificRequest{Datacenter: "dc1", ServiceName: q.A, QueryOptions: opts}
		if q.K == "ep:svc_tag_nodes" {
			args.TagFilter, args.ServiceTags = true, []string{q.B}
		}
		e(v.Catalog.ServiceNodes(args, &reply))
		var rows []Row
		for _, sn := range reply.ServiceNodes {
			rows = append(rows, snRow(sn))
		}
		r.Idx, r.Canon = reply.Index, canonOf(rows)
	case "ep:node_services":
		var reply structs.IndexedNodeServices
		e(v.Catalog.NodeServices(&structs.NodeSpecificRequest{Datacenter: "dc1", Node: q.A, QueryOptions: opts}, &reply))
		var rows []Row
		if ns := reply.NodeServices; ns != nil && ns.Node != nil {
			rows = append(rows, Row{K: []string{"node"}, V: nodeVals(ns.Node)})
			for _, sv := range ns.Services {
				rows = append(rows, Row{K: []string{"svc", sv.ID}, V: nsVals(sv)})
			}
		}
		r.Idx, r.Canon = reply.Index, canonOf(rows)
	case "ep:sess_get":
		var reply structs.IndexedSessions
		e(v.Session.Get(&structs.SessionSpecificRequest{Datacenter: "dc1", SessionID: q.A, QueryOptions: opts}, &reply))
		var rows []Row
		for _, x := range reply.Sessions {
			rows = append(rows, sessRow(x))
		}
		r.Idx, r.Canon = reply.Index, canonOf(rows)
	default:
		r.Err = "unknown endpoint query " + q.K
	}
	return r
}

// runEPHistory: one generated history against the reduced server.
func runEPHistory(id int, seed int64, nsteps int, given []*Op) *History {
	h := &History{ID: id, Stream: "ep"}
	v, err := consul.VerifC06NewServer()
	if err != nil {
		h.Oracle = "ep-server:" + err.Error()
		h.Viol = append(h.Viol, Viol{Step: 0, Q: 0, Kind: "ep-server-failed", Sit: err.Error()})
		return h
	}
	defer v.Close()
	s := v.Store()
	qs := epQueries()
	g := &gen{r: rand.New(rand.NewSource(seed)), idx: 1, s: s}
	if given != nil {
		nsteps = len(given)
	}
	const maxTime = 1500 * time.Millisecond
	hw := make([]uint64, len(qs))
	obs := func() []epReply {
		out := make([]epReply, len(qs))
		for i, q := range qs {
			out[i] = epCall(v, q, 0, 0)
			h.Evals++
		}
		return out
	}
	before := obs()
	for step := 0; step < nsteps; step++ {
		var op *Op
		if given != nil {
			op = given[step]
		} else {
			op = g.next()
		}
		si := situation(s, op)
		for i := range qs {
			if before[i].Idx > hw[i] {
				hw[i] = before[i].Idx
			}
		}
		// block every query at the index of its last reply
		res := make([]chan epReply, len(qs))
		for i, q := range qs {
			res[i] = make(chan epReply, 1)
			go func(i int, q Q) { res[i] <- epCall(v, q, before[i].Idx, maxTime) }(i, q)
		}
		deadline := time.Now().Add(2 * time.Second)
		for v.Blocking() < uint64(len(qs)) && time.Now().Before(deadline) {
			time.Sleep(200 * time.Microsecond)
		}
		time.Sleep(time.Millisecond)
		errs := apply(s, op)
		h.Ops = append(h.Ops, op)
		h.Errs = append(h.Errs, errs)
		h.Sits = append(h.Sits, si)
		after := obs()
		got := make([]*epReply, len(qs))
		for i := range qs {
			if after[i].Canon == before[i].Canon {
				continue
			}
			// the reply changed: the blocked call must come back by itself, above its minimum, with the new reply
			select {
			case r := <-res[i]:
				got[i] = &r
			case <-time.After(maxTime + 2*time.Second):
			}
		}
		v.Release()
		for i := range qs {
			if got[i] == nil {
				select {
				case r := <-res[i]:
					got[i] = &r
				case <-time.After(5 * time.Second):
					h.Viol = append(h.Viol, Viol{step, i, "ep-never-returned", before[i].Idx, after[i].Idx, si.Kind})
				}
			}
		}
		for i := range qs {
			changed := after[i].Canon != before[i].Canon
			if after[i].Err != "" || (got[i] != nil && got[i].Err != "") {
				h.Viol = append(h.Viol, Viol{step, i, "query-error", before[i].Idx, after[i].Idx, si.Kind})
				continue
			}
			if after[i].Idx == 0 || (got[i] != nil && got[i].Idx == 0) {
				h.Viol = append(h.Viol, Viol{step, i, "zero-index", before[i].Idx, after[i].Idx, si.Kind})
			}
			if changed {
				h.Changed++
				if !(after[i].Idx > before[i].Idx) {
					h.Viol = append(h.Viol, Viol{step, i, "missed-index", before[i].Idx, after[i].Idx, si.Kind})
				} else if !(after[i].Idx > hw[i]) {
					h.Viol = append(h.Viol, Viol{step, i, "missed-highwater", hw[i], after[i].Idx, si.Kind})
				}
				if got[i] != nil && (!(got[i].Idx > before[i].Idx) || got[i].Canon == before[i].Canon) {
					// the blocked call sat out its timeout (or was released) with the stale reply
					h.Viol = append(h.Viol, Viol{step, i, "missed-wake", before[i].Idx, got[i].Idx, si.Kind})
				} else if got[i] != nil {
					h.FiredTot++
				}
			}
			if after[i].Idx < before[i].Idx && op.Kind != "reap" {
				h.Viol = append(h.Viol, Viol{step, i, "index-decreased", before[i].Idx, after[i].Idx, si.Kind})
			}
		}
		before = after
	}
	if len(h.Viol) > 0 {
		vv := h.Viol[0]
		h.Oracle = fmt.Sprintf("%s:%s:%s", vv.Kind, qs[vv.Q].K, vv.Sit)
	}
	return h
}
