// Harness for C14: the proxy authorization policy enforces exactly the intention decision.
//
// For every generated case (local info, peer trust bundles, the intention list that matches ONE
// destination, default policy, TCP/HTTP) it runs the real makeRBACRules and records
//   - the produced RBAC as a small AST (checked to be loss-free by rebuilding the proto from it),
//     to be compared with the Coq model's `translate` (structural correspondence);
//   - the verdict of a model-independent oracle: the produced proto is evaluated by a Go
//     evaluator with Envoy's semantics (Go regexp = RE2, fully anchored as safe_regex is) against
//     a universe of connections and requests and compared with the precedence decision computed
//     with consul's own sorter and source matcher (connect.IntentionMatch); disagreements are
//     shrunk and classified by shape.
package main

import (
	"bufio"
	"encoding/json"
	"flag"
	"fmt"
	"math/rand"
	"os"
	"regexp"
	"sort"
	"strconv"
	"strings"
	"sync"

	envoy_listener_v3 "github.com/envoyproxy/go-control-plane/envoy/config/listener/v3"
	envoy_rbac_v3 "github.com/envoyproxy/go-control-plane/envoy/config/rbac/v3"
	envoy_route_v3 "github.com/envoyproxy/go-control-plane/envoy/config/route/v3"
	envoy_http_rbac_v3 "github.com/envoyproxy/go-control-plane/envoy/extensions/filters/http/rbac/v3"
	envoy_http_v3 "github.com/envoyproxy/go-control-plane/envoy/extensions/filters/network/http_connection_manager/v3"
	envoy_network_rbac_v3 "github.com/envoyproxy/go-control-plane/envoy/extensions/filters/network/rbac/v3"
	envoy_matcher_v3 "github.com/envoyproxy/go-control-plane/envoy/type/matcher/v3"
	"google.golang.org/protobuf/proto"

	"github.com/hashicorp/consul/agent/connect"
	"github.com/hashicorp/consul/agent/consul/state"
	"github.com/hashicorp/consul/agent/structs"
	"github.com/hashicorp/consul/agent/xds"
	"github.com/hashicorp/consul/proto/private/pbpeering"
)

// ---------------------------------------------------------------------------------- inputs

type Hdr struct {
	Name       string `json:"name"`
	Present    bool   `json:"present"`
	Exact      string `json:"exact"`
	Prefix     string `json:"prefix"`
	Suffix     string `json:"suffix"`
	Contains   string `json:"contains"`
	Regex      string `json:"regex"`
	Invert     bool   `json:"invert"`
	IgnoreCase bool   `json:"ignore_case"`
}

type HTTP struct {
	PathExact  string   `json:"path_exact"`
	PathPrefix string   `json:"path_prefix"`
	PathRegex  string   `json:"path_regex"`
	Header     []Hdr    `json:"header"`
	Methods    []string `json:"methods"`
}

type Perm struct {
	Action string `json:"action"`
	HTTP   *HTTP  `json:"http"`
}

type Ixn struct {
	SrcPeer string `json:"src_peer"`
	SrcAP   string `json:"src_ap"`
	SrcNS   string `json:"src_ns"`
	SrcName string `json:"src_name"`
	DstAP   string `json:"dst_ap"`
	DstNS   string `json:"dst_ns"`
	DstName string `json:"dst_name"`
	Action  string `json:"action"`
	Perms   []Perm `json:"perms"`
	Prec    int    `json:"prec"`
}

type Bundle struct {
	Peer  string `json:"peer"`
	TD    string `json:"td"`
	ExpAP string `json:"exp_ap"`
}

type Input struct {
	TD           string   `json:"td"`
	DC           string   `json:"dc"`
	AP           string   `json:"ap"`
	Bundles      []Bundle `json:"bundles"`
	Ixns         []Ixn    `json:"ixns"`
	DefaultAllow bool     `json:"default_allow"`
	HTTP         bool     `json:"http"`
}

func (x Ixn) toStruct() *structs.Intention {
	o := &structs.Intention{
		SourcePeer: x.SrcPeer, SourcePartition: x.SrcAP, SourceNS: x.SrcNS, SourceName: x.SrcName,
		DestinationPartition: x.DstAP, DestinationNS: x.DstNS, DestinationName: x.DstName,
		SourceType: structs.IntentionSourceConsul,
		Action:     structs.IntentionAction(x.Action), Precedence: x.Prec,
	}
	for _, p := range x.Perms {
		sp := &structs.IntentionPermission{Action: structs.IntentionAction(p.Action)}
		if p.HTTP != nil {
			h := &structs.IntentionHTTPPermission{PathExact: p.HTTP.PathExact, PathPrefix: p.HTTP.PathPrefix,
				PathRegex: p.HTTP.PathRegex, Methods: append([]string(nil), p.HTTP.Methods...)}
			for _, hd := range p.HTTP.Header {
				h.Header = append(h.Header, structs.IntentionHTTPHeaderPermission{Name: hd.Name, Present: hd.Present,
					Exact: hd.Exact, Prefix: hd.Prefix, Suffix: hd.Suffix, Contains: hd.Contains, Regex: hd.Regex,
					Invert: hd.Invert, IgnoreCase: hd.IgnoreCase})
			}
			sp.HTTP = h
		}
		o.Permissions = append(o.Permissions, sp)
	}
	return o
}

func fromStruct(o *structs.Intention) Ixn {
	x := Ixn{SrcPeer: o.SourcePeer, SrcAP: o.SourcePartition, SrcNS: o.SourceNS, SrcName: o.SourceName,
		DstAP: o.DestinationPartition, DstNS: o.DestinationNS, DstName: o.DestinationName,
		Action: string(o.Action), Prec: o.Precedence, Perms: []Perm{}}
	for _, p := range o.Permissions {
		q := Perm{Action: string(p.Action)}
		if p.HTTP != nil {
			h := &HTTP{PathExact: p.HTTP.PathExact, PathPrefix: p.HTTP.PathPrefix, PathRegex: p.HTTP.PathRegex,
				Methods: append([]string{}, p.HTTP.Methods...), Header: []Hdr{}}
			for _, hd := range p.HTTP.Header {
				h.Header = append(h.Header, Hdr{Name: hd.Name, Present: hd.Present, Exact: hd.Exact, Prefix: hd.Prefix,
					Suffix: hd.Suffix, Contains: hd.Contains, Regex: hd.Regex, Invert: hd.Invert, IgnoreCase: hd.IgnoreCase})
			}
			q.HTTP = h
		}
		x.Perms = append(x.Perms, q)
	}
	return x
}

func (in Input) structsIxns() structs.SimplifiedIntentions {
	out := make(structs.SimplifiedIntentions, 0, len(in.Ixns))
	for _, x := range in.Ixns {
		out = append(out, x.toStruct())
	}
	return out
}

func (in Input) bundles() []*pbpeering.PeeringTrustBundle {
	var out []*pbpeering.PeeringTrustBundle
	for _, b := range in.Bundles {
		out = append(out, &pbpeering.PeeringTrustBundle{PeerName: b.Peer, TrustDomain: b.TD, ExportedPartition: b.ExpAP})
	}
	return out
}

func (in Input) local() xds.VerifLocalInfo {
	return xds.VerifLocalInfo{TrustDomain: in.TD, Datacenter: in.DC, Partition: in.AP}
}

// run the implementation; a panic is reported as an error string
func runImpl(in Input) (r *envoy_rbac_v3.RBAC, errs string) {
	defer func() {
		if e := recover(); e != nil {
			r, errs = nil, fmt.Sprintf("panic: %v", e)
		}
	}()
	r, err := xds.VerifMakeRBACRules(in.structsIxns(), in.DefaultAllow, in.local(), in.HTTP, in.bundles())
	if err != nil {
		return nil, "error: " + err.Error()
	}
	return r, ""
}

// ---------------------------------------------------------------------------------- AST of the output

type SM struct {
	K  string `json:"k"` // exact prefix suffix contains regex
	S  string `json:"s"`
	IC bool   `json:"ic"`
}

type PNode struct { // principal
	K string   `json:"k"` // auth xfcc and or not
	S string   `json:"s,omitempty"`
	L []*PNode `json:"l,omitempty"`
}

type QNode struct { // permission
	K      string   `json:"k"` // any path header and or not
	M      *SM      `json:"m,omitempty"`
	Name   string   `json:"name,omitempty"`
	Invert bool     `json:"invert,omitempty"`
	L      []*QNode `json:"l,omitempty"`
}

type PolicyAST struct {
	Key         string   `json:"key"` // "l4" | "l7:<i>"
	Principals  []*PNode `json:"principals"`
	Permissions []*QNode `json:"permissions"`
}

type RbacAST struct {
	Allow    bool        `json:"allow"`
	Policies []PolicyAST `json:"policies"`
}

type unrep struct{ what string }

func smOf(m *envoy_matcher_v3.StringMatcher) *SM {
	switch p := m.MatchPattern.(type) {
	case *envoy_matcher_v3.StringMatcher_Exact:
		return &SM{"exact", p.Exact, m.IgnoreCase}
	case *envoy_matcher_v3.StringMatcher_Prefix:
		return &SM{"prefix", p.Prefix, m.IgnoreCase}
	case *envoy_matcher_v3.StringMatcher_Suffix:
		return &SM{"suffix", p.Suffix, m.IgnoreCase}
	case *envoy_matcher_v3.StringMatcher_Contains:
		return &SM{"contains", p.Contains, m.IgnoreCase}
	case *envoy_matcher_v3.StringMatcher_SafeRegex:
		return &SM{"regex", p.SafeRegex.GetRegex(), m.IgnoreCase}
	}
	panic(unrep{"string matcher"})
}

func smTo(s *SM) *envoy_matcher_v3.StringMatcher {
	m := &envoy_matcher_v3.StringMatcher{IgnoreCase: s.IC}
	switch s.K {
	case "exact":
		m.MatchPattern = &envoy_matcher_v3.StringMatcher_Exact{Exact: s.S}
	case "prefix":
		m.MatchPattern = &envoy_matcher_v3.StringMatcher_Prefix{Prefix: s.S}
	case "suffix":
		m.MatchPattern = &envoy_matcher_v3.StringMatcher_Suffix{Suffix: s.S}
	case "contains":
		m.MatchPattern = &envoy_matcher_v3.StringMatcher_Contains{Contains: s.S}
	case "regex":
		m.MatchPattern = &envoy_matcher_v3.StringMatcher_SafeRegex{SafeRegex: &envoy_matcher_v3.RegexMatcher{Regex: s.S}}
	}
	return m
}

const xfccName = "x-forwarded-client-cert"

func pOf(p *envoy_rbac_v3.Principal) *PNode {
	switch id := p.Identifier.(type) {
	case *envoy_rbac_v3.Principal_Authenticated_:
		sm := smOf(id.Authenticated.GetPrincipalName())
		if sm.K != "regex" || sm.IC {
			panic(unrep{"authenticated matcher"})
		}
		return &PNode{K: "auth", S: sm.S}
	case *envoy_rbac_v3.Principal_Header:
		sm, ok := id.Header.HeaderMatchSpecifier.(*envoy_route_v3.HeaderMatcher_StringMatch)
		if !ok || id.Header.Name != xfccName {
			panic(unrep{"header principal"})
		}
		s := smOf(sm.StringMatch)
		if s.K != "regex" || s.IC {
			panic(unrep{"header principal matcher"})
		}
		return &PNode{K: "xfcc", S: s.S}
	case *envoy_rbac_v3.Principal_AndIds:
		n := &PNode{K: "and"}
		for _, c := range id.AndIds.Ids {
			n.L = append(n.L, pOf(c))
		}
		return n
	case *envoy_rbac_v3.Principal_OrIds:
		n := &PNode{K: "or"}
		for _, c := range id.OrIds.Ids {
			n.L = append(n.L, pOf(c))
		}
		return n
	case *envoy_rbac_v3.Principal_NotId:
		return &PNode{K: "not", L: []*PNode{pOf(id.NotId)}}
	}
	panic(unrep{"principal kind"})
}

func pTo(n *PNode) *envoy_rbac_v3.Principal {
	switch n.K {
	case "auth":
		return &envoy_rbac_v3.Principal{Identifier: &envoy_rbac_v3.Principal_Authenticated_{
			Authenticated: &envoy_rbac_v3.Principal_Authenticated{PrincipalName: smTo(&SM{"regex", n.S, false})}}}
	case "xfcc":
		return &envoy_rbac_v3.Principal{Identifier: &envoy_rbac_v3.Principal_Header{Header: &envoy_route_v3.HeaderMatcher{
			Name: xfccName, HeaderMatchSpecifier: &envoy_route_v3.HeaderMatcher_StringMatch{StringMatch: smTo(&SM{"regex", n.S, false})}}}}
	case "and", "or":
		var ids []*envoy_rbac_v3.Principal
		for _, c := range n.L {
			ids = append(ids, pTo(c))
		}
		if n.K == "and" {
			return &envoy_rbac_v3.Principal{Identifier: &envoy_rbac_v3.Principal_AndIds{AndIds: &envoy_rbac_v3.Principal_Set{Ids: ids}}}
		}
		return &envoy_rbac_v3.Principal{Identifier: &envoy_rbac_v3.Principal_OrIds{OrIds: &envoy_rbac_v3.Principal_Set{Ids: ids}}}
	case "not":
		return &envoy_rbac_v3.Principal{Identifier: &envoy_rbac_v3.Principal_NotId{NotId: pTo(n.L[0])}}
	}
	panic("bad node")
}

func qOf(p *envoy_rbac_v3.Permission) *QNode {
	switch r := p.Rule.(type) {
	case *envoy_rbac_v3.Permission_Any:
		if !r.Any {
			panic(unrep{"any=false"})
		}
		return &QNode{K: "any"}
	case *envoy_rbac_v3.Permission_UrlPath:
		pm, ok := r.UrlPath.Rule.(*envoy_matcher_v3.PathMatcher_Path)
		if !ok {
			panic(unrep{"path matcher"})
		}
		return &QNode{K: "path", M: smOf(pm.Path)}
	case *envoy_rbac_v3.Permission_Header:
		h := r.Header
		n := &QNode{K: "header", Name: h.Name, Invert: h.InvertMatch}
		switch s := h.HeaderMatchSpecifier.(type) {
		case *envoy_route_v3.HeaderMatcher_StringMatch:
			n.M = smOf(s.StringMatch)
		case *envoy_route_v3.HeaderMatcher_PresentMatch:
			if !s.PresentMatch {
				panic(unrep{"present=false"})
			}
		default:
			panic(unrep{"header specifier"})
		}
		return n
	case *envoy_rbac_v3.Permission_AndRules:
		n := &QNode{K: "and"}
		for _, c := range r.AndRules.Rules {
			n.L = append(n.L, qOf(c))
		}
		return n
	case *envoy_rbac_v3.Permission_OrRules:
		n := &QNode{K: "or"}
		for _, c := range r.OrRules.Rules {
			n.L = append(n.L, qOf(c))
		}
		return n
	case *envoy_rbac_v3.Permission_NotRule:
		return &QNode{K: "not", L: []*QNode{qOf(r.NotRule)}}
	}
	panic(unrep{"permission kind"})
}

func qTo(n *QNode) *envoy_rbac_v3.Permission {
	switch n.K {
	case "any":
		return &envoy_rbac_v3.Permission{Rule: &envoy_rbac_v3.Permission_Any{Any: true}}
	case "path":
		return &envoy_rbac_v3.Permission{Rule: &envoy_rbac_v3.Permission_UrlPath{UrlPath: &envoy_matcher_v3.PathMatcher{
			Rule: &envoy_matcher_v3.PathMatcher_Path{Path: smTo(n.M)}}}}
	case "header":
		h := &envoy_route_v3.HeaderMatcher{Name: n.Name, InvertMatch: n.Invert}
		if n.M != nil {
			h.HeaderMatchSpecifier = &envoy_route_v3.HeaderMatcher_StringMatch{StringMatch: smTo(n.M)}
		} else {
			h.HeaderMatchSpecifier = &envoy_route_v3.HeaderMatcher_PresentMatch{PresentMatch: true}
		}
		return &envoy_rbac_v3.Permission{Rule: &envoy_rbac_v3.Permission_Header{Header: h}}
	case "and", "or":
		var rs []*envoy_rbac_v3.Permission
		for _, c := range n.L {
			rs = append(rs, qTo(c))
		}
		if n.K == "and" {
			return &envoy_rbac_v3.Permission{Rule: &envoy_rbac_v3.Permission_AndRules{AndRules: &envoy_rbac_v3.Permission_Set{Rules: rs}}}
		}
		return &envoy_rbac_v3.Permission{Rule: &envoy_rbac_v3.Permission_OrRules{OrRules: &envoy_rbac_v3.Permission_Set{Rules: rs}}}
	case "not":
		return &envoy_rbac_v3.Permission{Rule: &envoy_rbac_v3.Permission_NotRule{NotRule: qTo(n.L[0])}}
	}
	panic("bad node")
}

const l4Name = "consul-intentions-layer4"
const l7Prefix = "consul-intentions-layer7-"

// rbacToAST converts the proto and proves the conversion loss-free by rebuilding the proto.
func rbacToAST(r *envoy_rbac_v3.RBAC) (ast *RbacAST, problem string) {
	defer func() {
		if e := recover(); e != nil {
			if u, ok := e.(unrep); ok {
				ast, problem = nil, "unrepresentable: "+u.what
				return
			}
			panic(e)
		}
	}()
	a := &RbacAST{Policies: []PolicyAST{}}
	switch r.Action {
	case envoy_rbac_v3.RBAC_ALLOW:
		a.Allow = true
	case envoy_rbac_v3.RBAC_DENY:
		a.Allow = false
	default:
		return nil, "unrepresentable: action"
	}
	type kp struct {
		ord int
		p   PolicyAST
	}
	var ps []kp
	for name, pol := range r.Policies {
		var key string
		ord := 0
		switch {
		case name == l4Name:
			key, ord = "l4", 1<<30
		case strings.HasPrefix(name, l7Prefix):
			i, err := strconv.Atoi(name[len(l7Prefix):])
			if err != nil || i < 0 || strconv.Itoa(i) != name[len(l7Prefix):] {
				return nil, "unrepresentable: policy name " + name
			}
			key, ord = "l7:"+strconv.Itoa(i), i
		default:
			return nil, "unrepresentable: policy name " + name
		}
		pa := PolicyAST{Key: key, Principals: []*PNode{}, Permissions: []*QNode{}}
		for _, p := range pol.Principals {
			pa.Principals = append(pa.Principals, pOf(p))
		}
		for _, q := range pol.Permissions {
			pa.Permissions = append(pa.Permissions, qOf(q))
		}
		ps = append(ps, kp{ord, pa})
	}
	sort.Slice(ps, func(i, j int) bool { return ps[i].ord < ps[j].ord })
	for _, x := range ps {
		a.Policies = append(a.Policies, x.p)
	}
	// rebuild
	back := &envoy_rbac_v3.RBAC{Action: r.Action}
	if len(a.Policies) > 0 {
		back.Policies = map[string]*envoy_rbac_v3.Policy{}
	}
	for _, pa := range a.Policies {
		pol := &envoy_rbac_v3.Policy{}
		for _, p := range pa.Principals {
			pol.Principals = append(pol.Principals, pTo(p))
		}
		for _, q := range pa.Permissions {
			pol.Permissions = append(pol.Permissions, qTo(q))
		}
		name := l4Name
		if pa.Key != "l4" {
			name = l7Prefix + pa.Key[3:]
		}
		back.Policies[name] = pol
	}
	if !proto.Equal(r, back) {
		return nil, "unrepresentable: proto has content outside the AST"
	}
	return a, ""
}

// ---------------------------------------------------------------------------------- evaluator of the proto (Envoy semantics)

var reCache sync.Map

func fullMatch(pattern, s string) (bool, error) {
	v, ok := reCache.Load(pattern)
	if !ok {
		re, err := regexp.Compile(`^(?:` + pattern + `)$`)
		if err != nil {
			v = err
		} else {
			v = re
		}
		reCache.Store(pattern, v)
	}
	if err, bad := v.(error); bad {
		return false, err
	}
	return v.(*regexp.Regexp).MatchString(s), nil
}

type evalErr struct{ msg string }

// every safe_regex in the rule set must compile (Envoy rejects the whole listener otherwise)
func validateRegexes(r *envoy_rbac_v3.RBAC) string {
	bad := ""
	chk := func(m *envoy_matcher_v3.StringMatcher) {
		if m == nil {
			return
		}
		if sr, ok := m.MatchPattern.(*envoy_matcher_v3.StringMatcher_SafeRegex); ok {
			if _, err := fullMatch(sr.SafeRegex.GetRegex(), ""); err != nil && bad == "" {
				bad = "invalid-regex: " + sr.SafeRegex.GetRegex()
			}
		}
	}
	hdr := func(h *envoy_route_v3.HeaderMatcher) {
		if s, ok := h.HeaderMatchSpecifier.(*envoy_route_v3.HeaderMatcher_StringMatch); ok {
			chk(s.StringMatch)
		}
	}
	var wp func(p *envoy_rbac_v3.Principal)
	wp = func(p *envoy_rbac_v3.Principal) {
		switch id := p.Identifier.(type) {
		case *envoy_rbac_v3.Principal_Authenticated_:
			chk(id.Authenticated.PrincipalName)
		case *envoy_rbac_v3.Principal_Header:
			hdr(id.Header)
		case *envoy_rbac_v3.Principal_AndIds:
			for _, x := range id.AndIds.Ids {
				wp(x)
			}
		case *envoy_rbac_v3.Principal_OrIds:
			for _, x := range id.OrIds.Ids {
				wp(x)
			}
		case *envoy_rbac_v3.Principal_NotId:
			wp(id.NotId)
		}
	}
	var wq func(p *envoy_rbac_v3.Permission)
	wq = func(p *envoy_rbac_v3.Permission) {
		switch r := p.Rule.(type) {
		case *envoy_rbac_v3.Permission_UrlPath:
			if pm, ok := r.UrlPath.Rule.(*envoy_matcher_v3.PathMatcher_Path); ok {
				chk(pm.Path)
			}
		case *envoy_rbac_v3.Permission_Header:
			hdr(r.Header)
		case *envoy_rbac_v3.Permission_AndRules:
			for _, x := range r.AndRules.Rules {
				wq(x)
			}
		case *envoy_rbac_v3.Permission_OrRules:
			for _, x := range r.OrRules.Rules {
				wq(x)
			}
		case *envoy_rbac_v3.Permission_NotRule:
			wq(r.NotRule)
		}
	}
	for _, pol := range r.Policies {
		for _, p := range pol.Principals {
			wp(p)
		}
		for _, q := range pol.Permissions {
			wq(q)
		}
	}
	return bad
}

func evalSM(m *envoy_matcher_v3.StringMatcher, v string) bool {
	fold := func(s string) string {
		if m.IgnoreCase {
			return strings.ToLower(s)
		}
		return s
	}
	switch p := m.MatchPattern.(type) {
	case *envoy_matcher_v3.StringMatcher_Exact:
		return fold(p.Exact) == fold(v)
	case *envoy_matcher_v3.StringMatcher_Prefix:
		return strings.HasPrefix(fold(v), fold(p.Prefix))
	case *envoy_matcher_v3.StringMatcher_Suffix:
		return strings.HasSuffix(fold(v), fold(p.Suffix))
	case *envoy_matcher_v3.StringMatcher_Contains:
		return strings.Contains(fold(v), fold(p.Contains))
	case *envoy_matcher_v3.StringMatcher_SafeRegex:
		ok, err := fullMatch(p.SafeRegex.GetRegex(), v)
		if err != nil {
			panic(evalErr{"invalid-regex: " + p.SafeRegex.GetRegex()})
		}
		return ok
	}
	panic(evalErr{"unsupported string matcher"})
}

// evalHeader follows HeaderUtility::matchHeaders for a matcher without treat_missing_header_as_empty
// (consul never sets it): on an ABSENT header a value matcher "is ignored, will not match" even
// with invert_match; only present_match is inverted (route_components.proto, HeaderMatcher).
// lenient is a DIAGNOSTIC mode used only to attribute a disagreement: there an inverted value
// matcher matches an absent header (consul's reading of Invert).
func evalHeader(h *envoy_route_v3.HeaderMatcher, hdrs map[string]string, lenient bool) bool {
	if h.TreatMissingHeaderAsEmpty {
		panic(evalErr{"unsupported header option"})
	}
	v, present := hdrs[strings.ToLower(h.Name)]
	switch s := h.HeaderMatchSpecifier.(type) {
	case *envoy_route_v3.HeaderMatcher_PresentMatch:
		return (present == s.PresentMatch) != h.InvertMatch
	case *envoy_route_v3.HeaderMatcher_StringMatch:
		if !present {
			return lenient && h.InvertMatch
		}
		return evalSM(s.StringMatch, v) != h.InvertMatch
	}
	panic(evalErr{"unsupported header matcher"})
}

// Connection: URI SAN of the client certificate, and the request's XFCC header (absent = "").
type Conn struct {
	TLS  string `json:"tls"`
	XFCC string `json:"xfcc"`
}

type Req struct {
	Path    string            `json:"path"`
	Headers map[string]string `json:"headers"` // lower-case names, ":method" included
}

func evalPrincipal(p *envoy_rbac_v3.Principal, c *Conn) bool {
	switch id := p.Identifier.(type) {
	case *envoy_rbac_v3.Principal_Any:
		return id.Any
	case *envoy_rbac_v3.Principal_Authenticated_:
		if id.Authenticated.PrincipalName == nil {
			return true
		}
		return evalSM(id.Authenticated.PrincipalName, c.TLS)
	case *envoy_rbac_v3.Principal_Header:
		h := map[string]string{}
		if c.XFCC != "" {
			h[xfccName] = c.XFCC
		}
		if strings.ToLower(id.Header.Name) != xfccName {
			panic(evalErr{"header principal on " + id.Header.Name})
		}
		return evalHeader(id.Header, h, false)
	case *envoy_rbac_v3.Principal_AndIds:
		for _, x := range id.AndIds.Ids {
			if !evalPrincipal(x, c) {
				return false
			}
		}
		return true
	case *envoy_rbac_v3.Principal_OrIds:
		for _, x := range id.OrIds.Ids {
			if evalPrincipal(x, c) {
				return true
			}
		}
		return false
	case *envoy_rbac_v3.Principal_NotId:
		return !evalPrincipal(id.NotId, c)
	}
	panic(evalErr{"unsupported principal"})
}

func evalPermission(p *envoy_rbac_v3.Permission, q *Req, lenient bool) bool {
	switch r := p.Rule.(type) {
	case *envoy_rbac_v3.Permission_Any:
		return r.Any
	case *envoy_rbac_v3.Permission_UrlPath:
		pm, ok := r.UrlPath.Rule.(*envoy_matcher_v3.PathMatcher_Path)
		if !ok {
			panic(evalErr{"unsupported path matcher"})
		}
		return evalSM(pm.Path, q.Path)
	case *envoy_rbac_v3.Permission_Header:
		return evalHeader(r.Header, q.Headers, lenient)
	case *envoy_rbac_v3.Permission_AndRules:
		for _, x := range r.AndRules.Rules {
			if !evalPermission(x, q, lenient) {
				return false
			}
		}
		return true
	case *envoy_rbac_v3.Permission_OrRules:
		for _, x := range r.OrRules.Rules {
			if evalPermission(x, q, lenient) {
				return true
			}
		}
		return false
	case *envoy_rbac_v3.Permission_NotRule:
		return !evalPermission(r.NotRule, q, lenient)
	}
	panic(evalErr{"unsupported permission"})
}

// evalRBAC: ALLOW filter allows iff some policy matches, DENY filter allows iff none does.
func evalRBAC(r *envoy_rbac_v3.RBAC, c *Conn, q *Req, lenient bool) bool {
	matched := false
	for _, pol := range r.Policies {
		pm := false
		for _, p := range pol.Principals {
			if evalPrincipal(p, c) {
				pm = true
				break
			}
		}
		if !pm {
			continue
		}
		for _, p := range pol.Permissions {
			if evalPermission(p, q, lenient) {
				matched = true
				break
			}
		}
		if matched {
			break
		}
	}
	if r.Action == envoy_rbac_v3.RBAC_ALLOW {
		return matched
	}
	return !matched
}

// ---------------------------------------------------------------------------------- the reference: precedence

// Identity of a caller as the generator built it (ground truth, never parsed back).
type Ident struct {
	Kind string `json:"kind"` // service | gateway | odd
	TD   string `json:"td"`
	AP   string `json:"ap"` // "default" = no /ap/ segment
	NS   string `json:"ns"`
	DC   string `json:"dc"`
	Svc  string `json:"svc"`
}

func (i Ident) URI() string {
	switch i.Kind {
	case "gateway":
		return "spiffe://" + i.TD + "/gateway/mesh/dc/" + i.DC
	case "odd":
		return "spiffe://" + i.TD + "/ns/" + i.NS + "/dc/" + i.DC + "/svc/" + i.Svc + "/extra"
	}
	ap := ""
	if i.AP != "default" {
		ap = "/ap/" + i.AP
	}
	return "spiffe://" + i.TD + ap + "/ns/" + i.NS + "/dc/" + i.DC + "/svc/" + i.Svc
}

// A connection as the generator built it.
type Presented struct {
	TLS   Ident  `json:"tls"`
	XFCC  *Ident `json:"xfcc,omitempty"`  // URI of the first XFCC element
	XFCC2 *Ident `json:"xfcc2,omitempty"` // a second (older) XFCC element, irrelevant for authorization
}

func (p Presented) conn() *Conn {
	c := &Conn{TLS: p.TLS.URI()}
	if p.XFCC != nil {
		c.XFCC = `By=spiffe://` + p.TLS.TD + `/ns/default/dc/dc1/svc/db;Hash=6a9e0c1f;Cert="-----BEGIN%20CERTIFICATE-----%0AMIIB%0A-----END%20CERTIFICATE-----%0A";Chain="-----BEGIN%20CERTIFICATE-----%0AMIIB%0A-----END%20CERTIFICATE-----%0A";Subject="";URI=` + p.XFCC.URI()
		if p.XFCC2 != nil {
			c.XFCC += `,By=spiffe://x.consul/ns/default/dc/dc1/svc/gw;Hash=00;Subject="";URI=` + p.XFCC2.URI()
		}
	}
	return c
}

type nameMatch func(pattern, name string) bool

// diagnostic only: which spliced text is read as an unescaped regex when attributing a disagreement
type blur struct {
	name   nameMatch
	td, ap bool
}

func exactName(p, n string) bool { return p == n }

// diagnostic only (classification of a disagreement): the name is read as an unescaped regex
func regexName(p, n string) bool {
	ok, err := fullMatch(p, n)
	return err == nil && ok
}

func lowerOrDefault(s string) string {
	if s == "" {
		return "default"
	}
	return strings.ToLower(s)
}

// does the source of the intention cover the identity?  consul's own matcher decides on
// (name, namespace, peer); the trust domain and partition tie the identity to the cluster.
func ixnCovers(in *Input, x *structs.Intention, id *Ident, bl *blur) bool {
	if id.Kind != "service" {
		return false
	}
	td, ap := in.TD, "default"
	if x.SourcePeer != "" {
		found := false
		for _, b := range in.Bundles { // last bundle of a name wins
			if b.Peer == x.SourcePeer {
				td, ap, found = b.TD, lowerOrDefault(b.ExpAP), true
			}
		}
		if !found {
			return false
		}
	}
	if bl != nil && bl.td {
		if !regexName(td, id.TD) {
			return false
		}
	} else if id.TD != td {
		return false
	}
	if bl != nil && bl.ap {
		if !regexName(ap, id.AP) {
			return false
		}
	} else if id.AP != ap {
		return false
	}
	if bl == nil {
		return connect.IntentionMatch(id.Svc, id.NS, "", x.SourcePeer, x, structs.IntentionMatchSource)
	}
	// diagnostic variant
	if x.SourceNS != structs.WildcardSpecifier && x.SourceNS != id.NS {
		return false
	}
	return x.SourceName == structs.WildcardSpecifier || bl.name(x.SourceName, id.Svc)
}

func xfccMode(in *Input) bool {
	if !in.HTTP || len(in.Bundles) == 0 {
		return false
	}
	for _, x := range in.Ixns {
		if x.SrcPeer != "" {
			return true
		}
	}
	return false
}

// Which identity does the connection establish for an intention?  Peer identities reach an HTTP
// listener that expects peered traffic only through the local mesh gateway, in the first XFCC element.
func ixnMatchesConn(in *Input, x *structs.Intention, p *Presented, mode bool, bl *blur) bool {
	if mode && x.SourcePeer != "" {
		if !(p.TLS.Kind == "gateway" && p.TLS.TD == in.TD) || p.XFCC == nil {
			return false
		}
		return ixnCovers(in, x, p.XFCC, bl)
	}
	return ixnCovers(in, x, &p.TLS, bl)
}

func hdrMatches(h *structs.IntentionHTTPHeaderPermission, q *Req) bool {
	v, present := q.Headers[strings.ToLower(h.Name)]
	fold := func(s string) string {
		if h.IgnoreCase {
			return strings.ToLower(s)
		}
		return s
	}
	var r bool
	switch {
	case h.Exact != "":
		r = present && fold(h.Exact) == fold(v)
	case h.Regex != "":
		ok, _ := fullMatch(h.Regex, v)
		r = present && ok
	case h.Prefix != "":
		r = present && strings.HasPrefix(fold(v), fold(h.Prefix))
	case h.Suffix != "":
		r = present && strings.HasSuffix(fold(v), fold(h.Suffix))
	case h.Contains != "":
		r = present && strings.Contains(fold(v), fold(h.Contains))
	case h.Present:
		r = present
	default:
		return true
	}
	return r != h.Invert
}

func permMatches(p *structs.IntentionPermission, q *Req) bool {
	if p.HTTP == nil {
		return true
	}
	h := p.HTTP
	switch {
	case h.PathExact != "":
		if q.Path != h.PathExact {
			return false
		}
	case h.PathPrefix != "":
		if !strings.HasPrefix(q.Path, h.PathPrefix) {
			return false
		}
	case h.PathRegex != "":
		if ok, _ := fullMatch(h.PathRegex, q.Path); !ok {
			return false
		}
	}
	for i := range h.Header {
		if !hdrMatches(&h.Header[i], q) {
			return false
		}
	}
	if len(h.Methods) > 0 {
		m, ok := q.Headers[":method"]
		if !ok {
			return false
		}
		found := false
		for _, x := range h.Methods {
			if x == m {
				found = true
			}
		}
		if !found {
			return false
		}
	}
	return true
}

// the precedence decision.  sorted: the intentions in consul's precedence order.
// decider: index (in sorted) of the first intention whose source covers the connection, -1 for none.
func decider(in *Input, sorted structs.Intentions, p *Presented, mode bool, bl *blur) int {
	for k, x := range sorted {
		if ixnMatchesConn(in, x, p, mode, bl) {
			return k
		}
	}
	return -1
}

// decideReq: the decision of the deciding intention on one request (k = -1: the default policy).
func decideReq(in *Input, sorted structs.Intentions, k int, q *Req) bool {
	if k < 0 {
		return in.DefaultAllow
	}
	x := sorted[k]
	if len(x.Permissions) == 0 {
		return x.Action == structs.IntentionActionAllow
	}
	if !in.HTTP {
		return false // L7 intention on a TCP listener: deny
	}
	for _, perm := range x.Permissions {
		if permMatches(perm, q) {
			return perm.Action == structs.IntentionActionAllow
		}
	}
	return in.DefaultAllow
}

func reference(in *Input, sorted structs.Intentions, p *Presented, q *Req, mode bool, bl *blur) (bool, int) {
	k := decider(in, sorted, p, mode, bl)
	return decideReq(in, sorted, k, q), k
}

func sortedIxns(in *Input) structs.Intentions {
	s := structs.Intentions(in.structsIxns())
	sort.Stable(structs.IntentionPrecedenceSorter(s))
	return s
}

// ---------------------------------------------------------------------------------- universes

func metaName(s string) bool { return regexp.QuoteMeta(s) != s }

func uniq(l []string) []string {
	seen := map[string]bool{}
	var out []string
	for _, x := range l {
		if !seen[x] {
			seen[x] = true
			out = append(out, x)
		}
	}
	return out
}

func callerNames(in *Input) []string {
	var names []string
	for _, x := range in.Ixns {
		if x.SrcName != "*" && x.SrcName != "" {
			names = append(names, x.SrcName)
		}
	}
	names = uniq(names)
	out := append([]string{}, names...)
	out = append(out, "fresh-svc")
	for _, n := range names {
		out = append(out, n+"x", "x"+n) // anchoring near-misses
		if strings.Contains(n, ".") {
			out = append(out, strings.ReplaceAll(n, ".", "x"), strings.ReplaceAll(n, ".", "-"))
		}
		if strings.Contains(n, "|") {
			out = append(out, strings.Split(n, "|")...)
		}
		if strings.Contains(n, "+") {
			out = append(out, strings.ReplaceAll(n, "+", ""))
		}
	}
	return uniq(out)
}

func connections(in *Input) []Presented {
	type cl struct{ td, ap string }
	clusters := []cl{{in.TD, "default"}}
	for _, b := range in.Bundles {
		clusters = append(clusters, cl{b.TD, lowerOrDefault(b.ExpAP)})
	}
	clusters = append(clusters, cl{"other.consul", "default"})
	names := callerNames(in)
	var ids []Ident
	for _, c := range clusters {
		for i, n := range names {
			ids = append(ids, Ident{"service", c.td, c.ap, "default", "dc1", n})
			if i == 0 {
				ids = append(ids,
					Ident{"service", c.td, c.ap, "other-ns", "dc1", n},
					Ident{"service", c.td, "otherpart", "default", "dc1", n},
					Ident{"service", c.td, c.ap, "default", "dc2", n},
					Ident{"odd", c.td, c.ap, "default", "dc1", n})
				if c.ap != "default" {
					ids = append(ids, Ident{"service", c.td, "default", "default", "dc1", n})
				}
			}
		}
	}
	// near-misses of the cluster fields that are spliced into the pattern unquoted: a '.' of the
	// trust domain / partition replaced by another character
	for _, c := range clusters[:len(clusters)-1] {
		for _, n := range names[:1] {
			if strings.Contains(c.td, ".") {
				ids = append(ids, Ident{"service", strings.Replace(c.td, ".", "x", 1), c.ap, "default", "dc1", n})
			}
			if strings.Contains(c.ap, ".") {
				ids = append(ids, Ident{"service", c.td, strings.Replace(c.ap, ".", "x", 1), "default", "dc1", n})
			}
		}
	}
	var out []Presented
	for _, id := range ids {
		out = append(out, Presented{TLS: id})
	}
	out = append(out, Presented{TLS: Ident{Kind: "gateway", TD: in.TD, DC: "dc1"}})
	if in.HTTP && len(in.Bundles) > 0 {
		gw := Ident{Kind: "gateway", TD: in.TD, DC: "dc1"}
		gw2 := Ident{Kind: "gateway", TD: in.TD, DC: "dc9"}
		foreign := Ident{Kind: "gateway", TD: "other.consul", DC: "dc1"}
		for k, id := range ids {
			id := id
			out = append(out, Presented{TLS: gw, XFCC: &id})
			if k%5 == 0 {
				out = append(out, Presented{TLS: foreign, XFCC: &id}, Presented{TLS: gw2, XFCC: &id})
				other := ids[(k+1)%len(ids)]
				out = append(out, Presented{TLS: gw, XFCC: &id, XFCC2: &other})
				// a local service forging the header
				out = append(out, Presented{TLS: ids[0], XFCC: &id})
			}
		}
	}
	return out
}

func requests(in *Input) []Req {
	if !in.HTTP {
		return []Req{{Path: "/", Headers: map[string]string{":method": "GET"}}}
	}
	paths := []string{"/", "/other"}
	methods := []string{"GET"}
	type hv struct{ name, val string }
	hvs := [][]hv{nil}
	addHdr := func(name string, vals ...string) {
		for _, v := range vals {
			hvs = append(hvs, []hv{{strings.ToLower(name), v}})
		}
	}
	for _, x := range in.Ixns {
		for _, p := range x.Perms {
			if p.HTTP == nil {
				continue
			}
			h := p.HTTP
			for _, s := range []string{h.PathExact, h.PathPrefix} {
				if s != "" {
					paths = append(paths, s, s+"/x", s+"x", strings.ToUpper(s))
					if len(s) > 1 {
						paths = append(paths, s[:len(s)-1])
					}
				}
			}
			if h.PathRegex != "" {
				paths = append(paths, "/v1/a", "/v2/", "/v3/a", "/v1", "x/v1/a", "/v1/a/b")
			}
			methods = append(methods, h.Methods...)
			if len(h.Methods) > 0 {
				methods = append(methods, "DELETE", "PUT", "GE", "GETX")
			}
			for _, hd := range h.Header {
				switch {
				case hd.Exact != "":
					addHdr(hd.Name, hd.Exact, hd.Exact+"x", strings.ToUpper(hd.Exact), "")
				case hd.Prefix != "":
					addHdr(hd.Name, hd.Prefix, hd.Prefix+"-more", "x"+hd.Prefix, strings.ToUpper(hd.Prefix)+"z")
				case hd.Suffix != "":
					addHdr(hd.Name, hd.Suffix, "more-"+hd.Suffix, hd.Suffix+"x", "a"+strings.ToUpper(hd.Suffix))
				case hd.Contains != "":
					addHdr(hd.Name, hd.Contains, "a"+hd.Contains+"b", "zzz", strings.ToUpper(hd.Contains))
				case hd.Regex != "":
					addHdr(hd.Name, "abc", "abd", "xabcx", "")
				default:
					addHdr(hd.Name, "1")
				}
			}
		}
	}
	// requests carrying SEVERAL headers: for a permission with two or more header matchers, all of
	// them satisfied, and exactly one violated (wrong value / header dropped)
	good := func(hd Hdr) string {
		switch {
		case hd.Exact != "":
			return hd.Exact
		case hd.Prefix != "":
			return hd.Prefix + "-more"
		case hd.Suffix != "":
			return "more-" + hd.Suffix
		case hd.Contains != "":
			return "a" + hd.Contains + "b"
		case hd.Regex != "":
			return "abc"
		}
		return "1"
	}
	for _, x := range in.Ixns {
		for _, p := range x.Perms {
			if p.HTTP == nil || len(p.HTTP.Header) < 2 {
				continue
			}
			var all []hv
			for _, hd := range p.HTTP.Header {
				all = append(all, hv{strings.ToLower(hd.Name), good(hd)})
			}
			hvs = append(hvs, all)
			for k := range all {
				bad := append([]hv{}, all...)
				bad[k].val = "zzz"
				hvs = append(hvs, bad)
				hvs = append(hvs, append(append([]hv{}, all[:k]...), all[k+1:]...))
			}
		}
	}
	paths, methods = uniq(paths), uniq(methods)
	// headers: dedupe
	seenH := map[string]bool{}
	var hsets [][]hv
	for _, h := range hvs {
		k := fmt.Sprint(h)
		if !seenH[k] {
			seenH[k] = true
			hsets = append(hsets, h)
		}
	}
	var out []Req
	for _, p := range paths {
		for _, m := range methods {
			for _, hs := range hsets {
				h := map[string]string{":method": m}
				for _, x := range hs {
					h[x.name] = x.val
				}
				out = append(out, Req{Path: p, Headers: h})
			}
		}
	}
	return out
}

// ---------------------------------------------------------------------------------- oracle

type Replay struct {
	Input     Input     `json:"input"`
	Presented Presented `json:"presented"`
	Conn      Conn      `json:"conn"`
	Req       Req       `json:"request"`
	RBAC      bool      `json:"rbac_allows"`
	Expected  bool      `json:"precedence_allows"`
	Problem   string    `json:"problem,omitempty"`
}

type Finding struct {
	Sig    map[string]any `json:"signature"`
	Replay Replay         `json:"replay"`
	Count  int            `json:"count"`
	Coq    *FindingCase   `json:"coq,omitempty"` // the shrunk replay as a case for the Coq model
}

// FindingCase: the shrunk input, what the implementation produces for it, and the disagreeing point.
type FindingCase struct {
	Input   Input    `json:"input"`
	Impl    *RbacAST `json:"impl"`
	Samples []Sample `json:"samples"`
}

type oracleStats struct {
	Conns, Reqs, Evals, Disagreements int
	ByCause                           map[string]int
	Samples                           []Sample
}

// A sampled evaluation point handed to the Coq side: the model's evaluator and the model's
// specification must give the same two verdicts.
type UriJSON struct {
	Host string   `json:"host"`
	Segs []string `json:"segs"`
}

type Sample struct {
	TLS     UriJSON     `json:"tls"`
	XFCC    *UriJSON    `json:"xfcc"`
	Path    string      `json:"path"`
	Headers [][2]string `json:"headers"`
	Rbac    bool        `json:"rbac"`
	Want    bool        `json:"want"`
	Re      [][3]string `json:"re"` // pattern, subject, "1"/"0"
}

func splitURI(u string) UriJSON {
	rest := strings.TrimPrefix(u, "spiffe://")
	parts := strings.Split(rest, "/")
	return UriJSON{Host: parts[0], Segs: append([]string{}, parts[1:]...)}
}

// every name without '/' can be sampled: names are quoted, and the model reads quoted text exactly
var fragmentName = regexp.MustCompile(`^[^/]*$`)

func inFragment(in *Input) bool {
	for _, x := range in.Ixns {
		if !fragmentName.MatchString(x.SrcName) {
			return false
		}
	}
	return true
}

func mkSample(in *Input, p *Presented, q *Req, got, want bool) Sample {
	sm := Sample{TLS: splitURI(p.TLS.URI()), Path: q.Path, Rbac: got, Want: want, Headers: [][2]string{}, Re: [][3]string{}}
	if p.XFCC != nil {
		u := splitURI(p.XFCC.URI())
		sm.XFCC = &u
	}
	var keys []string
	for k := range q.Headers {
		keys = append(keys, k)
	}
	sort.Strings(keys)
	subjects := []string{q.Path}
	for _, k := range keys {
		sm.Headers = append(sm.Headers, [2]string{k, q.Headers[k]})
		subjects = append(subjects, q.Headers[k])
	}
	var pats []string
	for _, x := range in.Ixns {
		for _, pm := range x.Perms {
			if pm.HTTP == nil {
				continue
			}
			if pm.HTTP.PathRegex != "" {
				pats = append(pats, pm.HTTP.PathRegex)
			}
			for _, h := range pm.HTTP.Header {
				if h.Regex != "" {
					pats = append(pats, h.Regex)
				}
			}
			if len(pm.HTTP.Methods) > 0 {
				pats = append(pats, strings.Join(pm.HTTP.Methods, "|"))
			}
		}
	}
	for _, pt := range uniq(pats) {
		for _, sj := range uniq(subjects) {
			ok, err := fullMatch(pt, sj)
			v := "0"
			if err == nil && ok {
				v = "1"
			}
			sm.Re = append(sm.Re, [3]string{pt, sj, v})
		}
	}
	return sm
}

// ---- attribution of a disagreement -------------------------------------------------------------
//
// A disagreement between the produced RBAC and the precedence decision is attributed to a CAUSE by
// counterfactual runs of the real translator (never by loosening the oracle):
//   shadow           the disagreement disappears when the intentions whose source is strictly
//                    contained in a kept higher-precedence source are removed from the INPUT (this is
//                    what the proposed repair removeShadowedSourceIntentions does inside the translator);
//   inverted-header  it disappears when the evaluator lets an inverted value matcher match an absent
//                    header (consul's reading of Invert) instead of Envoy's "ignored, will not match";
//   both             it needs both counterfactuals;
//   ""               unexplained.
// Only disagreements with a cause, shrunk under "same point, same cause", can match a known finding.

func hasBundle(in *Input, peer string) bool {
	for _, b := range in.Bundles {
		if b.Peer == peer {
			return true
		}
	}
	return false
}

// dropShadowed: the input without the intentions the proposed repair would drop.
func dropShadowed(in *Input) Input {
	out := *in
	out.Ixns = nil
	var kept []Ixn
	for _, sx := range sortedIxns(in) {
		x := fromStruct(sx)
		if x.SrcPeer != "" && !hasBundle(in, x.SrcPeer) {
			out.Ixns = append(out.Ixns, x) // dropped by the translator anyway, shadows nothing
			continue
		}
		shadowed := false
		for _, k := range kept {
			if k.SrcPeer == x.SrcPeer && k.SrcName == "*" && x.SrcName != "*" {
				shadowed = true
			}
		}
		if !shadowed {
			kept = append(kept, x)
			out.Ixns = append(out.Ixns, x)
		}
	}
	if out.Ixns == nil {
		out.Ixns = []Ixn{}
	}
	return out
}

// clusterFieldCause: is an otherwise unexplained disagreement explained by reading the trust domain
// (or the partition) as the unescaped regex it is spliced in as?  Diagnostic reference only.
func clusterFieldCause(in *Input, sorted structs.Intentions, p *Presented, q *Req, mode, got bool) string {
	if b, _ := reference(in, sorted, p, q, mode, &blur{name: exactName, td: true}); b == got {
		return "unquoted-trust-domain"
	}
	if b, _ := reference(in, sorted, p, q, mode, &blur{name: exactName, ap: true}); b == got {
		return "unquoted-partition"
	}
	return ""
}

func causeOf(want, gotRed, gotLen, gotBoth bool) string {
	switch {
	case gotRed == want:
		return "shadow"
	case gotLen == want:
		return "inverted-header"
	case gotBoth == want:
		return "shadow+inverted-header"
	}
	return ""
}

// diagnose one (connection, request) on one input: disagreement, verdicts, cause.
func diagnose(in *Input, p *Presented, q *Req) (dis bool, got, want bool, cause, problem string) {
	defer func() {
		if e := recover(); e != nil {
			if ee, ok := e.(evalErr); ok {
				dis, problem = true, ee.msg
				return
			}
			panic(e)
		}
	}()
	r, errs := runImpl(*in)
	if errs != "" {
		return true, false, false, "", errs
	}
	if bad := validateRegexes(r); bad != "" {
		return true, false, false, "", bad
	}
	want, _ = reference(in, sortedIxns(in), p, q, xfccMode(in), nil)
	c := p.conn()
	got = evalRBAC(r, c, q, false)
	if got == want {
		return false, got, want, "", ""
	}
	red := dropShadowed(in)
	rRed := r
	if len(red.Ixns) != len(in.Ixns) {
		if rr, e2 := runImpl(red); e2 == "" {
			rRed = rr
		}
	}
	cause = causeOf(want, evalRBAC(rRed, c, q, false), evalRBAC(r, c, q, true), evalRBAC(rRed, c, q, true))
	if cause == "" {
		cause = clusterFieldCause(in, sortedIxns(in), p, q, xfccMode(in), got)
	}
	return true, got, want, cause, ""
}

func disagree(in *Input, p *Presented, q *Req) (dis bool, got, want bool, problem string) {
	dis, got, want, _, problem = diagnose(in, p, q)
	return
}

func without(l []Ixn, k int) []Ixn {
	out := append([]Ixn{}, l[:k]...)
	return append(out, l[k+1:]...)
}

// shrink: drop intentions, then permissions, then bundles, while the same (connection, request)
// still disagrees FOR THE SAME CAUSE (and with the same kind of problem).
func shrink(in Input, p *Presented, q *Req, cause string, hasProblem bool) Input {
	same := func(c *Input) bool {
		d, _, _, cs, pr := diagnose(c, p, q)
		return d && cs == cause && (pr != "") == hasProblem
	}
	for changed := true; changed; {
		changed = false
		for k := range in.Ixns {
			c := in
			c.Ixns = without(in.Ixns, k)
			if same(&c) {
				in, changed = c, true
				break
			}
		}
		if changed {
			continue
		}
		for k := range in.Ixns {
			if len(in.Ixns[k].Perms) < 2 {
				continue
			}
			for j := range in.Ixns[k].Perms {
				c := in
				c.Ixns = append([]Ixn{}, in.Ixns...)
				x := c.Ixns[k]
				x.Perms = append(append([]Perm{}, x.Perms[:j]...), x.Perms[j+1:]...)
				c.Ixns[k] = x
				if same(&c) {
					in, changed = c, true
					break
				}
			}
			if changed {
				break
			}
		}
		if !changed && len(in.Bundles) > 0 {
			for k := range in.Bundles {
				c := in
				c.Bundles = append(append([]Bundle{}, in.Bundles[:k]...), in.Bundles[k+1:]...)
				if xfccMode(&c) != xfccMode(&in) {
					continue
				}
				if same(&c) {
					in, changed = c, true
					break
				}
			}
		}
	}
	return in
}

func srcShape(x Ixn) string {
	if x.SrcName == "*" {
		return "wildcard"
	}
	return "exact"
}

func ixnKind(x Ixn) string {
	if len(x.Perms) > 0 {
		return "l7"
	}
	if x.Action == "allow" {
		return "allow"
	}
	return "deny"
}

// relation of the source of a to the source of b (by consul's own wildcard rules)
func srcRelation(a, b Ixn) string {
	if a.SrcPeer != b.SrcPeer {
		return "disjoint"
	}
	switch {
	case a.SrcName == b.SrcName:
		return "equal"
	case a.SrcName == "*":
		return "contains"
	case b.SrcName == "*":
		return "contained"
	}
	return "disjoint"
}

// does some permission carry an inverted VALUE matcher on a header the request lacks?
func invertedValueMatcherOnAbsentHeader(in *Input, q *Req) bool {
	for _, x := range in.Ixns {
		for _, pm := range x.Perms {
			if pm.HTTP == nil {
				continue
			}
			for _, h := range pm.HTTP.Header {
				value := h.Exact != "" || h.Prefix != "" || h.Suffix != "" || h.Contains != "" || h.Regex != ""
				if _, present := q.Headers[strings.ToLower(h.Name)]; h.Invert && value && !present {
					return true
				}
			}
		}
	}
	return false
}

func direction(in *Input, got bool) string {
	// C14_nondefault_kept: for the shadow defect the RBAC can only err TOWARDS the non-default action
	if got != in.DefaultAllow {
		return "rbac-nondefault"
	}
	return "rbac-default"
}

// signature of a shrunk disagreement: kind + cause + distinguishing shape, never the concrete names.
func classify(in *Input, p *Presented, q *Req, got, want bool, cause, problem string) map[string]any {
	sig := map[string]any{"n_ixns": len(in.Ixns)}
	if strings.HasPrefix(problem, "invalid-regex") {
		// is the offending regex one the code built from a name?
		for _, x := range in.Ixns {
			if metaName(x.SrcName) && x.SrcName != "*" {
				sig["kind"], sig["metachar_in"], sig["effect"] = "regex-unescaped-name", "source-name", "invalid-regex"
				return sig
			}
		}
		sig["kind"] = "invalid-regex"
		return sig
	}
	if problem != "" {
		sig["kind"], sig["problem"] = "implementation-error", problem
		return sig
	}
	mode := xfccMode(in)
	sig["direction"] = direction(in, got)
	sig["xfcc_mode"] = mode
	pairShape := func() {
		if len(in.Ixns) == 2 {
			s := sortedIxns(in)
			hi, lo := fromStruct(s[0]), fromStruct(s[1])
			sig["higher_source"], sig["lower_source"] = srcShape(hi), srcShape(lo)
			sig["higher_kind"], sig["lower_kind"] = ixnKind(hi), ixnKind(lo)
			sig["source_relation"] = "higher-" + srcRelation(hi, lo) + "-lower"
			sig["same_destination"] = hi.DstName == lo.DstName && hi.DstNS == lo.DstNS
		}
	}
	switch cause {
	case "shadow":
		sig["kind"], sig["cause"] = "precedence-removal", "dropping-shadowed-intentions-restores-precedence"
		pairShape()
		return sig
	case "inverted-header":
		sig["kind"], sig["cause"] = "inverted-header-missing", "inverted-value-matcher-on-absent-header-ignored-by-envoy"
		sig["header_absent"] = invertedValueMatcherOnAbsentHeader(in, q)
		return sig
	case "unquoted-trust-domain", "unquoted-partition":
		sig["kind"], sig["cause"] = "regex-unescaped-cluster-field", cause
		sig["metachar_in"] = strings.TrimPrefix(cause, "unquoted-")
		return sig
	case "shadow+inverted-header":
		sig["kind"], sig["cause"] = "precedence-removal+inverted-header-missing", "needs-both-counterfactuals"
		sig["header_absent"] = invertedValueMatcherOnAbsentHeader(in, q)
		pairShape()
		return sig
	}
	// unexplained by the two open findings.  Diagnostics for spliced text read as unescaped regex:
	hasMeta := false
	for _, x := range in.Ixns {
		if x.SrcName != "*" && metaName(x.SrcName) {
			hasMeta = true
		}
	}
	sorted := sortedIxns(in)
	if b, _ := reference(in, sorted, p, q, mode, &blur{name: regexName}); hasMeta && b == got {
		sig["kind"], sig["metachar_in"] = "regex-unescaped-name", "source-name"
		sig["effect"] = map[bool]string{true: "caller-matched-by-pattern-of-other-name", false: "own-name-not-matched"}[callerIsNearMiss(in, p)]
		return sig
	}
	sig["kind"] = "decision-mismatch"
	pairShape()
	return sig
}

func callerIsNearMiss(in *Input, p *Presented) bool {
	id := p.TLS
	if p.XFCC != nil && p.TLS.Kind == "gateway" {
		id = *p.XFCC
	}
	for _, x := range in.Ixns {
		if x.SrcName != "*" && metaName(x.SrcName) && x.SrcName != id.Svc && regexName(x.SrcName, id.Svc) {
			return true
		}
	}
	return false
}

type polTab struct {
	princ []bool
	perm  []bool // strict (Envoy) header semantics
	permL []bool // lenient, diagnostic
}

func tabulateRBAC(r *envoy_rbac_v3.RBAC, conns []Presented, reqs []Req) (tabs []polTab, problem string) {
	defer func() {
		if e := recover(); e != nil {
			if ee, ok := e.(evalErr); ok {
				problem = ee.msg
				return
			}
			panic(e)
		}
	}()
	for _, pol := range r.Policies {
		t := polTab{make([]bool, len(conns)), make([]bool, len(reqs)), make([]bool, len(reqs))}
		for ci := range conns {
			c := conns[ci].conn()
			for _, p := range pol.Principals {
				if evalPrincipal(p, c) {
					t.princ[ci] = true
					break
				}
			}
		}
		for qi := range reqs {
			for _, p := range pol.Permissions {
				if evalPermission(p, &reqs[qi], false) {
					t.perm[qi] = true
					break
				}
			}
			for _, p := range pol.Permissions {
				if evalPermission(p, &reqs[qi], true) {
					t.permL[qi] = true
					break
				}
			}
		}
		tabs = append(tabs, t)
	}
	return
}

func verdictFromTabs(r *envoy_rbac_v3.RBAC, tabs []polTab, ci, qi int, lenient bool) bool {
	matched := false
	for _, t := range tabs {
		pm := t.perm[qi]
		if lenient {
			pm = t.permL[qi]
		}
		if t.princ[ci] && pm {
			matched = true
			break
		}
	}
	if r.Action != envoy_rbac_v3.RBAC_ALLOW {
		return !matched
	}
	return matched
}

// oracle evaluates the produced RBAC against the whole universe.  Principals depend only on
// the connection and permissions only on the request, so both are tabulated once.
func oracle(in *Input, r *envoy_rbac_v3.RBAC, wantCoq bool) (findings []Finding, st oracleStats) {
	conns := connections(in)
	reqs := requests(in)
	st.Conns, st.Reqs = len(conns), len(reqs)
	st.ByCause = map[string]int{}
	sorted := sortedIxns(in)
	mode := xfccMode(in)
	bySig := map[string]int{}
	shrunkPerCause := map[string]int{}
	report := func(p *Presented, q *Req, cause, problem string) {
		lim := 2
		if cause == "" {
			lim = 30 // unexplained disagreements are never waved through: look at many of them
		}
		if shrunkPerCause[cause] >= lim {
			return
		}
		shrunkPerCause[cause]++
		small := shrink(*in, p, q, cause, problem != "")
		_, g2, w2, c2, pr2 := diagnose(&small, p, q)
		sig := classify(&small, p, q, g2, w2, c2, pr2)
		k, _ := json.Marshal(sig)
		if i, ok := bySig[string(k)]; ok {
			findings[i].Count++
			return
		}
		bySig[string(k)] = len(findings)
		f := Finding{Sig: sig, Count: 1,
			Replay: Replay{Input: small, Presented: *p, Conn: *p.conn(), Req: *q, RBAC: g2, Expected: w2, Problem: pr2}}
		if pr2 == "" && inFragment(&small) {
			if r2, e2 := runImpl(small); e2 == "" {
				if ast, prob := rbacToAST(r2); prob == "" {
					f.Coq = &FindingCase{Input: small, Impl: ast, Samples: []Sample{mkSample(&small, p, q, g2, w2)}}
				}
			}
		}
		findings = append(findings, f)
	}
	if problem := validateRegexes(r); problem != "" {
		st.Disagreements++
		report(&conns[0], &reqs[0], "", problem)
		return
	}
	tabs, problem := tabulateRBAC(r, conns, reqs)
	if problem != "" {
		st.Disagreements++
		report(&conns[0], &reqs[0], "", problem)
		return
	}
	// the counterfactual input of the proposed repair
	red := dropShadowed(in)
	rRed, tabsRed := r, tabs
	if len(red.Ixns) != len(in.Ixns) {
		if rr, e2 := runImpl(red); e2 == "" && validateRegexes(rr) == "" {
			if tt, pr := tabulateRBAC(rr, conns, reqs); pr == "" {
				rRed, tabsRed = rr, tt
			}
		}
	}
	sampling := wantCoq && inFragment(in)
	total := len(conns) * len(reqs)
	stride := total/4 + 1
	offset := (len(in.Ixns)*7 + len(conns)) % stride
	nDis := 0
	for ci := range conns {
		// which intention decides for this connection does not depend on the request
		k := decider(in, sorted, &conns[ci], mode, nil)
		for qi := range reqs {
			want := decideReq(in, sorted, k, &reqs[qi])
			got := verdictFromTabs(r, tabs, ci, qi, false)
			st.Evals++
			if sampling && ((ci*len(reqs)+qi)%stride == offset || (got != want && nDis < 2)) {
				st.Samples = append(st.Samples, mkSample(in, &conns[ci], &reqs[qi], got, want))
			}
			if got != want {
				nDis++
				st.Disagreements++
				cause := causeOf(want, verdictFromTabs(rRed, tabsRed, ci, qi, false),
					verdictFromTabs(r, tabs, ci, qi, true), verdictFromTabs(rRed, tabsRed, ci, qi, true))
				if cause == "" {
					cause = clusterFieldCause(in, sorted, &conns[ci], &reqs[qi], mode, got)
				}
				st.ByCause[cause]++
				report(&conns[ci], &reqs[qi], cause, "")
			}
		}
	}
	return
}

// referenceSelfCheck: on L4 decisions the harness's reference must agree with consul's own
// state.Store.IntentionDecision (first match in precedence order).
var decisionStore = state.NewStateStore(nil)

func referenceSelfCheck(in *Input) string {
	sorted := sortedIxns(in)
	for _, n := range callerNames(in) {
		for _, peer := range []string{"", "peer1"} {
			td, ap := in.TD, "default"
			if peer != "" {
				ok := false
				for _, b := range in.Bundles {
					if b.Peer == peer {
						td, ap, ok = b.TD, lowerOrDefault(b.ExpAP), true
					}
				}
				if !ok {
					continue
				}
			}
			p := &Presented{TLS: Ident{"service", td, ap, "default", "dc1", n}}
			q := &Req{Path: "/", Headers: map[string]string{":method": "GET"}}
			in2 := *in
			in2.HTTP = false
			want, k := reference(&in2, sorted, p, q, false, nil)
			d, err := decisionStore.IntentionDecision(state.IntentionDecisionOpts{Target: n, Namespace: "default", Partition: "",
				Peer: peer, Intentions: structs.SimplifiedIntentions(sorted), MatchType: structs.IntentionMatchSource,
				DefaultAllow: in.DefaultAllow, AllowPermissions: false})
			if err != nil {
				return "IntentionDecision: " + err.Error()
			}
			if d.Allowed != want {
				return fmt.Sprintf("reference %v (by #%d) vs consul IntentionDecision %v for caller %s peer %q", want, k, d.Allowed, n, peer)
			}
		}
	}
	return ""
}

// the filters attached by listeners.go wrap exactly these rules
func filtersWrapRules(in *Input, r *envoy_rbac_v3.RBAC) string {
	if in.HTTP {
		f, err := xds.VerifMakeRBACHTTPFilter(in.structsIxns(), in.DefaultAllow, in.local(), in.bundles())
		if err != nil {
			return "http filter: " + err.Error()
		}
		tc, ok := f.ConfigType.(*envoy_http_v3.HttpFilter_TypedConfig)
		if !ok || f.Name != "envoy.filters.http.rbac" {
			return "http filter: unexpected shape"
		}
		var cfg envoy_http_rbac_v3.RBAC
		if err := tc.TypedConfig.UnmarshalTo(&cfg); err != nil {
			return "http filter: " + err.Error()
		}
		if !proto.Equal(cfg.Rules, r) || cfg.ShadowRules != nil {
			return "http filter does not carry the rules"
		}
		return ""
	}
	f, err := xds.VerifMakeRBACNetworkFilter(in.structsIxns(), in.DefaultAllow, in.local(), in.bundles())
	if err != nil {
		return "network filter: " + err.Error()
	}
	tc, ok := f.ConfigType.(*envoy_listener_v3.Filter_TypedConfig)
	if !ok || f.Name != "envoy.filters.network.rbac" {
		return "network filter: unexpected shape"
	}
	var cfg envoy_network_rbac_v3.RBAC
	if err := tc.TypedConfig.UnmarshalTo(&cfg); err != nil {
		return "network filter: " + err.Error()
	}
	if !proto.Equal(cfg.Rules, r) || cfg.ShadowRules != nil {
		return "network filter does not carry the rules"
	}
	return ""
}

// ---------------------------------------------------------------------------------- cases

type Case struct {
	ID       int       `json:"id"`
	Kind     string    `json:"kind"`
	ToCoq    bool      `json:"to_coq"`
	Input    Input     `json:"input"`
	Impl     *RbacAST  `json:"impl"`
	ImplErr  string    `json:"impl_err"` // error/panic of the implementation or unrepresentable output
	Oracle   string    `json:"oracle"`   // "" | "skipped" | "findings"
	Findings []Finding `json:"findings"`
	Problems []string  `json:"problems"` // harness self-checks that failed (reference vs consul, filters)
	Conns    int       `json:"conns"`
	Reqs     int       `json:"reqs"`
	Evals    int       `json:"evals"`
	Disagree int       `json:"disagreements"`
	ByCause  map[string]int `json:"disagreements_by_cause"`
	Samples  []Sample  `json:"samples"`
}

func process(c *Case, withOracle bool) {
	in := &c.Input
	r, errs := runImpl(*in)
	c.Findings, c.Problems, c.Samples = []Finding{}, []string{}, []Sample{}
	if errs != "" {
		c.ImplErr = errs
		c.Oracle = "skipped"
		return
	}
	ast, problem := rbacToAST(r)
	c.Impl, c.ImplErr = ast, problem
	if msg := filtersWrapRules(in, r); msg != "" {
		c.Problems = append(c.Problems, msg)
	}
	if !withOracle {
		c.Oracle = "skipped"
		return
	}
	if msg := referenceSelfCheck(in); msg != "" {
		c.Problems = append(c.Problems, msg)
	}
	fs, st := oracle(in, r, c.ToCoq)
	c.Conns, c.Reqs, c.Evals, c.Disagree, c.ByCause = st.Conns, st.Reqs, st.Evals, st.Disagreements, st.ByCause
	if c.ToCoq && st.Samples != nil {
		c.Samples = st.Samples
	}
	if len(fs) > 0 {
		c.Oracle = "findings"
		c.Findings = fs
	}
}

// ---------------------------------------------------------------------------------- generators

const localTD = "11111111-2222-3333-4444-555555555555.consul"
const peer1TD = "aaaaaaaa-bbbb-cccc-dddd-eeeeeeeeeeee.consul"
const peer2TD = "99999999-8888-7777-6666-555555555555.consul"

func precedenceOf(src, dst string) int {
	x := &structs.Intention{SourceNS: "default", SourceName: src, DestinationNS: "default", DestinationName: dst}
	//nolint:staticcheck
	x.UpdatePrecedence()
	return x.Precedence
}

func mkIxn(src, peer, dst, action string, perms []Perm) Ixn {
	if perms == nil {
		perms = []Perm{}
	}
	return Ixn{SrcPeer: peer, SrcAP: "", SrcNS: "default", SrcName: src, DstAP: "", DstNS: "default", DstName: dst,
		Action: action, Perms: perms, Prec: precedenceOf(src, dst)}
}

func httpPerm(action string, h HTTP) Perm {
	if h.Header == nil {
		h.Header = []Hdr{}
	}
	if h.Methods == nil {
		h.Methods = []string{}
	}
	return Perm{Action: action, HTTP: &h}
}

var l7Variants = [][]Perm{
	{httpPerm("allow", HTTP{PathExact: "/v1/secret"})},
	{httpPerm("deny", HTTP{PathPrefix: "/admin"}), httpPerm("allow", HTTP{PathPrefix: "/"})},
	{httpPerm("allow", HTTP{PathRegex: "/v[12]/.*", Methods: []string{"GET", "POST"}}),
		httpPerm("deny", HTTP{Header: []Hdr{{Name: "x-debug", Present: true}}})},
	{httpPerm("deny", HTTP{Header: []Hdr{{Name: "x-internal", Exact: "yes", Invert: true}, {Name: "x-team", Suffix: "-ops"}}}),
		httpPerm("allow", HTTP{PathPrefix: "/", Header: []Hdr{{Name: "x-trace", Contains: "abc", IgnoreCase: true}}})},
	{httpPerm("allow", HTTP{Header: []Hdr{{Name: "X-Role", Exact: "admin", IgnoreCase: true}}}),
		httpPerm("deny", HTTP{Methods: []string{"DELETE"}})},
}

func baseInput(bundles bool) Input {
	in := Input{TD: localTD, DC: "dc1", AP: "default", Bundles: []Bundle{}, Ixns: []Ixn{}}
	if bundles {
		in.Bundles = []Bundle{{Peer: "peer1", TD: peer1TD, ExpAP: "part1"}}
	}
	return in
}

type atom struct {
	src, peer, dst string
	kind           int // 0 deny 1 allow 2.. L7 variant
}

func (a atom) ixn() Ixn {
	switch a.kind {
	case 0:
		return mkIxn(a.src, a.peer, a.dst, "deny", nil)
	case 1:
		return mkIxn(a.src, a.peer, a.dst, "allow", nil)
	}
	return mkIxn(a.src, a.peer, a.dst, "", l7Variants[a.kind-2])
}

func atoms(nVariants int) []atom {
	var out []atom
	for _, src := range []string{"web", "api", "web.v1", "*"} {
		for _, peer := range []string{"", "peer1"} {
			for _, dst := range []string{"db", "*"} {
				out = append(out, atom{src, peer, dst, 0}, atom{src, peer, dst, 1})
				if dst == "db" { // permissions are not accepted on wildcard destinations
					for v := 0; v < nVariants; v++ {
						out = append(out, atom{src, peer, dst, 2 + v})
					}
				}
			}
		}
	}
	return out
}

func sameTriple(a, b atom) bool { return a.src == b.src && a.peer == b.peer && a.dst == b.dst }

type gen struct {
	rng   *rand.Rand
	cases []*Case
	orac  []bool
}

func (g *gen) add(kind string, in Input, toCoq, withOracle bool) {
	if in.Ixns == nil {
		in.Ixns = []Ixn{}
	}
	if in.Bundles == nil {
		in.Bundles = []Bundle{}
	}
	g.cases = append(g.cases, &Case{ID: len(g.cases), Kind: kind, ToCoq: toCoq, Input: in})
	g.orac = append(g.orac, withOracle)
}

// exhaustive: every valid intention set up to the given size over the atoms, both defaults, TCP and HTTP
func (g *gen) exhaustive(maxSize, nVariants int, coqEvery int) {
	at := atoms(nVariants)
	n := 0
	emit := func(sel []atom) {
		anyPeer := false
		var ixns []Ixn
		for _, a := range sel {
			ixns = append(ixns, a.ixn())
			if a.peer != "" {
				anyPeer = true
			}
		}
		// present in a shuffled order: the translator must sort
		g.rng.Shuffle(len(ixns), func(i, j int) { ixns[i], ixns[j] = ixns[j], ixns[i] })
		for _, da := range []bool{false, true} {
			for _, http := range []bool{false, true} {
				in := baseInput(anyPeer)
				in.Ixns, in.DefaultAllow, in.HTTP = ixns, da, http
				n++
				g.add(fmt.Sprintf("exhaustive-%d", len(sel)), in, n%coqEvery == 0, true)
			}
		}
	}
	emit(nil)
	for i := range at {
		emit([]atom{at[i]})
		if maxSize < 2 {
			continue
		}
		for j := i + 1; j < len(at); j++ {
			if sameTriple(at[i], at[j]) {
				continue
			}
			emit([]atom{at[i], at[j]})
			if maxSize < 3 {
				continue
			}
			for k := j + 1; k < len(at); k++ {
				if sameTriple(at[i], at[k]) || sameTriple(at[j], at[k]) {
					continue
				}
				emit([]atom{at[i], at[j], at[k]})
			}
		}
	}
}

func (g *gen) pick(l []string) string { return l[g.rng.Intn(len(l))] }

func (g *gen) randomHdr() Hdr {
	h := Hdr{Name: g.pick([]string{"x-role", "X-Debug", "x-tenant"})}
	switch g.rng.Intn(6) {
	case 0:
		h.Present = true
	case 1:
		h.Exact = g.pick([]string{"admin", "Blue"})
	case 2:
		h.Prefix = g.pick([]string{"adm", "Bl"})
	case 3:
		h.Suffix = g.pick([]string{"min", "ue"})
	case 4:
		h.Contains = g.pick([]string{"dmi", "lu"})
	case 5:
		h.Regex = g.pick([]string{"ab[cd]", "a.c"})
	}
	if h.Regex == "" && !h.Present && g.rng.Intn(3) == 0 {
		h.IgnoreCase = true
	}
	if g.rng.Intn(4) == 0 {
		h.Invert = true
	}
	return h
}

func (g *gen) randomPerm() Perm {
	h := HTTP{}
	switch g.rng.Intn(5) {
	case 0:
		h.PathExact = g.pick([]string{"/v1/secret", "/healthz", "/admin"})
	case 1:
		h.PathPrefix = g.pick([]string{"/", "/admin", "/v1"})
	case 2:
		h.PathRegex = g.pick([]string{"/v[12]/.*", "/v1/[a-z]+"})
	}
	nh := g.rng.Intn(3)
	if nh == 2 && g.rng.Intn(2) == 0 {
		nh = 0
	}
	for i := 0; i < nh; i++ {
		h.Header = append(h.Header, g.randomHdr())
	}
	if g.rng.Intn(3) == 0 {
		ms := []string{"GET", "POST", "DELETE", "PUT"}
		g.rng.Shuffle(len(ms), func(i, j int) { ms[i], ms[j] = ms[j], ms[i] })
		h.Methods = ms[:1+g.rng.Intn(2)]
	}
	if h.PathExact == "" && h.PathPrefix == "" && h.PathRegex == "" && len(h.Header) == 0 && len(h.Methods) == 0 {
		h.PathPrefix = "/"
	}
	return httpPerm(g.pick([]string{"allow", "deny"}), h)
}

// random: larger valid sets, two peers (peer2 sometimes without a trust bundle), richer permissions
func (g *gen) random(n int, coqEvery int, names []string) {
	for c := 0; c < n; c++ {
		size := 2 + g.rng.Intn(5)
		seen := map[string]bool{}
		var ixns []Ixn
		anyPeer := false
		for len(ixns) < size {
			src := g.pick(names)
			peer := g.pick([]string{"", "", "", "peer1", "peer2"})
			dst := g.pick([]string{"db", "db", "*"})
			k := src + "|" + peer + "|" + dst
			if seen[k] {
				size--
				continue
			}
			seen[k] = true
			var x Ixn
			switch r := g.rng.Intn(10); {
			case r < 4:
				x = mkIxn(src, peer, dst, "allow", nil)
			case r < 7 || dst == "*":
				x = mkIxn(src, peer, dst, "deny", nil)
			default:
				var ps []Perm
				for i := 0; i < 1+g.rng.Intn(3); i++ {
					ps = append(ps, g.randomPerm())
				}
				x = mkIxn(src, peer, dst, "", ps)
			}
			if peer != "" {
				anyPeer = true
			}
			ixns = append(ixns, x)
		}
		in := baseInput(false)
		if anyPeer || g.rng.Intn(4) == 0 {
			in.Bundles = []Bundle{{Peer: "peer1", TD: peer1TD, ExpAP: g.pick([]string{"part1", "", "default", "Part1"})}}
			if g.rng.Intn(2) == 0 {
				in.Bundles = append(in.Bundles, Bundle{Peer: "peer2", TD: peer2TD, ExpAP: ""})
			}
			if g.rng.Intn(6) == 0 {
				in.Bundles = nil // bundles not delivered yet
			}
		}
		in.Ixns, in.DefaultAllow, in.HTTP = ixns, g.rng.Intn(2) == 0, g.rng.Intn(3) != 0
		g.add("random", in, c%coqEvery == 0, true)
	}
}

// malformed: inputs a store would not hand over, or odd but representable ones.  Compared
// structurally only (the precedence reference is defined for valid intention lists).
func (g *gen) malformed(n int) {
	for c := 0; c < n; c++ {
		in := baseInput(g.rng.Intn(2) == 0)
		size := g.rng.Intn(5)
		for i := 0; i < size; i++ {
			src := g.pick([]string{"web", "api", "*", "web.v1", "a|b", "c++"})
			peer := g.pick([]string{"", "", "peer1", "ghost"})
			dst := g.pick([]string{"db", "*"})
			x := mkIxn(src, peer, dst, g.pick([]string{"allow", "deny", "", "ALLOW", "bogus"}), nil)
			switch g.rng.Intn(8) {
			case 0: // duplicate of an earlier one with another action
				if len(in.Ixns) > 0 {
					x = in.Ixns[g.rng.Intn(len(in.Ixns))]
					x.Action = g.pick([]string{"allow", "deny"})
				}
			case 1: // arbitrary precedence
				x.Prec = g.rng.Intn(10)
			case 2: // permissions on a wildcard destination, action AND permissions
				x.Perms = []Perm{g.randomPerm()}
			case 3: // permission without HTTP, empty http{}, header with nothing set, odd action
				x.Action = ""
				x.Perms = []Perm{{Action: g.pick([]string{"allow", "deny", ""}), HTTP: nil},
					httpPerm("allow", HTTP{}),
					httpPerm(g.pick([]string{"deny", "Deny"}), HTTP{Header: []Hdr{{Name: "x-none"}, {Name: "x-two", Exact: "a", Prefix: "b", Present: true}}}),
					httpPerm("allow", HTTP{PathExact: "/a", PathPrefix: "/b", PathRegex: "/c", Methods: []string{"get", "A|B"}})}
			case 4:
				x.Perms = []Perm{g.randomPerm(), g.randomPerm(), g.randomPerm(), g.randomPerm()}
			}
			in.Ixns = append(in.Ixns, x)
		}
		if g.rng.Intn(5) == 0 && len(in.Bundles) > 0 { // the same peer name twice: the later bundle wins
			in.Bundles = append(in.Bundles, Bundle{Peer: "peer1", TD: peer2TD, ExpAP: "second"})
		}
		in.DefaultAllow, in.HTTP = g.rng.Intn(2) == 0, g.rng.Intn(2) == 0
		g.add("malformed", in, true, false)
	}
}

// store: the list is collected the way proxycfg collects it: service-intentions config entries in
// a real state store, IntentionMatchOne(destination) for the destination "db".
func (g *gen) store(n int) {
	for c := 0; c < n; c++ {
		s := state.NewStateStore(nil)
		if err := s.SystemMetadataSet(1, &structs.SystemMetadataEntry{Key: structs.SystemMetadataIntentionFormatKey,
			Value: structs.SystemMetadataIntentionFormatConfigValue}); err != nil {
			panic(err)
		}
		for i, n := range []string{"db", "other"} {
			if err := s.EnsureConfigEntry(uint64(2+i), &structs.ServiceConfigEntry{Kind: structs.ServiceDefaults, Name: n, Protocol: "http"}); err != nil {
				panic(err)
			}
		}
		anyPeer := false
		idx := uint64(10)
		for _, dst := range []string{"db", "*", "other"} {
			e := &structs.ServiceIntentionsConfigEntry{Kind: structs.ServiceIntentions, Name: dst}
			seen := map[string]bool{}
			for i := 0; i < g.rng.Intn(4); i++ {
				src := g.pick([]string{"web", "api", "web.v1", "*"})
				peer := g.pick([]string{"", "", "peer1"})
				if seen[src+"|"+peer] {
					continue
				}
				seen[src+"|"+peer] = true
				si := &structs.SourceIntention{Name: src, Peer: peer}
				switch r := g.rng.Intn(10); {
				case r < 4:
					si.Action = structs.IntentionActionAllow
				case r < 8 || dst == "*":
					si.Action = structs.IntentionActionDeny
				default:
					for _, p := range l7Variants[g.rng.Intn(len(l7Variants))] {
						si.Permissions = append(si.Permissions, Ixn{Perms: []Perm{p}}.toStruct().Permissions[0])
					}
				}
				if peer != "" {
					anyPeer = true
				}
				e.Sources = append(e.Sources, si)
			}
			if len(e.Sources) == 0 {
				continue
			}
			if err := e.Normalize(); err != nil {
				panic(err)
			}
			if err := e.Validate(); err != nil {
				panic(fmt.Sprintf("generated entry rejected: %v", err))
			}
			idx++
			if err := s.EnsureConfigEntry(idx, e); err != nil {
				panic(err)
			}
		}
		_, matched, err := s.IntentionMatchOne(nil, structs.IntentionMatchEntry{Namespace: "default", Name: "db"},
			structs.IntentionMatchDestination, structs.IntentionTargetService)
		if err != nil {
			panic(err)
		}
		in := baseInput(anyPeer)
		for _, x := range matched {
			in.Ixns = append(in.Ixns, fromStruct(x))
		}
		in.DefaultAllow, in.HTTP = g.rng.Intn(2) == 0, g.rng.Intn(2) == 0
		g.add("store", in, true, true)
	}
}

// oddCluster: a peer whose exported partition contains a regex metacharacter (spliced unquoted)
func (g *gen) oddCluster(n int) {
	for c := 0; c < n; c++ {
		in := baseInput(false)
		in.Bundles = []Bundle{{Peer: "peer1", TD: peer1TD, ExpAP: "part.1"}}
		in.Ixns = []Ixn{mkIxn(g.pick([]string{"web", "*"}), "peer1", "db", g.pick([]string{"allow", "deny"}), nil)}
		if g.rng.Intn(2) == 0 {
			in.Ixns = append(in.Ixns, mkIxn("api", "", "db", g.pick([]string{"allow", "deny"}), nil))
		}
		in.DefaultAllow, in.HTTP = g.rng.Intn(2) == 0, g.rng.Intn(2) == 0
		g.add("odd-cluster", in, c%2 == 0, true)
	}
}

// fixed: the catalogue of the upstream golden tests' shapes and the two witnesses
func (g *gen) fixed() {
	for _, da := range []bool{false, true} {
		for _, http := range []bool{false, true} {
			in := baseInput(false)
			in.Ixns = []Ixn{mkIxn("*", "", "web", "deny", nil), mkIxn("api", "", "*", "allow", nil)}
			in.DefaultAllow, in.HTTP = da, http
			g.add("witness-superset", in, true, true)
			in = baseInput(false)
			in.Ixns = []Ixn{mkIxn("web.v1", "", "db", "allow", nil)}
			in.DefaultAllow, in.HTTP = da, http
			g.add("witness-regex", in, true, true)
			in = baseInput(false)
			in.Ixns = []Ixn{mkIxn("web", "", "db", "", []Perm{
				httpPerm("deny", HTTP{Header: []Hdr{{Name: "x-internal", Exact: "yes", Invert: true}}}),
				httpPerm("allow", HTTP{PathPrefix: "/"})})}
			in.DefaultAllow, in.HTTP = da, http
			g.add("witness-inverted-header", in, true, true)
			in = baseInput(true)
			in.Ixns = []Ixn{mkIxn("web", "", "db", "allow", nil), mkIxn("*", "", "db", "deny", nil), mkIxn("web", "", "*", "deny", nil),
				mkIxn("api", "peer1", "db", "", l7Variants[1]), mkIxn("*", "peer1", "db", "deny", nil)}
			in.DefaultAllow, in.HTTP = da, http
			g.add("kitchen-sink", in, true, true)
		}
	}
}

// ---------------------------------------------------------------------------------- tabulation of the finite helpers

type tabRow struct {
	TName string `json:"t_name"`
	TPeer string `json:"t_peer"`
	AName string `json:"a_name"`
	APeer string `json:"a_peer"`
	Match bool   `json:"match"`
	TWild int    `json:"t_wild"`
}

func tabulate() []tabRow {
	var rows []tabRow
	names := []string{"web", "api", "web.v1", "*"}
	peers := []string{"", "peer1", "peer2"}
	for _, tn := range names {
		for _, tp := range peers {
			for _, an := range names {
				for _, ap := range peers {
					rows = append(rows, tabRow{tn, tp, an, ap, xds.VerifIxnSourceMatches(tn, tp, an, ap), xds.VerifCountWild(tn, tp)})
				}
			}
		}
	}
	return rows
}

// ---------------------------------------------------------------------------------- main

func replay(path string) int {
	b, err := os.ReadFile(path)
	if err != nil {
		fmt.Println(err)
		return 2
	}
	var doc struct {
		Replay *Replay `json:"replay"`
	}
	var rp Replay
	if err := json.Unmarshal(b, &doc); err == nil && doc.Replay != nil {
		rp = *doc.Replay
	} else if err := json.Unmarshal(b, &rp); err != nil {
		fmt.Println(err)
		return 2
	}
	in := rp.Input
	r, errs := runImpl(in)
	if errs != "" {
		fmt.Println("implementation:", errs)
		return 1
	}
	ast, _ := rbacToAST(r)
	js, _ := json.MarshalIndent(ast, "", " ")
	fmt.Println(string(js))
	d, got, want, cause, problem := diagnose(&in, &rp.Presented, &rp.Req)
	fmt.Printf("connection tls=%s xfcc=%q request=%v\nrbac allows: %v   precedence allows: %v   cause=%q %s\n",
		rp.Presented.conn().TLS, rp.Presented.conn().XFCC, rp.Req, got, want, cause, problem)
	if d {
		fmt.Println("DISAGREE")
		return 1
	}
	fmt.Println("agree")
	return 0
}

func main() {
	seed := flag.Int64("seed", 1, "")
	tier := flag.String("tier", "quick", "")
	out := flag.String("out", "", "")
	rp := flag.String("replay", "", "")
	jobs := flag.Int("jobs", 6, "")
	flag.Parse()
	if *rp != "" {
		os.Exit(replay(*rp))
	}
	g := &gen{rng: rand.New(rand.NewSource(*seed))}
	g.fixed()
	names := []string{"web", "api", "web.v1", "db2", "*", "*"}
	if *tier == "thorough" {
		g.exhaustive(3, 4, 71)
		g.random(6000, 8, names)
		g.random(600, 3, append(names, "a|b", "c++"))
		g.malformed(1200)
		g.store(1200)
		g.oddCluster(120)
	} else {
		g.exhaustive(2, 4, 37)
		g.random(1200, 10, names)
		g.random(200, 4, append(names, "a|b", "c++", "x(y", "web.v1"))
		g.malformed(120)
		g.store(90)
		g.oddCluster(24)
	}
	// run (bounded parallelism)
	var wg sync.WaitGroup
	ch := make(chan int)
	for w := 0; w < *jobs; w++ {
		wg.Add(1)
		go func() {
			defer wg.Done()
			for i := range ch {
				process(g.cases[i], g.orac[i])
			}
		}()
	}
	for i := range g.cases {
		ch <- i
	}
	close(ch)
	wg.Wait()

	f, err := os.Create(*out)
	if err != nil {
		panic(err)
	}
	w := bufio.NewWriterSize(f, 1<<20)
	enc := json.NewEncoder(w)
	if err := enc.Encode(map[string]any{"tab": tabulate()}); err != nil {
		panic(err)
	}
	for _, c := range g.cases {
		if err := enc.Encode(c); err != nil {
			panic(err)
		}
	}
	w.Flush()
	f.Close()
}
