#!/usr/bin/env python3
"""Re-assembles DESIGN.md section 11.4 from design/*.md (each written by the builder of that property)."""
import os, re, glob
V = os.path.dirname(os.path.dirname(os.path.abspath(__file__)))
p = os.path.join(V, "DESIGN.md")
s = open(p).read()
B, E = "<!-- BEGIN AS-BUILT PER PROPERTY -->", "<!-- END AS-BUILT PER PROPERTY -->"
assert B in s and E in s
order = ["C01", "C02", "C03-C05"] + ["C%02d" % i for i in range(6, 21)]
parts = []
for name in order:
    f = os.path.join(V, "design", name + ".md")
    t = open(f).read().strip()
    # demote headings so that the per-property notes nest under 11.4
    t = re.sub(r"(?m)^(#+) ", lambda m: "#" * min(6, len(m.group(1)) + 2) + " ", t)
    parts.append(t)
i, j = s.index(B) + len(B), s.index(E)
s = s[:i] + "\n\n" + "\n\n".join(parts) + "\n\n" + s[j:]
open(p, "w").write(s)
print("assembled", len(parts), "notes,", sum(len(x) for x in parts), "chars")
