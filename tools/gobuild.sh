#!/bin/bash
# usage: tools/gobuild.sh <harness-name> [race]    builds /verif/harness/<name> inside /repo's module (overlay, -tags verif)
cd "$(dirname "$0")/.."
python3 - "$@" <<'PY'
import sys
sys.path.insert(0, "tools")
import vlib
try:
    print(vlib.go_build(sys.argv[1], race=len(sys.argv) > 2))
except vlib.BuildError as e:
    print(str(e)[-6000:]); sys.exit(1)
PY
