#!/usr/bin/env python3
"""Tree-wide hygiene: no Admitted/admit/Axiom/Parameter/Conjecture/guard switches anywhere under coq/."""
import sys, os
sys.path.insert(0, os.path.dirname(os.path.abspath(__file__)))
import vlib
bad = vlib.coq_hygiene()
print("\n".join(bad) if bad else "clean")
sys.exit(1 if bad else 0)
