#!/usr/bin/env python3
"""Assembles MANIFEST.json from checks/*.manifest.json; every property without one is listed under
not_applicable with the reason found in checks/not_applicable.json (or a default)."""
import glob, json, os
V = os.path.dirname(os.path.dirname(os.path.abspath(__file__)))
props = [json.loads(l)["id"] for l in open(os.path.join(V, "properties.jsonl"))]
base = json.load(open("/root/.vp/BASELINE.json"))
# checks/claimed.txt: the properties whose checks are finished and reviewed (one id per line)
claimed = set(open(os.path.join(V, "checks", "claimed.txt")).read().split())
checks = {}
for f in sorted(glob.glob(os.path.join(V, "checks", "C*.manifest.json"))):
    c = json.load(open(f))
    if c["property_id"] in claimed:
        checks[c["property_id"]] = c
na_file = os.path.join(V, "checks", "not_applicable.json")
na_reasons = json.load(open(na_file)) if os.path.exists(na_file) else {}
man = {
    "version": 1,
    "setup_cmd": "tools/setup.sh",
    "hooks": {
        "guard": "verif",
        "enable": "go1.26.8 build -tags verif -overlay /verif/build/overlay.json  (hook files /verif/hooks/<pkg>/zz_verif_*.go, all '//go:build verif', are injected into their package by the build overlay; no tracked file of /repo is changed, so there are no hook commits in /repo)",
        "baseline_off_cmd": base["cmd"],
        "source_commits": [],
        "add_only": True,
    },
    "engines": [
        {"name": "rocq-models", "path": "coq/", "serves_properties": sorted(checks),
         "kind_free_text": "hand-written Gallina models + kernel-checked theorems (Coq 8.16.1); models evaluated by vm_compute on the cases the implementation ran"},
        {"name": "go-harness", "path": "harness/", "serves_properties": sorted(checks),
         "kind_free_text": "Go programs compiled into /repo's module by build overlay (-tags verif); run the implementation on generated cases and a model-independent oracle"},
    ],
    "checks": [checks[p] for p in props if p in checks],
    "notes": "See DESIGN.md. ./check Cxx --tier quick|thorough ; env VERIF_SEED. known_findings.json lists recorded genuine defects.",
    "not_applicable": [{"property_id": p, "reason": na_reasons.get(p, "not yet built in this revision (planned: DESIGN.md section 6); a property is claimed only when its theorem file and its harness both exist")}
                       for p in props if p not in checks],
}
json.dump(man, open(os.path.join(V, "MANIFEST.json"), "w"), indent=1)
print("claimed:", " ".join(p for p in props if p in checks))
