#!/bin/bash
# usage: coqat.sh File.v LINE  -- compile File.v truncated after LINE and show goals
f=$1; n=$2
sed -n "1,${n}p" "$f" > /tmp/coqat_$$.v
echo "Show." >> /tmp/coqat_$$.v
cd /verif/coq && coqc -Q . Verif /tmp/coqat_$$.v 2>&1 | grep -v '^Error: There are pending' | tail -${3:-40}
rm -f /tmp/coqat_$$.v /tmp/coqat_$$.vo /tmp/coqat_$$.glob /tmp/.coqat_$$.aux
