#!/usr/bin/env python3
"""Regenerates the generated tables of DESIGN.md (between the BEGIN/END GENERATED markers) from
/repo's fix: commits, known_findings.json and seeded/*/meta.json."""
import json, os, re, subprocess, glob
V = os.path.dirname(os.path.dirname(os.path.abspath(__file__)))
k = json.load(open(os.path.join(V, "known_findings.json")))["findings"]
log = subprocess.run(["git", "-C", "/repo", "log", "--format=%h %s"], stdout=subprocess.PIPE, text=True).stdout.strip().split("\n")
fixes = [l.split(" ", 1) for l in log if l.split(" ", 1)[1].startswith("fix:")]
by_commit = {}
for f in k:
    if f.get("status") == "fixed" and f.get("commit"):
        for c in re.findall(r"[0-9a-f]{7}", f["commit"] + " " + f.get("what", "")[:80]):
            by_commit.setdefault(c, set()).add(f["property"])
out = []
out.append("#### Repairs made in `/repo` (one `fix:` commit each, oldest first; the existing suite is unedited)\n")
out.append("| commit | properties | subject |\n|---|---|---|")
for h, s in reversed(fixes):
    out.append("| %s | %s | %s |" % (h, ", ".join(sorted(by_commit.get(h, []))) or "-", s[5:].replace("|", "\\|")))
out.append("\n#### Open findings (genuine defects of the tree as it stands, recorded not repaired)\n")
out.append("| property | signature | what fails |\n|---|---|---|")
for f in k:
    if f.get("status") == "open":
        sig = json.dumps(f.get("signature", {}), sort_keys=True)
        out.append("| %s | `%s` | %s |" % (f["property"], sig.replace("|", "\\|")[:140], f["what"][:260].replace("\n", " ").replace("|", "\\|")))
out.append("\n#### Seeded changes (written by fresh sub-agents from the property text only) and which check caught them\n")
out.append("| seed | property | change | needs | result |\n|---|---|---|---|---|")
for d in sorted(glob.glob(os.path.join(V, "seeded", "*"))):
    mf = os.path.join(d, "meta.json")
    if not os.path.exists(mf):
        continue
    m = json.load(open(mf))
    c = m.get("confirmed_by_main", {})
    out.append("| %s | %s | %s | %s | %s |" % (os.path.basename(d), m.get("property"), str(m.get("summary", ""))[:200].replace("|", "\\|").replace("\n", " "),
                                              str(m.get("needs", ""))[:160].replace("|", "\\|").replace("\n", " "),
                                              ("caught: " if c.get("caught") else "MISSED: ") + str(c.get("check_result", ""))[:220].replace("|", "\\|").replace("\n", " ")))
block = "\n".join(out)
p = os.path.join(V, "DESIGN.md")
s = open(p).read()
B, E = "<!-- BEGIN GENERATED TABLES -->", "<!-- END GENERATED TABLES -->"
if B not in s:
    s += "\n### 11.3 Generated tables (tools/mkdesign_tables.py)\n\n" + B + "\n" + E + "\n"
s = s[:s.index(B) + len(B)] + "\n" + block + "\n" + s[s.index(E):]
open(p, "w").write(s)
print("fixes", len(fixes), "open", sum(1 for f in k if f.get("status") == "open"))
