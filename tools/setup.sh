#!/bin/bash
# Run once after a fresh restore (offline): full Coq build, warm-up build of every harness.
set -e
cd "$(dirname "$0")/.."
export GOFLAGS=-mod=mod GOPROXY=off GOSUMDB=off GOTOOLCHAIN=local
# builds exactly what the claimed checks need (files of properties under construction are not touched)
timeout 3000 python3 tools/coqbuild.py >/dev/null || echo 'note: Coq build incomplete (see per-check proof stage)'
python3 - <<'PY'
import os, sys
sys.path.insert(0, "tools")
import vlib
from concurrent.futures import ThreadPoolExecutor
names = sorted(d for d in os.listdir("harness") if os.path.isdir(os.path.join("harness", d)))
def b(n):
    try:
        vlib.go_build(n); return (n, "ok")
    except Exception as e:
        return (n, "FAILED: " + str(e)[-500:])
with ThreadPoolExecutor(max_workers=8) as ex:
    for n, r in ex.map(b, names):
        print("harness", n, r)
PY
echo setup done
