#!/bin/bash
# Run once after a fresh restore (offline): full Coq build, warm-up build of every harness.
set -e
cd "$(dirname "$0")/.."
export GOFLAGS=-mod=mod GOPROXY=off GOSUMDB=off GOTOOLCHAIN=local
tools/mkcoq.sh
# -k: files of properties still under construction must not stop the build of the claimed ones;
# every check re-builds (and verifies) exactly the targets it needs.
timeout 3000 make -C coq -j16 -k >/dev/null 2>&1 || echo 'note: some Coq files did not build (see per-check proof stage)'
python3 - <<'PY'
import os, sys
sys.path.insert(0, "tools")
import vlib
from concurrent.futures import ThreadPoolExecutor
names = sorted(d for d in os.listdir("harness") if os.path.isdir(os.path.join("harness", d)))
def b(n):
    try:
        vlib.go_build(n); return (n, "ok")
    except Exception as e:
        return (n, "FAILED: " + str(e)[-500:])
with ThreadPoolExecutor(max_workers=4) as ex:
    for n, r in ex.map(b, names):
        print("harness", n, r)
PY
echo setup done
