#!/usr/bin/env python3
"""usage: coqbuild.py [targets...]   targets like Properties/C08.vo Run/C08.vo
Full .vo build (never -vos) of the given targets and exactly their transitive dependencies inside
coq/, through a coq_makefile-generated Makefile restricted to those files -- so a file another
property has under construction cannot break this build.  Without targets: everything the claimed
checks of MANIFEST.json need."""
import hashlib, json, os, re, subprocess, sys
V = os.path.dirname(os.path.dirname(os.path.abspath(__file__)))
COQ = os.path.join(V, "coq")
FLAGS = "-arg -w -arg -notation-overridden,-redundant-canonical-projection,-deprecated-hint-without-locality,-ambiguous-paths,-deprecated-instance-without-locality"

def deps_of(f, seen):
    if f in seen:
        return
    seen.add(f)
    txt = open(os.path.join(COQ, f), encoding="utf-8").read()
    txt = re.sub(r"\(\*.*?\*\)", " ", txt, flags=re.S)
    for m in re.finditer(r"From\s+Verif\s+Require\s+(?:Import\s+|Export\s+)?(.*?)\.\s", txt, flags=re.S):
        for mod in m.group(1).split():
            cand = mod.replace(".", "/") + ".v"
            if os.path.exists(os.path.join(COQ, cand)):
                deps_of(cand, seen)
    for m in re.finditer(r"Require\s+(?:Import\s+|Export\s+)?((?:Verif\.[\w.]+\s*)+)\.\s", txt):
        for mod in m.group(1).split():
            cand = mod[len("Verif."):].replace(".", "/") + ".v"
            if os.path.exists(os.path.join(COQ, cand)):
                deps_of(cand, seen)

def main():
    targets = sys.argv[1:]
    if not targets:
        man = json.load(open(os.path.join(V, "MANIFEST.json")))
        for c in man.get("checks", []):
            p = c["property_id"]
            targets.append("Properties/%s.vo" % p)
        for f in sorted(os.listdir(os.path.join(COQ, "Run"))):
            if f.endswith(".v"):
                targets.append("Run/" + f + "o")
    seen = set()
    for t in targets:
        v = t[:-1] if t.endswith(".vo") else t
        if not os.path.exists(os.path.join(COQ, v)):
            print("no such file: coq/" + v); sys.exit(2)
        deps_of(v, seen)
    files = sorted(seen)
    key = hashlib.sha1("\n".join(files).encode()).hexdigest()[:10]
    proj = os.path.join(COQ, "_CoqProject." + key)
    mk = "Makefile." + key
    content = "-Q . Verif\n" + FLAGS + "\n" + "\n".join(files) + "\n"
    if not os.path.exists(proj) or open(proj).read() != content or not os.path.exists(os.path.join(COQ, mk)):
        open(proj, "w").write(content)
        subprocess.run(["coq_makefile", "-f", "_CoqProject." + key, "-o", mk], cwd=COQ, check=True,
                       stdout=subprocess.DEVNULL)
    vo = [t if t.endswith(".vo") else t + "o" for t in targets]
    p = subprocess.run(["make", "-f", mk, "-j16"] + vo, cwd=COQ, stdout=subprocess.PIPE, stderr=subprocess.STDOUT, text=True)
    out = "\n".join(l for l in p.stdout.split("\n") if not l.startswith("make["))
    print(out[-8000:])
    sys.exit(p.returncode)

if __name__ == "__main__":
    main()
