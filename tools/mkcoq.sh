#!/bin/bash
# Regenerates coq/_CoqProject (all .v files except gen/) and coq/Makefile. Idempotent.
set -e
cd "$(dirname "$0")/../coq"
{
  echo "-Q . Verif"
  echo "-arg -w -arg -notation-overridden,-redundant-canonical-projection,-deprecated-hint-without-locality,-ambiguous-paths,-deprecated-instance-without-locality"
  find . -name '*.v' -not -path './gen/*' | sed 's|^\./||' | LC_ALL=C sort
} > _CoqProject.new
if ! cmp -s _CoqProject.new _CoqProject 2>/dev/null || [ ! -f Makefile ]; then
  mv _CoqProject.new _CoqProject
  coq_makefile -f _CoqProject -o Makefile >/dev/null
else
  rm -f _CoqProject.new
fi
