#!/bin/bash
# usage: tools/coqmake.sh [targets...]   e.g. tools/coqmake.sh Properties/C08.vo Run/C08.vo
# Serialised (flock) full .vo build of the given targets (all files when none given).
cd "$(dirname "$0")/.."
mkdir -p build
exec flock build/coq.lock bash -c 'tools/mkcoq.sh && timeout 3000 make -C coq -j16 "$@" 2>&1 | grep -v "^make\[" | tail -60; exit ${PIPESTATUS[0]}' _ "$@"
