#!/bin/bash
# usage: tools/coqmake.sh [targets...]   e.g. tools/coqmake.sh Properties/C08.vo Run/C08.vo
# Serialised (flock) full .vo build of the given targets and exactly their dependencies (see coqbuild.py).
cd "$(dirname "$0")/.."
mkdir -p build
exec flock build/coq.lock timeout 3000 python3 tools/coqbuild.py "$@"
