"""Shared machinery for the per-property checks (see DESIGN.md section 4).

Every check:  build Coq (full .vo) -> build harness from /repo's working tree (overlay, -tags verif)
-> run implementation -> evaluate model on the same cases inside Coq (vm_compute) -> direct oracle
-> verdict, evidence.
"""
import fcntl
import hashlib
import json
import os
import re
import subprocess
import sys
import time
from concurrent.futures import ThreadPoolExecutor

VERIF = os.path.dirname(os.path.dirname(os.path.abspath(__file__)))
REPO = os.environ.get("VERIF_REPO", "/repo")
COQ = os.path.join(VERIF, "coq")
BUILD = os.environ.get("VERIF_BUILD") or (
    os.path.join(VERIF, "build") if REPO == "/repo"
    else os.path.join(VERIF, "build", "alt-" + hashlib.sha1(REPO.encode()).hexdigest()[:8]))
GEN = os.path.join(COQ, "gen")
GO = "go1.26.8"
GOENV = dict(os.environ, GOFLAGS="-mod=mod", GOPROXY="off", GOSUMDB="off", GOTOOLCHAIN="local",
             CGO_ENABLED="0")

FORBIDDEN = re.compile(
    r"\b(Admitted|admit|Axiom|Axioms|Parameter|Parameters|Conjecture|Admit Obligations|"
    r"Unset Guard Checking|Unset Positivity Checking|Unset Universe Checking|bypass_check|"
    r"type-in-type|impredicative-set)\b")


def log(*a):
    print(*a, file=sys.stderr, flush=True)


def sh(cmd, cwd=None, env=None, timeout=None, check=False, stdin=None):
    p = subprocess.run(cmd, cwd=cwd, env=env, timeout=timeout, shell=isinstance(cmd, str),
                       stdout=subprocess.PIPE, stderr=subprocess.STDOUT, input=stdin, text=True)
    if check and p.returncode != 0:
        raise RuntimeError("command failed (%s): %s\n%s" % (p.returncode, cmd, p.stdout[-4000:]))
    return p.returncode, p.stdout


class Lock:
    def __init__(self, name):
        os.makedirs(BUILD, exist_ok=True)
        self.path = os.path.join(BUILD, name + ".lock")

    def __enter__(self):
        self.f = open(self.path, "w")
        fcntl.flock(self.f, fcntl.LOCK_EX)
        return self

    def __exit__(self, *a):
        fcntl.flock(self.f, fcntl.LOCK_UN)
        self.f.close()


# ------------------------------------------------------------------ Coq

def coq_hygiene(files=None):
    """No Admitted/admit/Axiom/Parameter/... in the given files of coq/ (default: every .v file
    outside gen/). Each check passes the dependency closure of its own property file, so a file
    another property still has under construction cannot fail it; tools/hygiene_all.py covers the tree."""
    bad = []
    if files is None:
        files = []
        for root, _, fs in os.walk(COQ):
            if os.path.abspath(root).startswith(os.path.abspath(GEN)):
                continue
            files += [os.path.relpath(os.path.join(root, f), COQ) for f in fs if f.endswith(".v")]
    for f in sorted(files):
        p = os.path.join(COQ, f)
        txt = open(p, encoding="utf-8").read()
        txt = re.sub(r"\(\*.*?\*\)", lambda m: re.sub(r"[^\n]", " ", m.group(0)), txt, flags=re.S)
        for i, line in enumerate(txt.split("\n"), 1):
            if FORBIDDEN.search(line):
                bad.append("%s:%d: %s" % (os.path.join("coq", f), i, line.strip()))
    return bad


def coq_make(targets=None, timeout=3000):
    """Full .vo build of the needed targets and exactly their dependencies (never -vos), through
    tools/coqbuild.py (a restricted coq_makefile Makefile). Returns (ok, log)."""
    with Lock("coq"):
        rc, out = sh(["python3", os.path.join(VERIF, "tools", "coqbuild.py")] + (targets or []), timeout=timeout)
        return rc == 0, out


def coq_deps(vfile):
    """Transitive .v dependencies of coq/<vfile> inside the Verif tree (including itself)."""
    sys.path.insert(0, os.path.join(VERIF, "tools"))
    import coqbuild
    seen = set()
    coqbuild.deps_of(vfile, seen)
    return sorted(seen)


STMT = re.compile(r"^\s*(?:Local\s+|Global\s+|#\[[^\]]*\]\s*)*(Theorem|Lemma|Corollary|Example|Fact|Proposition|Remark)\s+([\w']+)", re.M)


def coq_obligations(prop_file):
    """(count, names) of proved statements in prop_file and everything it depends on."""
    names = []
    for f in coq_deps(prop_file):
        txt = open(os.path.join(COQ, f), encoding="utf-8").read()
        for m in STMT.finditer(txt):
            names.append(f + ":" + m.group(2))
    return names


def coq_assumptions(prop_file, timeout=600):
    """Re-check the property file and return {theorem: 'closed' | [axioms]} from Print Assumptions."""
    txt = open(os.path.join(COQ, prop_file), encoding="utf-8").read()
    asked = re.findall(r"Print Assumptions\s+([\w'.]+)\s*\.", txt)
    tmp = os.path.join(BUILD, "pa_" + os.path.basename(prop_file).replace(".v", ""))
    os.makedirs(tmp, exist_ok=True)
    rc, out = sh(["coqc", "-Q", ".", "Verif", "-o", os.path.join(tmp, os.path.basename(prop_file) + "o"),
                  prop_file], cwd=COQ, timeout=timeout)
    if rc != 0:
        return None, out
    # output: one block per Print Assumptions, in order
    blocks = re.split(r"(?m)^(?=Closed under the global context|Axioms:)", out)
    blocks = [b for b in blocks if b.startswith("Closed under") or b.startswith("Axioms:")]
    res = {}
    for name, b in zip(asked, blocks):
        if b.startswith("Closed under"):
            res[name] = "closed"
        else:
            res[name] = [l.split(":")[0].strip() for l in b.split("\n")[1:] if re.match(r"^\S+\s*:", l)]
    if len(blocks) != len(asked):
        return None, "Print Assumptions blocks (%d) != asked (%d)\n%s" % (len(blocks), len(asked), out)
    return res, out


def coq_run_shards(prop, shards, timeout=900, jobs=12):
    """shards: list of .v texts, each ending with a definition M printed by `Print M.`
    Returns list of (ok, failing_indexes or None, raw_output)."""
    os.makedirs(GEN, exist_ok=True)
    paths = []
    for k, txt in enumerate(shards):
        # private names: two runs of one property (other seeds, other trees) may overlap in time
        p = os.path.join(GEN, "cases_%s_p%d_%d.v" % (prop, os.getpid(), k))
        open(p, "w").write(txt)
        paths.append(p)

    def one(p):
        try:
            rc, out = sh(["coqc", "-Q", ".", "Verif", p], cwd=COQ, timeout=timeout)
        except subprocess.TimeoutExpired:
            return (False, None, "timeout")
        if rc != 0:
            return (False, None, out[-3000:])
        m = re.search(r"M\s*=\s*(\[[^\]]*\])", out.replace("\n", " "))
        if not m:
            return (False, None, out[-3000:])
        body = m.group(1).strip()[1:-1].strip()
        idx = [int(re.sub(r"%N|\s", "", x)) for x in body.split(";")] if body else []
        return (True, idx, out[-500:])

    try:
        with ThreadPoolExecutor(max_workers=jobs) as ex:
            return list(ex.map(one, paths))
    finally:
        for p in paths:
            base = p[:-2]
            for f in (p, base + ".vo", base + ".vok", base + ".vos", base + ".glob",
                      os.path.join(os.path.dirname(p), "." + os.path.basename(base) + ".aux")):
                try:
                    os.remove(f)
                except OSError:
                    pass


# Coq term printers used by case writers
def coq_bytes(b):
    """bytes/bytearray/hex-string -> Coq list N"""
    if isinstance(b, str):
        b = bytes.fromhex(b)
    return "[" + ";".join(str(x) for x in b) + "]%N" if len(b) else "[]"


def coq_str(s):
    """python str or bytes -> Coq string via bs [...]"""
    if isinstance(s, str):
        s = s.encode("utf-8")
    return "(bs %s)" % coq_bytes(s)


def coq_bool(b):
    return "true" if b else "false"


def coq_list(items):
    return "[" + "; ".join(items) + "]"


def coq_N(n):
    return "%d%%N" % n


# ------------------------------------------------------------------ Go

def make_overlay(name=None):
    """overlay-<name>.json: the harness program <name> and the verif-tagged hook files of the
    packages it imports directly appear inside /repo's module; no tracked file in /repo changes.
    (Hooks of packages the harness does not import are left out, so a hook that another property's
    harness needs cannot break this build.)"""
    os.makedirs(BUILD, exist_ok=True)
    rep = {}
    hroot = os.path.join(VERIF, "harness")
    imported = None
    for hname in sorted(os.listdir(hroot)):
        d = os.path.join(hroot, hname)
        if not os.path.isdir(d) or (name is not None and hname != name):
            continue
        for root, _, files in os.walk(d):
            for f in files:
                if f.endswith(".go"):
                    rel = os.path.relpath(os.path.join(root, f), hroot)
                    rep[os.path.join(REPO, "internal", "verifharness", rel)] = os.path.join(root, f)
                    if name is not None:
                        imported = imported or set()
                        txt = open(os.path.join(root, f), encoding="utf-8").read()
                        for m in re.finditer(r'"github.com/hashicorp/consul/([^"]+)"', txt):
                            imported.add(m.group(1))
    kroot = os.path.join(VERIF, "hooks")
    for root, _, files in os.walk(kroot):
        for f in files:
            if f.endswith(".go"):
                rel = os.path.relpath(os.path.join(root, f), kroot)
                assert os.path.basename(f).startswith("zz_verif_"), f
                if imported is not None and os.path.dirname(rel) not in imported:
                    continue
                target = os.path.join(REPO, rel)
                assert not os.path.exists(target), "hook would shadow a tracked file: " + target
                rep[target] = os.path.join(root, f)
    path = os.path.join(BUILD, "overlay%s.json" % ("-" + name if name else ""))
    with Lock("overlay"):
        new = json.dumps({"Replace": rep}, indent=1, sort_keys=True)
        if not os.path.exists(path) or open(path).read() != new:
            open(path, "w").write(new)
    return path


def go_build(name, race=False, timeout=3000):
    """Build harness <name> from /repo's current working tree. Returns path of the binary."""
    ov = make_overlay(name)
    out = os.path.join(BUILD, "bin", name + ("-race" if race else ""))
    os.makedirs(os.path.dirname(out), exist_ok=True)
    cmd = [GO, "build", "-tags", "verif", "-overlay", ov, "-o", out]
    env = dict(GOENV)
    if race:
        cmd.insert(2, "-race")
        env["CGO_ENABLED"] = "1"
    cmd.append("github.com/hashicorp/consul/internal/verifharness/" + name)
    rc, o = sh(cmd, cwd=REPO, env=env, timeout=timeout)
    if rc != 0:
        raise BuildError(o)
    # the build must not have touched go.mod / go.sum
    rc2, o2 = sh(["git", "-C", REPO, "diff", "--quiet", "--", "go.mod", "go.sum"])
    if rc2 != 0:
        # undo what the build wrote (a harness importing a module that go.mod lists as indirect makes
        # `go build -mod=mod` rewrite the require line) and refuse the harness
        sh(["git", "-C", REPO, "checkout", "--", "go.mod", "go.sum"])
        raise BuildError("go.mod/go.sum changed by the build (restored); the harness imports a module "
                         "that is not a direct requirement of /repo")
    return out


class BuildError(Exception):
    pass


# ------------------------------------------------------------------ verdicts, evidence, findings

def load_known():
    p = os.path.join(VERIF, "known_findings.json")
    if not os.path.exists(p):
        return []
    return json.load(open(p)).get("findings", [])


def match_known(prop, signature):
    """signature: dict. A finding matches when it is open (not 'fixed') for this property and
    every key of its 'signature' equals the corresponding key of the observed signature."""
    for f in load_known():
        if f.get("property") != prop or f.get("status") == "fixed":
            continue
        sig = f.get("signature", {})
        if all(signature.get(k) == v for k, v in sig.items()):
            return f
    return None


def write_replay(prop, seed, n, obj):
    d = os.path.join(VERIF, "replays")
    os.makedirs(d, exist_ok=True)
    p = os.path.join(d, "%s-%s-%s.json" % (prop, seed, n))
    json.dump(obj, open(p, "w"), indent=1, sort_keys=True)
    return os.path.relpath(p, VERIF)


def write_evidence(prop, tier, seed, coverage, assumptions, wall, violations, level="proof"):
    # runs against a scratch tree (VERIF_REPO set) keep their evidence beside their build
    evdir = os.path.join(VERIF, "evidence") if REPO == "/repo" else os.path.join(BUILD, "evidence")
    os.makedirs(evdir, exist_ok=True)
    ev = {"property_id": prop, "tier": tier, "seed": int(seed), "level": level,
          "coverage": coverage, "assumptions": assumptions, "wall_s": round(wall, 2),
          "violations": int(violations)}
    p = os.path.join(evdir, prop + ".json")
    json.dump(ev, open(p, "w"), indent=1, sort_keys=True)
    return p


class Ctx:
    """Per-run context handed to checks/<Cxx>.py:run(ctx)."""

    def __init__(self, prop, tier, seed, replay=None):
        self.prop, self.tier, self.seed, self.replay = prop, tier, int(seed), replay
        self.t0 = time.time()
        self.violations = []      # (replay_path, suffix)
        self.known_printed = []
        self.notes = []
        self.workdir = os.path.join(BUILD, "obs", prop if self.seed == 1 else "%s-s%d" % (prop, self.seed))
        os.makedirs(self.workdir, exist_ok=True)

    def violation(self, replay_obj, found_input=True):
        n = len(self.violations)
        path = write_replay(self.prop, self.seed, n, replay_obj)
        self.violations.append((path, found_input))

    def known(self, finding, what):
        line = "KNOWN-FINDING: property=%s %s" % (self.prop, what)
        if line not in self.known_printed:
            self.known_printed.append(line)

    def finish(self, coverage, assumptions, level="proof"):
        import glob as _glob
        for f in _glob.glob(os.path.join(GEN, "*_p%d*" % os.getpid())) + _glob.glob(os.path.join(GEN, ".*_p%d*" % os.getpid())):
            try:
                os.remove(f)
            except OSError:
                pass
        for l in self.known_printed:
            print(l)
        for path, found in self.violations[:20]:
            print("VIOLATION property=%s replay=%s%s" % (self.prop, path,
                                                          "" if found else " no-failing-input-found"))
        write_evidence(self.prop, self.tier, self.seed, coverage, assumptions,
                       time.time() - self.t0, len(self.violations), level)
        sys.stdout.flush()
        return 1 if self.violations else 0


def proof_stage(ctx, prop_file, extra_targets=None):
    """Steps 1 of the protocol: hygiene, full build of the property's theorem file (and the Run
    module), Print Assumptions. Returns dict for the evidence; on failure registers a
    no-failing-input-found violation naming the broken obligation."""
    info = {}
    deps = set(coq_deps(prop_file))
    for t in (extra_targets or []):
        deps |= set(coq_deps(t))
    bad = coq_hygiene(sorted(deps))
    targets = [prop_file.replace(".v", ".vo")] + [t.replace(".v", ".vo") for t in (extra_targets or [])]
    ok, out = coq_make(targets)
    names = coq_obligations(prop_file)
    info["obligations"] = len(names)
    info["checker_cmd"] = "make -C coq -j16 %s   (coq_makefile, full .vo build, coqc 8.16.1) ; coqc -Q . Verif %s (Print Assumptions)" % (" ".join(targets), prop_file)
    if bad:
        info["discharged"] = 0
        ctx.violation({"kind": "forbidden-construct", "where": bad}, found_input=False)
        return info, False
    if not ok:
        m = re.search(r'File "\./([^"]+)", line (\d+)', out)
        info["discharged"] = 0
        ctx.violation({"kind": "proof-obligation-failed", "file": m.group(1) if m else "?",
                       "line": int(m.group(2)) if m else 0, "log": out[-3000:]}, found_input=False)
        return info, False
    res, raw = coq_assumptions(prop_file)
    if res is None:
        info["discharged"] = 0
        ctx.violation({"kind": "print-assumptions-failed", "log": raw[-3000:]}, found_input=False)
        return info, False
    info["discharged"] = len(names)
    info["print_assumptions"] = res
    info["property_theorems"] = sorted(res.keys())
    if ctx.tier == "thorough":
        # independent re-check of the compiled theorem file and everything it depends on
        mod = "Verif." + prop_file[:-2].replace("/", ".")
        rc, out = sh(["coqchk", "-silent", "-o", "-Q", ".", "Verif", mod], cwd=os.path.join(VERIF, "coq"),
                     timeout=5400)
        summary = out[out.find("CONTEXT SUMMARY"):] if "CONTEXT SUMMARY" in out else out[-2000:]
        ax = re.search(r"\* Axioms:\s*(.*?)\n\s*\n\* Constants", summary, re.S)
        axioms = " ".join(ax.group(1).split()) if ax else "?"
        info["coqchk"] = {"cmd": "coqchk -silent -o -Q . Verif " + mod, "exit": rc, "axioms": axioms,
                          "type_in_type": "<none>" in summary.split("type-in-type:")[-1][:20] if "type-in-type:" in summary else None}
        if rc != 0 or axioms != "<none>":
            ctx.violation({"kind": "coqchk-failed-or-axioms", "module": mod, "axioms": axioms, "log": out[-3000:]},
                          found_input=False)
            return info, False
    return info, True


STD_TRUSTED = [
    "Coq 8.16.1 kernel and its VM (vm_compute used for reflection proofs and to evaluate the model on cases); native_compute not used",
    "no axioms declared; Print Assumptions of every property theorem is recorded under print_assumptions; the thorough tier re-checks the compiled theorem file and all its dependencies with coqchk -o (axioms reported: none)",
    "hand-written Gallina model tied to /repo by the correspondence check of this run (Go harness compiled from /repo's working tree via build overlay, -tags verif)",
    "Go toolchain go1.26.8, Python driver tools/vlib.py, case-file writer",
]
