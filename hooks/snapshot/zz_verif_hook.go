//go:build verif

package snapshot

import (
	"io"

	"github.com/hashicorp/raft"
)

// VerifWrite exposes the unexported archive writer to the verification harness.
func VerifWrite(out io.Writer, metadata *raft.SnapshotMeta, snap io.Reader) error {
	return write(out, metadata, snap)
}

// VerifRead exposes the unexported archive reader to the verification harness.
func VerifRead(in io.Reader, metadata *raft.SnapshotMeta, snap io.Writer) error {
	return read(in, metadata, snap)
}
