//go:build verif

package submatview

import (
	"github.com/hashicorp/go-hclog"

	"github.com/hashicorp/consul/proto/private/pbsubscribe"
)

// VerifMat drives the real materializer (materializer.updateView / reset) and the real
// event-handler state machine (initialHandler, snapshotHandler, eventStreamHandler,
// resumeStreamHandler) one event at a time, the way LocalMaterializer.subscribeOnce and
// RPCMaterializer.subscribeOnce do, but without their goroutine and retry loop.
type VerifMat struct {
	mat     *materializer
	handler eventHandler
}

func VerifNewMat(view View) *VerifMat {
	return &VerifMat{mat: newMaterializer(hclog.NewNullLogger(), view, nil)}
}

// VerifBegin is the head of subscribeOnce: handler := initialHandler(req.Index). It returns the
// index the materializer puts in its request (Run: deps.Request(m.mat.currentIndex())).
func (v *VerifMat) VerifBegin() uint64 {
	idx := v.mat.currentIndex()
	v.handler = initialHandler(idx)
	return idx
}

// VerifHandle is the body of the receive loop of subscribeOnce for one event.
func (v *VerifMat) VerifHandle(e *pbsubscribe.Event) error {
	var err error
	v.handler, err = v.handler(v, e)
	if err != nil {
		v.mat.reset()
	}
	return err
}

// VerifAborted is what RPCMaterializer does when the server aborts the stream (forced close).
func (v *VerifMat) VerifAborted() { v.mat.reset() }

func (v *VerifMat) VerifIndex() uint64 { return v.mat.currentIndex() }

func (v *VerifMat) VerifResult() interface{} {
	v.mat.lock.Lock()
	defer v.mat.lock.Unlock()
	return v.mat.view.Result(v.mat.index)
}

func (v *VerifMat) updateView(events []*pbsubscribe.Event, index uint64) error {
	return v.mat.updateView(events, index)
}

func (v *VerifMat) reset() { v.mat.reset() }
