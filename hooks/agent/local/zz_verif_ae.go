//go:build verif

package local

import (
	"time"

	"github.com/hashicorp/consul/agent/structs"
)

// VerifSvc / VerifChk are raw views of one bookkeeping entry, including entries that are
// marked Deleted and the placeholder entries updateSyncState creates for foreign catalog
// rows (Service/Check == nil). The exported accessors of State hide both.
type VerifSvc struct {
	ID      structs.ServiceID
	Service *structs.NodeService
	Token   string
	InSync  bool
	Deleted bool
	IsLocal bool
}

type VerifChk struct {
	ID      structs.CheckID
	Check   *structs.HealthCheck
	Token   string
	InSync  bool
	Deleted bool
	IsLocal bool
	Defer   bool
}

// VerifDump returns every entry of the two bookkeeping maps and the node-info flag.
func (l *State) VerifDump() (nodeInfoInSync bool, svcs []VerifSvc, chks []VerifChk) {
	l.RLock()
	defer l.RUnlock()
	for id, s := range l.services {
		svcs = append(svcs, VerifSvc{ID: id, Service: s.Service, Token: s.Token, InSync: s.InSync,
			Deleted: s.Deleted, IsLocal: s.IsLocallyDefined})
	}
	for id, c := range l.checks {
		chks = append(chks, VerifChk{ID: id, Check: c.Check, Token: c.Token, InSync: c.InSync,
			Deleted: c.Deleted, IsLocal: c.IsLocallyDefined, Defer: c.DeferCheck != nil})
	}
	return l.nodeInfoInSync, svcs, chks
}

// VerifUpdateSyncState runs the first half of SyncFull alone, so that a harness can place a
// local change between the diff and the push (SyncFull releases the lock between the two).
func (l *State) VerifUpdateSyncState() error {
	return l.updateSyncState()
}

// VerifFireDefer makes the pending deferred-output timer of a check (UpdateCheck with
// CheckUpdateInterval > 0) fire now: the timer is rescheduled to zero and the REAL callback runs;
// the call returns once the callback has cleared the entry's DeferCheck. False when no timer is pending.
func (l *State) VerifFireDefer(id structs.CheckID) bool {
	l.RLock()
	c := l.checks[id]
	var t *time.Timer
	if c != nil {
		t = c.DeferCheck
	}
	l.RUnlock()
	if t == nil {
		return false
	}
	t.Reset(0)
	for i := 0; i < 50000; i++ {
		time.Sleep(100 * time.Microsecond)
		l.RLock()
		cc := l.checks[id]
		done := cc == nil || cc.DeferCheck != t
		l.RUnlock()
		if done {
			return true
		}
	}
	panic("deferred-output timer did not fire")
}
