//go:build verif

package local

import "github.com/hashicorp/consul/agent/structs"

// VerifSvc / VerifChk are raw views of one bookkeeping entry, including entries that are
// marked Deleted and the placeholder entries updateSyncState creates for foreign catalog
// rows (Service/Check == nil). The exported accessors of State hide both.
type VerifSvc struct {
	ID      structs.ServiceID
	Service *structs.NodeService
	Token   string
	InSync  bool
	Deleted bool
	IsLocal bool
}

type VerifChk struct {
	ID      structs.CheckID
	Check   *structs.HealthCheck
	Token   string
	InSync  bool
	Deleted bool
	IsLocal bool
	Defer   bool
}

// VerifDump returns every entry of the two bookkeeping maps and the node-info flag.
func (l *State) VerifDump() (nodeInfoInSync bool, svcs []VerifSvc, chks []VerifChk) {
	l.RLock()
	defer l.RUnlock()
	for id, s := range l.services {
		svcs = append(svcs, VerifSvc{ID: id, Service: s.Service, Token: s.Token, InSync: s.InSync,
			Deleted: s.Deleted, IsLocal: s.IsLocallyDefined})
	}
	for id, c := range l.checks {
		chks = append(chks, VerifChk{ID: id, Check: c.Check, Token: c.Token, InSync: c.InSync,
			Deleted: c.Deleted, IsLocal: c.IsLocallyDefined, Defer: c.DeferCheck != nil})
	}
	return l.nodeInfoInSync, svcs, chks
}

// VerifUpdateSyncState runs the first half of SyncFull alone, so that a harness can place a
// local change between the diff and the push (SyncFull releases the lock between the two).
func (l *State) VerifUpdateSyncState() error {
	return l.updateSyncState()
}
