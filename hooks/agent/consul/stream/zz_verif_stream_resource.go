//go:build verif

package stream

// Verification hooks for property C18 (add-only, compiled only with -tags verif).

// VerifResPublishOne does what one iteration of EventPublisher.Run does when publishCh is
// readable: it receives exactly one queued batch and hands it to publishBatch. It returns
// false (and does nothing) when no batch is queued. Used with a publisher whose Run
// goroutine is NOT started, so that the commit/publication gap is under the schedule's control.
func (e *EventPublisher) VerifResPublishOne() bool {
	select {
	case update := <-e.publishCh:
		e.publishBatch(update)
		return true
	default:
		return false
	}
}

// VerifResQueued returns the number of batches sitting in publishCh.
func (e *EventPublisher) VerifResQueued() int { return len(e.publishCh) }

// VerifResSubHasNext reports whether the item the subscription is currently positioned on
// already has a successor, i.e. whether bufferItem.Next would return without blocking.
func VerifResSubHasNext(s *Subscription) bool {
	return s.currentItem.link.next.Load() != nil
}

// VerifResEvictSnapshot does what the snapshot-cache TTL timer (setCachedSnapshotLocked's
// time.AfterFunc) does for one topic/subject: it drops the cached snapshot.
func (e *EventPublisher) VerifResEvictSnapshot(topic, subject string) {
	e.lock.Lock()
	defer e.lock.Unlock()
	delete(e.snapCache, topicSubject{Topic: topic, Subject: subject})
}
