//go:build verif

package stream

// Verification hooks for property C11 (add-only, build tag "verif", injected by the build overlay).
// They let a harness drive the EventPublisher WITHOUT its Run goroutine, one queued batch at a time,
// and ask a Subscription whether Next would block. Nothing here changes behaviour of existing code.

// VerifQueued returns the number of committed, not yet published batches (len of publishCh).
func (e *EventPublisher) VerifQueued() int { return len(e.publishCh) }

// VerifPublishOne does what one iteration of Run does: takes exactly one queued batch (if any)
// and hands it to publishBatch (which drops it when the state was replaced since it was queued).
// Returns false when the queue is empty.
func (e *EventPublisher) VerifPublishOne() bool {
	select {
	case update := <-e.publishCh:
		e.publishBatch(update)
		return true
	default:
		return false
	}
}

// VerifQueue returns a copy of the queued batches, oldest first, leaving the queue as it was.
// Only for single-threaded use (no Run goroutine, no concurrent Publish).
func (e *EventPublisher) VerifQueue() [][]Event {
	var out [][]Event
	var raw []publishBatch
	for {
		select {
		case b := <-e.publishCh:
			out = append(out, b.events)
			raw = append(raw, b)
			continue
		default:
		}
		break
	}
	for _, b := range raw {
		e.publishCh <- b
	}
	return out
}

// VerifCloseTokens returns the secret IDs carried by a closeSubscription event.
func VerifCloseTokens(ev Event) ([]string, bool) {
	p, ok := ev.Payload.(closeSubscriptionPayload)
	if !ok {
		return nil, false
	}
	return p.tokensSecretIDs, true
}

// VerifTopicBuffers returns the number of live topic buffers and cached snapshots.
func (e *EventPublisher) VerifTopicBuffers() (bufs int, snaps int) {
	e.lock.Lock()
	defer e.lock.Unlock()
	return len(e.topicBuffers), len(e.snapCache)
}

// VerifEvictSnapshot does what the snapshot cache TTL timer does for one topic/subject.
func (e *EventPublisher) VerifEvictSnapshot(req *SubscribeRequest) {
	e.lock.Lock()
	defer e.lock.Unlock()
	delete(e.snapCache, req.topicSubject())
}

// VerifReady reports whether Next would return without blocking: the subscription is closed,
// or an item that Next delivers (or an error item) is reachable from the current item.
func (s *Subscription) VerifReady() bool {
	if s.requireStateOpen() != nil {
		return true
	}
	item := s.currentItem
	for {
		raw := item.link.next.Load()
		if raw == nil {
			return false
		}
		next := raw.(*bufferItem)
		if next.Err != nil {
			return true
		}
		if len(next.Events) > 0 {
			// the filter of Subscription.Next: batches the snapshot already contains are skipped
			ev := newEventFromBatch(s.req, next.Events)
			if !(ev.Index > 0 && ev.Index < s.snapshotIndex && !ev.IsFramingEvent()) {
				return true
			}
		}
		item = next
	}
}

// VerifSubscribePath reads, from the publisher's state, which way Subscribe will go for req:
// "err" (unknown topic / unsupported wildcard), "resume" (the head of the topic buffer carries
// req.Index), "cache" (a usable cached snapshot exists) or "build" (a fresh snapshot).
func (e *EventPublisher) VerifSubscribePath(req *SubscribeRequest) string {
	e.lock.Lock()
	defer e.lock.Unlock()
	if _, ok := e.snapshotHandlers[req.Topic]; !ok || req.Topic == nil {
		return "err"
	}
	if req.Subject == SubjectWildcard {
		if _, ok := e.wildcards[req.Topic]; !ok {
			return "err"
		}
	}
	if tb, ok := e.topicBuffers[req.topicSubject()]; ok && req.Index > 0 && tb.buf.Head().HasEventIndex(req.Index) {
		return "resume"
	}
	if snap, ok := e.snapCache[req.topicSubject()]; ok && snap.err() == nil {
		return "cache"
	}
	return "build"
}
