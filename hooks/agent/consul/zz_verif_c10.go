//go:build verif

// Verification hook for property C10 (conditional writes are honest). Add-only; compiled only with
// -tags verif through the build overlay of /verif. Nothing here changes the behaviour of the package.
package consul

import (
	"github.com/hashicorp/consul/agent/consul/fsm"
	"github.com/hashicorp/consul/agent/structs"
)

// VerifC10ConfigEntryShouldSkip runs the real ConfigEntry.shouldSkipOperation (the decision that lets
// ConfigEntry.Apply answer "true" / ConfigEntry.Delete answer "Deleted = true" without issuing a
// Raft command) against the state store of the given FSM.
func VerifC10ConfigEntryShouldSkip(f *fsm.FSM, args *structs.ConfigEntryRequest) (bool, error) {
	c := &ConfigEntry{srv: &Server{fsm: f}}
	return c.shouldSkipOperation(args)
}
