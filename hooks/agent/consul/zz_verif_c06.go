//go:build verif

package consul

import (
	"fmt"
	"io"
	"sync/atomic"
	"time"

	"github.com/hashicorp/go-hclog"
	"github.com/hashicorp/raft"

	"github.com/hashicorp/consul/agent/consul/fsm"
	"github.com/hashicorp/consul/agent/consul/state"
)

// VerifC06 is a Server reduced to what the read endpoints and Server.blockingQuery touch: the
// real FSM/state store, a real single-node in-memory raft (so that IsLeader / LastContact are the
// real ones), the configuration defaults, ACLs disabled.  The endpoint structs are the real ones:
// KVS.Get/List/ListKeys, Health.ServiceNodes, Catalog.ServiceNodes, Session.Get run unmodified,
// through the real blockingquery.Query and the real Server.SetQueryMeta.
type VerifC06 struct {
	Srv     *Server
	KVS     *KVS
	Health  *Health
	Catalog *Catalog
	Session *Session
	raft    *raft.Raft
}

func VerifC06NewServer() (*VerifC06, error) {
	logger := hclog.NewInterceptLogger(&hclog.LoggerOptions{Output: io.Discard})
	f, err := fsm.New(nil, logger)
	if err != nil {
		return nil, err
	}
	rc := raft.DefaultConfig()
	rc.LocalID = "c06"
	rc.HeartbeatTimeout = 50 * time.Millisecond
	rc.ElectionTimeout = 50 * time.Millisecond
	rc.LeaderLeaseTimeout = 50 * time.Millisecond
	rc.CommitTimeout = 5 * time.Millisecond
	rc.Logger = logger
	store := raft.NewInmemStore()
	snaps := raft.NewInmemSnapshotStore()
	addr, trans := raft.NewInmemTransport("c06")
	if err := raft.BootstrapCluster(rc, store, store, snaps, trans, raft.Configuration{
		Servers: []raft.Server{{ID: "c06", Address: addr}}}); err != nil {
		return nil, err
	}
	r, err := raft.NewRaft(rc, &raft.MockFSM{}, store, store, snaps, trans)
	if err != nil {
		return nil, err
	}
	deadline := time.Now().Add(10 * time.Second)
	for r.State() != raft.Leader {
		if time.Now().After(deadline) {
			return nil, fmt.Errorf("no raft leader")
		}
		time.Sleep(5 * time.Millisecond)
	}
	cfg := DefaultConfig()
	cfg.Datacenter = "dc1"
	s := &Server{
		config:      cfg,
		fsm:         f,
		raft:        r,
		logger:      logger,
		loggers:     newLoggerStore(logger),
		leaveCh:     make(chan struct{}),
		shutdownCh:  make(chan struct{}),
		ACLResolver: &ACLResolver{config: ACLResolverSettings{ACLsEnabled: false, Datacenter: "dc1"}, logger: logger},
	}
	return &VerifC06{Srv: s, raft: r,
		KVS:     &KVS{srv: s, logger: logger},
		Health:  &Health{srv: s, logger: logger},
		Catalog: &Catalog{srv: s, logger: logger},
		Session: &Session{srv: s, logger: logger},
	}, nil
}

func (v *VerifC06) Store() *state.Store { return v.Srv.fsm.State() }

// Blocking is the number of queries inside blockingquery.Query's loop.
func (v *VerifC06) Blocking() uint64 { return atomic.LoadUint64(&v.Srv.queriesBlocking) }

// Release ends every blocked query (the loop's context is derived from the shutdown channel) and
// arms a fresh channel.  Must not run concurrently with the start of a query.
func (v *VerifC06) Release() {
	old := v.Srv.shutdownCh
	v.Srv.shutdownCh = make(chan struct{})
	close(old)
}

func (v *VerifC06) Close() { v.raft.Shutdown() }
