//go:build verif

// Verification hooks for property C19 (replication rounds). Add-only; compiled only with -tags verif
// through the build overlay of /verif. Nothing here changes the behaviour of the package.
package consul

import (
	"context"
	"fmt"
	"io"
	"sort"
	"strconv"
	"sync/atomic"
	"time"

	"github.com/hashicorp/consul-net-rpc/net/rpc"
	"github.com/hashicorp/go-hclog"
	"github.com/hashicorp/raft"
	"golang.org/x/time/rate"

	"github.com/hashicorp/consul/agent/consul/fsm"
	"github.com/hashicorp/consul/agent/consul/state"
	"github.com/hashicorp/consul/agent/rpc/middleware"
	"github.com/hashicorp/consul/agent/structs"
	"github.com/hashicorp/consul/agent/token"
)

// VerifReplItem is one replicated object as the harness describes it.
//
//	ACL types:         ID = AccessorID / ID, Hash = the stored []byte hash
//	config entries:    Kind + ID (= name), Hash64
//	federation states: ID = datacenter
//
// Body stands for the content (policy rules, token description, config entry meta, ...).
type VerifReplItem struct {
	Kind   string `json:"kind,omitempty"`
	ID     string `json:"id"`
	Mod    uint64 `json:"mod"`
	Hash   []byte `json:"hash,omitempty"`
	NilH   bool   `json:"nilh,omitempty"` // Hash is nil rather than empty
	Hash64 uint64 `json:"hash64,omitempty"`
	Body   string `json:"body"`
	Local  bool   `json:"local,omitempty"`
	Create uint64 `json:"create,omitempty"` // CreateIndex at the primary (0 = 1)
}

// A decimal Body carries, in bits 20..22, a secondary attribute the state store validates:
//
//	policies, roles:  0 = a name derived from the id (always free), k>0 = the shared name "shared-name-k"
//	service-defaults: 1 = Protocol "http", anything else = no protocol (tcp)
func verifReplAttr(body string) int {
	n, err := strconv.ParseUint(body, 10, 64)
	if err != nil {
		return 0
	}
	return int((n >> 20) & 7)
}

func verifReplName(prefix, id, body string) string {
	if k := verifReplAttr(body); k > 0 {
		return fmt.Sprintf("shared-name-%d", k)
	}
	return prefix + id
}

func (it VerifReplItem) createIndex() uint64 {
	if it.Create == 0 {
		return 1
	}
	return it.Create
}

type VerifReplDiff struct {
	Del   []VerifReplItem `json:"del"`
	Ups   []VerifReplItem `json:"ups"`
	LSkip int             `json:"lskip"`
	RSkip int             `json:"rskip"`
}

func (it VerifReplItem) hash() []byte {
	if it.NilH {
		return nil
	}
	if it.Hash == nil {
		return []byte{}
	}
	return it.Hash
}

func verifReplToken(it VerifReplItem) *structs.ACLToken {
	return &structs.ACLToken{
		AccessorID:  it.ID,
		SecretID:    "secret-" + it.ID,
		Description: it.Body,
		Local:       it.Local,
		Hash:        it.hash(),
		RaftIndex:   structs.RaftIndex{CreateIndex: 1, ModifyIndex: it.Mod},
	}
}

func verifReplPolicy(it VerifReplItem) *structs.ACLPolicy {
	return &structs.ACLPolicy{
		ID:        it.ID,
		Name:      verifReplName("policy-", it.ID, it.Body),
		Rules:     it.Body,
		Hash:      it.hash(),
		RaftIndex: structs.RaftIndex{CreateIndex: it.createIndex(), ModifyIndex: it.Mod},
	}
}

func verifReplRole(it VerifReplItem) *structs.ACLRole {
	return &structs.ACLRole{
		ID:          it.ID,
		Name:        verifReplName("role-", it.ID, it.Body),
		Description: it.Body,
		Hash:        it.hash(),
		RaftIndex:   structs.RaftIndex{CreateIndex: 1, ModifyIndex: it.Mod},
	}
}

func verifReplConfigEntry(it VerifReplItem) (structs.ConfigEntry, error) {
	meta := map[string]string{"body": it.Body}
	ri := structs.RaftIndex{CreateIndex: 1, ModifyIndex: it.Mod}
	switch it.Kind {
	case structs.ServiceDefaults:
		proto := ""
		if verifReplAttr(it.Body) == 1 {
			proto = "http"
		}
		return &structs.ServiceConfigEntry{Kind: structs.ServiceDefaults, Name: it.ID, Protocol: proto, Meta: meta, Hash: it.Hash64, RaftIndex: ri}, nil
	case structs.ServiceRouter: // needs an http-like protocol for its service
		return &structs.ServiceRouterConfigEntry{Kind: structs.ServiceRouter, Name: it.ID, Meta: meta, Hash: it.Hash64, RaftIndex: ri}, nil
	case structs.IngressGateway: // one http listener routing to the service of the same name
		return &structs.IngressGatewayConfigEntry{Kind: structs.IngressGateway, Name: it.ID, Meta: meta, Hash: it.Hash64, RaftIndex: ri,
			Listeners: []structs.IngressListener{{Port: 8080, Protocol: "http", Services: []structs.IngressService{{Name: it.ID}}}}}, nil
	case structs.ProxyDefaults:
		return &structs.ProxyConfigEntry{Kind: structs.ProxyDefaults, Name: it.ID, Meta: meta, Hash: it.Hash64, RaftIndex: ri}, nil
	case structs.ServiceResolver:
		return &structs.ServiceResolverConfigEntry{Kind: structs.ServiceResolver, Name: it.ID, Meta: meta, Hash: it.Hash64, RaftIndex: ri}, nil
	case structs.ExportedServices:
		return &structs.ExportedServicesConfigEntry{Name: it.ID, Meta: meta, Hash: it.Hash64, RaftIndex: ri}, nil
	case structs.ServiceIntentions:
		return &structs.ServiceIntentionsConfigEntry{Kind: structs.ServiceIntentions, Name: it.ID, Meta: meta, Hash: it.Hash64, RaftIndex: ri}, nil
	}
	return nil, fmt.Errorf("verif: unsupported config entry kind %q", it.Kind)
}

func verifReplFromConfigEntry(e structs.ConfigEntry) VerifReplItem {
	return VerifReplItem{Kind: e.GetKind(), ID: e.GetName(), Mod: e.GetRaftIndex().ModifyIndex,
		Hash64: e.GetHash(), Body: e.GetMeta()["body"]}
}

func verifReplFed(it VerifReplItem) *structs.FederationState {
	return &structs.FederationState{
		Datacenter: it.ID,
		MeshGateways: structs.CheckServiceNodes{{
			Node:    &structs.Node{Node: "gw-" + it.Body, Datacenter: it.ID},
			Service: &structs.NodeService{ID: "mesh-gateway", Service: "mesh-gateway", Kind: structs.ServiceKindMeshGateway, Port: 443},
		}},
		RaftIndex: structs.RaftIndex{CreateIndex: 1, ModifyIndex: it.Mod},
	}
}

func verifReplFromFed(f *structs.FederationState) VerifReplItem {
	body := ""
	if len(f.MeshGateways) > 0 && f.MeshGateways[0].Node != nil && len(f.MeshGateways[0].Node.Node) >= 3 {
		body = f.MeshGateways[0].Node.Node[3:]
	}
	return VerifReplItem{ID: f.Datacenter, Mod: f.ModifyIndex, Body: body}
}

// VerifReplRealHash returns the item with its hash computed by the real code (ACLToken/ACLPolicy/ACLRole.SetHash,
// structs.HashConfigEntry) from the object the item stands for, instead of a hash chosen by the harness.
func VerifReplRealHash(inst string, it VerifReplItem) (VerifReplItem, error) {
	it.NilH = false
	switch inst {
	case "token":
		t := verifReplToken(it)
		t.Hash = nil
		it.Hash = t.SetHash(true)
	case "policy":
		p := verifReplPolicy(it)
		p.Hash = nil
		it.Hash = p.SetHash(true)
	case "role":
		r := verifReplRole(it)
		r.Hash = nil
		it.Hash = r.SetHash(true)
	case "config":
		e, err := verifReplConfigEntry(it)
		if err != nil {
			return it, err
		}
		e.SetHash(0)
		h, err := structs.HashConfigEntry(e)
		if err != nil {
			return it, err
		}
		it.Hash64 = h
	default:
		return it, fmt.Errorf("verif: no content hash for instance %q", inst)
	}
	return it, nil
}

// verifReplReplicator builds the REAL replicator of the given type with its working state filled
// in as FetchLocal / FetchRemote would have left it.
func verifReplReplicator(typ string, local, remote []VerifReplItem) (aclTypeReplicator, error) {
	switch typ {
	case "token":
		tr := &aclTokenReplicator{}
		for _, it := range local {
			tr.local = append(tr.local, verifReplToken(it))
		}
		for _, it := range remote {
			tr.remote = append(tr.remote, verifReplToken(it).Stub())
		}
		return tr, nil
	case "policy":
		tr := &aclPolicyReplicator{}
		for _, it := range local {
			tr.local = append(tr.local, verifReplPolicy(it))
		}
		for _, it := range remote {
			tr.remote = append(tr.remote, verifReplPolicy(it).Stub())
		}
		return tr, nil
	case "role":
		tr := &aclRoleReplicator{}
		for _, it := range local {
			tr.local = append(tr.local, verifReplRole(it))
		}
		for _, it := range remote {
			tr.remote = append(tr.remote, verifReplRole(it))
		}
		return tr, nil
	}
	return nil, fmt.Errorf("verif: unknown ACL replication type %q", typ)
}

// VerifReplDiffACL runs the real SortState + diffACLType of the real replicator type.
func VerifReplDiffACL(typ string, local, remote []VerifReplItem, last uint64) (VerifReplDiff, error) {
	tr, err := verifReplReplicator(typ, local, remote)
	if err != nil {
		return VerifReplDiff{}, err
	}
	res := diffACLType(tr, last)
	out := VerifReplDiff{LSkip: res.LocalSkipped, RSkip: res.RemoteSkipped, Del: []VerifReplItem{}, Ups: []VerifReplItem{}}
	for _, id := range res.LocalDeletes {
		out.Del = append(out.Del, VerifReplItem{ID: id})
	}
	for _, id := range res.LocalUpserts {
		out.Ups = append(out.Ups, VerifReplItem{ID: id})
	}
	return out, nil
}

// VerifReplDiffConfig runs the real diffConfigEntries.
func VerifReplDiffConfig(local, remote []VerifReplItem, last uint64) (VerifReplDiff, error) {
	var l, r []structs.ConfigEntry
	for _, it := range local {
		e, err := verifReplConfigEntry(it)
		if err != nil {
			return VerifReplDiff{}, err
		}
		l = append(l, e)
	}
	for _, it := range remote {
		e, err := verifReplConfigEntry(it)
		if err != nil {
			return VerifReplDiff{}, err
		}
		r = append(r, e)
	}
	dels, ups := diffConfigEntries(l, r, last)
	out := VerifReplDiff{Del: []VerifReplItem{}, Ups: []VerifReplItem{}}
	for _, e := range dels {
		out.Del = append(out.Del, verifReplFromConfigEntry(e))
	}
	for _, e := range ups {
		out.Ups = append(out.Ups, verifReplFromConfigEntry(e))
	}
	return out, nil
}

// VerifReplDiffFed runs the real FederationStateReplicator.DiffRemoteAndLocalState.
func VerifReplDiffFed(local, remote []VerifReplItem, last uint64) (VerifReplDiff, error) {
	var l, r []*structs.FederationState
	for _, it := range local {
		l = append(l, verifReplFed(it))
	}
	for _, it := range remote {
		r = append(r, verifReplFed(it))
	}
	d, err := (&FederationStateReplicator{}).DiffRemoteAndLocalState(l, r, last)
	if err != nil {
		return VerifReplDiff{}, err
	}
	out := VerifReplDiff{Del: []VerifReplItem{}, Ups: []VerifReplItem{}}
	dd, _ := d.Deletions.([]*structs.FederationState)
	uu, _ := d.Updates.([]*structs.FederationState)
	if d.NumDeletions != len(dd) || d.NumUpdates != len(uu) {
		return out, fmt.Errorf("verif: IndexReplicatorDiff counts disagree with its lists")
	}
	for _, f := range dd {
		out.Del = append(out.Del, verifReplFromFed(f))
	}
	for _, f := range uu {
		out.Ups = append(out.Ups, verifReplFromFed(f))
	}
	return out, nil
}

// ---------------------------------------------------------------------------------------------
// A secondary-datacenter server reduced to what a replication round touches: the real FSM and
// state store behind a real single-node in-memory Raft, so that leaderRaftApply, the FSM commands
// and the state-store listing functions used by replication all run unchanged. The primary
// datacenter is simulated at the RPC boundary: Server.RPC serves the list / batch-read methods
// from the remote objects of the current case.

type verifReplPrimary struct {
	index    uint64
	tokens   []*structs.ACLToken
	policies []*structs.ACLPolicy
	// a second snapshot of the primary, served by the batch reads only (nil: the same snapshot)
	batchTokens   []*structs.ACLToken
	batchPolicies []*structs.ACLPolicy
	twoSnapshots  bool
	roles    []*structs.ACLRole
	configs  []structs.ConfigEntry
	feds     []*structs.FederationState
	calls    []string
}

type verifReplACLEndpoint struct{ p *verifReplPrimary }
type verifReplConfigEndpoint struct{ p *verifReplPrimary }
type verifReplFedEndpoint struct{ p *verifReplPrimary }

func (e *verifReplACLEndpoint) TokenList(args *structs.ACLTokenListRequest, reply *structs.ACLTokenListResponse) error {
	e.p.calls = append(e.p.calls, "ACL.TokenList")
	for _, t := range e.p.tokens {
		if (t.Local && args.IncludeLocal) || (!t.Local && args.IncludeGlobal) {
			reply.Tokens = append(reply.Tokens, t.Stub())
		}
	}
	reply.Index = e.p.index
	return nil
}

func (e *verifReplACLEndpoint) TokenBatchRead(args *structs.ACLTokenBatchGetRequest, reply *structs.ACLTokenBatchResponse) error {
	e.p.calls = append(e.p.calls, "ACL.TokenBatchRead")
	src := e.p.tokens
	if e.p.twoSnapshots {
		src = e.p.batchTokens
	}
	for _, id := range args.AccessorIDs {
		for _, t := range src {
			if t.AccessorID == id {
				c := *t
				reply.Tokens = append(reply.Tokens, &c)
				break
			}
		}
	}
	reply.Index = e.p.index
	return nil
}

func (e *verifReplACLEndpoint) PolicyList(args *structs.ACLPolicyListRequest, reply *structs.ACLPolicyListResponse) error {
	e.p.calls = append(e.p.calls, "ACL.PolicyList")
	for _, p := range e.p.policies {
		reply.Policies = append(reply.Policies, p.Stub())
	}
	reply.Index = e.p.index
	return nil
}

func (e *verifReplACLEndpoint) PolicyBatchRead(args *structs.ACLPolicyBatchGetRequest, reply *structs.ACLPolicyBatchResponse) error {
	e.p.calls = append(e.p.calls, "ACL.PolicyBatchRead")
	src := e.p.policies
	if e.p.twoSnapshots {
		src = e.p.batchPolicies
	}
	for _, id := range args.PolicyIDs {
		for _, p := range src {
			if p.ID == id {
				c := *p
				reply.Policies = append(reply.Policies, &c)
				break
			}
		}
	}
	reply.Index = e.p.index
	return nil
}

func (e *verifReplACLEndpoint) RoleList(args *structs.ACLRoleListRequest, reply *structs.ACLRoleListResponse) error {
	e.p.calls = append(e.p.calls, "ACL.RoleList")
	for _, r := range e.p.roles {
		c := *r
		reply.Roles = append(reply.Roles, &c)
	}
	reply.Index = e.p.index
	return nil
}

func (e *verifReplConfigEndpoint) ListAll(args *structs.ConfigEntryListAllRequest, reply *structs.IndexedGenericConfigEntries) error {
	e.p.calls = append(e.p.calls, "ConfigEntry.ListAll")
	reply.Entries = append(reply.Entries, e.p.configs...)
	reply.Index = e.p.index
	return nil
}

func (e *verifReplFedEndpoint) List(args *structs.DCSpecificRequest, reply *structs.IndexedFederationStates) error {
	e.p.calls = append(e.p.calls, "FederationState.List")
	reply.States = append(reply.States, e.p.feds...)
	reply.Index = e.p.index
	return nil
}

type VerifReplServer struct {
	s     *Server
	prim  *verifReplPrimary
	raft  *raft.Raft
	trans *raft.InmemTransport
}

func VerifReplNewServer() (*VerifReplServer, error) {
	logger := hclog.NewInterceptLogger(&hclog.LoggerOptions{Output: io.Discard, Level: hclog.Off})
	gc, err := state.NewTombstoneGC(time.Second, time.Millisecond)
	if err != nil {
		return nil, err
	}
	f, err := fsm.New(gc, logger)
	if err != nil {
		return nil, err
	}
	conf := raft.DefaultConfig()
	conf.LocalID = raft.ServerID("verif-secondary")
	conf.HeartbeatTimeout = 50 * time.Millisecond
	conf.ElectionTimeout = 50 * time.Millisecond
	conf.LeaderLeaseTimeout = 50 * time.Millisecond
	conf.CommitTimeout = time.Millisecond
	conf.Logger = logger
	store := raft.NewInmemStore()
	snaps := raft.NewInmemSnapshotStore()
	addr, trans := raft.NewInmemTransport("")
	cfg := raft.Configuration{Servers: []raft.Server{{ID: conf.LocalID, Address: addr}}}
	if err := raft.BootstrapCluster(conf, store, store, snaps, trans, cfg); err != nil {
		return nil, err
	}
	r, err := raft.NewRaft(conf, f, store, store, snaps, trans)
	if err != nil {
		return nil, err
	}
	deadline := time.Now().Add(10 * time.Second)
	for r.State() != raft.Leader {
		if time.Now().After(deadline) {
			return nil, fmt.Errorf("verif: the in-memory raft node did not become leader")
		}
		time.Sleep(5 * time.Millisecond)
	}
	// keep the secondary's raft index above every index the generators use (a write re-stamps the modify index)
	for i := 0; i < 160; i++ {
		if err := r.Barrier(5 * time.Second).Error(); err != nil {
			return nil, err
		}
	}

	prim := &verifReplPrimary{}
	rs := rpc.NewServer()
	if err := rs.RegisterName("ACL", &verifReplACLEndpoint{prim}); err != nil {
		return nil, err
	}
	if err := rs.RegisterName("ConfigEntry", &verifReplConfigEndpoint{prim}); err != nil {
		return nil, err
	}
	if err := rs.RegisterName("FederationState", &verifReplFedEndpoint{prim}); err != nil {
		return nil, err
	}

	c := DefaultConfig()
	c.Datacenter = "dc2"
	c.PrimaryDatacenter = "dc1"
	c.ACLReplicationApplyLimit = 1000000
	c.ConfigReplicationApplyLimit = 1000000
	c.FederationStateReplicationApplyLimit = 1000000

	s := &Server{
		config:      c,
		logger:      logger,
		loggers:     newLoggerStore(logger),
		fsm:         f,
		raft:        r,
		rpcServer:   rs,
		tokens:      new(token.Store),
		rpcRecorder: middleware.NewRequestRecorder(logger, func() bool { return true }, c.Datacenter),
	}
	s.rpcLimiter.Store(rate.NewLimiter(rate.Inf, 1))
	atomic.StoreInt32(&s.dcSupportsFederationStates, 1)
	return &VerifReplServer{s: s, prim: prim, raft: r, trans: trans}, nil
}

func (v *VerifReplServer) Close() {
	v.raft.Shutdown().Error()
	v.trans.Close()
}

// wipe empties the secondary's replicated tables (direct state-store writes, as a test fixture would)
func (v *VerifReplServer) wipe() error {
	st := v.s.fsm.State()
	idx := uint64(1)
	_, toks, err := st.ACLTokenList(nil, true, true, "", "", "", nil, nil)
	if err != nil {
		return err
	}
	var ids []string
	for _, t := range toks {
		ids = append(ids, t.AccessorID)
	}
	if err := st.ACLTokenBatchDelete(idx, ids); err != nil {
		return err
	}
	_, pols, err := st.ACLPolicyList(nil, nil)
	if err != nil {
		return err
	}
	ids = nil
	for _, p := range pols {
		ids = append(ids, p.ID)
	}
	if err := st.ACLPolicyBatchDelete(idx, ids); err != nil {
		return err
	}
	_, roles, err := st.ACLRoleList(nil, "", nil)
	if err != nil {
		return err
	}
	ids = nil
	for _, r := range roles {
		ids = append(ids, r.ID)
	}
	if err := st.ACLRoleBatchDelete(idx, ids); err != nil {
		return err
	}
	_, ces, err := st.ConfigEntries(nil, nil)
	if err != nil {
		return err
	}
	// entries that others depend on cannot go first (graph validation): several passes
	for pass := 0; len(ces) > 0; pass++ {
		var lastErr error
		for _, e := range ces {
			if err := st.DeleteConfigEntry(idx, e.GetKind(), e.GetName(), e.GetEnterpriseMeta()); err != nil {
				lastErr = err
			}
		}
		if _, ces, err = st.ConfigEntries(nil, nil); err != nil {
			return err
		}
		if len(ces) > 0 && pass >= 4 {
			return fmt.Errorf("verif: cannot empty the config entry table: %v", lastErr)
		}
	}
	_, feds, err := st.FederationStateList(nil)
	if err != nil {
		return err
	}
	for _, f := range feds {
		if err := st.FederationStateDelete(idx, f.Datacenter); err != nil {
			return err
		}
	}
	return nil
}

type VerifReplRound struct {
	Final    []VerifReplItem `json:"final"`     // the secondary's whole table after the round, sorted
	RetIndex uint64          `json:"ret_index"` // index returned by the round
	Exit     bool            `json:"exit"`
	Err      string          `json:"err"`
	Calls    []string        `json:"calls"` // RPCs the secondary sent to the primary
	Writes   uint64          `json:"writes"` // raft log entries the round appended in the secondary
}

// Round loads `st` into the secondary, `remote` into the simulated primary and runs ONE real
// replication round of the given instance ("token", "policy", "role", "config", "fed").
func (v *VerifReplServer) Round(inst string, st, remote []VerifReplItem, remoteIndex, last uint64) (VerifReplRound, error) {
	return v.RoundOpts(inst, st, remote, remoteIndex, last, VerifReplOpts{})
}

// VerifReplOpts: Keep = do not wipe and reload the secondary (a further round on the state the previous one
// left; `st` is ignored); TwoSnapshots = the batch reads (ACL.TokenBatchRead / ACL.PolicyBatchRead) are served
// from Batch, another snapshot of the primary than the one the list calls see.
type VerifReplOpts struct {
	Keep         bool
	TwoSnapshots bool
	Batch        []VerifReplItem
}

func (v *VerifReplServer) RoundOpts(inst string, st, remote []VerifReplItem, remoteIndex, last uint64, opts VerifReplOpts) (out VerifReplRound, rerr error) {
	if opts.Keep {
		st = nil
	} else if err := v.wipe(); err != nil {
		return out, err
	}
	*v.prim = verifReplPrimary{index: remoteIndex, twoSnapshots: opts.TwoSnapshots}
	for _, it := range opts.Batch {
		switch inst {
		case "token":
			v.prim.batchTokens = append(v.prim.batchTokens, verifReplToken(it))
		case "policy":
			v.prim.batchPolicies = append(v.prim.batchPolicies, verifReplPolicy(it))
		}
	}
	store := v.s.fsm.State()
	ctx := context.Background()
	logger := hclog.NewNullLogger()
	before := v.raft.LastIndex()
	defer func() { out.Writes = v.raft.LastIndex() - before }()

	switch inst {
	case "token":
		for _, it := range st {
			if err := store.ACLTokenBatchSet(it.Mod, structs.ACLTokens{verifReplToken(it)}, state.ACLTokenSetOptions{AllowMissingPolicyAndRoleIDs: true}); err != nil {
				return out, fmt.Errorf("verif: loading token %q: %w", it.ID, err)
			}
		}
		for _, it := range remote {
			v.prim.tokens = append(v.prim.tokens, verifReplToken(it))
		}
		idx, exit, err := v.s.replicateACLTokens(ctx, logger, last)
		out.RetIndex, out.Exit, out.Err = idx, exit, verifReplErr(err)
		_, toks, err := store.ACLTokenList(nil, true, true, "", "", "", nil, nil)
		if err != nil {
			return out, err
		}
		for _, t := range toks {
			out.Final = append(out.Final, VerifReplItem{ID: t.AccessorID, Mod: t.ModifyIndex, Hash: t.Hash, Body: t.Description, Local: t.Local})
		}
	case "policy":
		for _, it := range st {
			if err := store.ACLPolicyBatchSet(it.Mod, structs.ACLPolicies{verifReplPolicy(it)}); err != nil {
				return out, fmt.Errorf("verif: loading policy %q: %w", it.ID, err)
			}
		}
		for _, it := range remote {
			v.prim.policies = append(v.prim.policies, verifReplPolicy(it))
		}
		idx, exit, err := v.s.replicateACLPolicies(ctx, logger, last)
		out.RetIndex, out.Exit, out.Err = idx, exit, verifReplErr(err)
		_, pols, err := store.ACLPolicyList(nil, nil)
		if err != nil {
			return out, err
		}
		for _, p := range pols {
			out.Final = append(out.Final, VerifReplItem{ID: p.ID, Mod: p.ModifyIndex, Hash: p.Hash, Body: p.Rules})
		}
	case "role":
		for _, it := range st {
			if err := store.ACLRoleBatchSet(it.Mod, structs.ACLRoles{verifReplRole(it)}, true); err != nil {
				return out, fmt.Errorf("verif: loading role %q: %w", it.ID, err)
			}
		}
		for _, it := range remote {
			v.prim.roles = append(v.prim.roles, verifReplRole(it))
		}
		idx, exit, err := v.s.replicateACLRoles(ctx, logger, last)
		out.RetIndex, out.Exit, out.Err = idx, exit, verifReplErr(err)
		_, roles, err := store.ACLRoleList(nil, "", nil)
		if err != nil {
			return out, err
		}
		for _, r := range roles {
			out.Final = append(out.Final, VerifReplItem{ID: r.ID, Mod: r.ModifyIndex, Hash: r.Hash, Body: r.Description})
		}
	case "config":
		for _, it := range st {
			e, err := verifReplConfigEntry(it)
			if err != nil {
				return out, err
			}
			if err := store.EnsureConfigEntry(it.Mod, e); err != nil {
				return out, fmt.Errorf("verif: loading config entry %s/%s: %w", it.Kind, it.ID, err)
			}
		}
		for _, it := range remote {
			e, err := verifReplConfigEntry(it)
			if err != nil {
				return out, err
			}
			v.prim.configs = append(v.prim.configs, e)
		}
		idx, exit, err := v.s.replicateConfig(ctx, last, logger)
		out.RetIndex, out.Exit, out.Err = idx, exit, verifReplErr(err)
		_, ces, err := store.ConfigEntries(nil, nil)
		if err != nil {
			return out, err
		}
		for _, e := range ces {
			out.Final = append(out.Final, verifReplFromConfigEntry(e))
		}
	case "fed":
		for _, it := range st {
			if err := store.FederationStateSet(it.Mod, verifReplFed(it)); err != nil {
				return out, fmt.Errorf("verif: loading federation state %q: %w", it.ID, err)
			}
		}
		for _, it := range remote {
			v.prim.feds = append(v.prim.feds, verifReplFed(it))
		}
		rep := &IndexReplicator{Delegate: &FederationStateReplicator{srv: v.s}, Logger: logger}
		idx, exit, err := rep.Replicate(ctx, last, logger)
		out.RetIndex, out.Exit, out.Err = idx, exit, verifReplErr(err)
		_, feds, err := store.FederationStateList(nil)
		if err != nil {
			return out, err
		}
		for _, f := range feds {
			out.Final = append(out.Final, verifReplFromFed(f))
		}
	default:
		return out, fmt.Errorf("verif: unknown instance %q", inst)
	}
	sort.SliceStable(out.Final, func(i, j int) bool {
		a, b := out.Final[i], out.Final[j]
		if a.Kind != b.Kind {
			return a.Kind < b.Kind
		}
		return a.ID < b.ID
	})
	if out.Final == nil {
		out.Final = []VerifReplItem{}
	}
	out.Calls = v.prim.calls
	return out, nil
}

func verifReplErr(err error) string {
	if err == nil {
		return ""
	}
	return err.Error()
}
