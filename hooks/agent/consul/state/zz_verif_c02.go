//go:build verif

// Verification hook for property C02 (snapshot/restore round trip). Add-only; compiled only with
// -tags verif through the build overlay of /verif. Nothing here changes the package's behaviour.
package state

import "sort"

// VerifC02TableNames returns the names of every table of the state store's memdb schema, sorted.
// The snapshot/restore harness uses it to notice a table that holds rows in a donor store but
// never holds any after a restore (a table added without a persister/restorer pair).
func VerifC02TableNames() []string {
	db := newDBSchema()
	out := make([]string, 0, len(db.Tables))
	for name := range db.Tables {
		out = append(out, name)
	}
	sort.Strings(out)
	return out
}
