//go:build verif

// Verification hook for property C01 (replica determinism). Add-only; compiled only with
// -tags verif through the build overlay of /verif. Nothing here changes the package's behaviour.
package state

import "time"

// VerifC01SetLockDelay plants a lock-delay expiry for a key in the store's local (non-replicated)
// Delay map, as a forced session invalidation on this server would have done at wall-clock time now.
func (s *Store) VerifC01SetLockDelay(key string, now time.Time, d time.Duration) {
	s.lockDelay.SetExpiration(key, now, d, nil)
}
