//go:build verif

// Verification hook for property C01 (replica determinism). Add-only; compiled only with
// -tags verif through the build overlay of /verif. Nothing here changes the package's behaviour.
package state

import (
	"time"

	"github.com/hashicorp/consul/agent/structs"
)

// VerifC01SetLockDelay plants a lock-delay expiry for a key in the store's local (non-replicated)
// Delay map, as a forced session invalidation on this server would have done at wall-clock time now.
func (s *Store) VerifC01SetLockDelay(key string, now time.Time, d time.Duration) {
	s.lockDelay.SetExpiration(key, now, d, nil)
}

// VerifC01WriteUsageDeltas runs the unexported writeUsageDeltas (the function every committing
// transaction calls with the delta map computed from its changes) on its own, in a write transaction at
// idx, and commits it.
func (s *Store) VerifC01WriteUsageDeltas(idx uint64, deltas map[string]int) error {
	tx := s.db.WriteTxn(idx)
	defer tx.Abort()
	if err := writeUsageDeltas(tx, idx, deltas); err != nil {
		return err
	}
	return tx.Commit()
}

// VerifC01ValidateJWTProvider runs the unexported validateJWTProvider on the given sets of stored and
// referenced provider names and returns the error text ("" when there is none).
func VerifC01ValidateJWTProvider(existing, referenced []string) string {
	ex := map[string]*structs.JWTProviderConfigEntry{}
	for _, n := range existing {
		ex[n] = &structs.JWTProviderConfigEntry{Name: n}
	}
	ref := map[string]struct{}{}
	for _, n := range referenced {
		ref[n] = struct{}{}
	}
	if err := validateJWTProvider(ex, ref); err != nil {
		return err.Error()
	}
	return ""
}
