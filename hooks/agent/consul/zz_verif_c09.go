//go:build verif

// Verification hooks for property C09 (token expiry in the ACL resolver). Add-only; compiled
// only with -tags verif through the build overlay of /verif. Nothing here changes the
// behaviour of the package: the functions only read the resolver's identity cache, drop
// cached policies, and wait for an identity fetch the resolver itself started.
package consul

import (
	"fmt"
	"io"
	"sync/atomic"
	"time"

	"github.com/hashicorp/go-hclog"
	"github.com/hashicorp/raft"

	"github.com/hashicorp/consul/agent/consul/fsm"
	"github.com/hashicorp/consul/agent/consul/state"
	"github.com/hashicorp/consul/agent/structs"
	"github.com/hashicorp/consul/agent/token"
)

// VerifC09CachedIdentity returns the identity cached for the secret, if any (regardless of age).
func (r *ACLResolver) VerifC09CachedIdentity(secret string) (structs.ACLIdentity, bool) {
	e := r.cache.GetIdentityWithSecretToken(secret)
	if e == nil {
		return nil, false
	}
	return e.Identity, true
}

// VerifC09WaitIdentityFetch blocks until a background ACL.TokenRead for the secret that the
// resolver started (async-cache down policy) has finished, including its cache update.
func (r *ACLResolver) VerifC09WaitIdentityFetch(secret string) {
	_, _, _ = r.identityGroup.Do(secret, func() (interface{}, error) { return nil, nil })
}

// VerifC09ResolveRoles runs resolveTokenToIdentityAndRoles (the second copy of the retry loop with
// the expiry test, used by ACL.RoleResolve) and returns the identity it accepts.
func (r *ACLResolver) VerifC09ResolveRoles(secret string) (structs.ACLIdentity, error) {
	id, _, err := r.resolveTokenToIdentityAndRoles(secret)
	return id, err
}

// VerifC09ForgetPolicy removes a policy from the resolver's policy cache.
func (r *ACLResolver) VerifC09ForgetPolicy(id string) {
	r.cache.RemovePolicy(id)
}

// VerifC09Server is a Server reduced to what the read endpoints, Server.blockingQuery /
// blockingquery.Query, Server.SetQueryMeta (maskResultsFilteredByACLs) and Server.filterACL touch:
// the real FSM/state store, a real single-node in-memory raft, the configuration defaults, and a
// real ACLResolver with ACLs ENABLED over the backend the harness supplies.  The endpoint structs
// are the real ones (Internal.NodeDump/ServiceDump, Catalog.ListNodes/ListServices, KVS.List run
// unmodified).  Nothing here changes the behaviour of the package.
type VerifC09Server struct {
	Srv      *Server
	Internal *Internal
	Catalog  *Catalog
	KVS      *KVS
	raft     *raft.Raft
}

func VerifC09NewServer(backend ACLResolverBackend, tokenTTL time.Duration, down string) (*VerifC09Server, error) {
	logger := hclog.NewInterceptLogger(&hclog.LoggerOptions{Output: io.Discard})
	f, err := fsm.New(nil, logger)
	if err != nil {
		return nil, err
	}
	rc := raft.DefaultConfig()
	rc.LocalID = "c09"
	rc.HeartbeatTimeout = 50 * time.Millisecond
	rc.ElectionTimeout = 50 * time.Millisecond
	rc.LeaderLeaseTimeout = 50 * time.Millisecond
	rc.CommitTimeout = 5 * time.Millisecond
	rc.Logger = logger
	store := raft.NewInmemStore()
	snaps := raft.NewInmemSnapshotStore()
	addr, trans := raft.NewInmemTransport("c09")
	if err := raft.BootstrapCluster(rc, store, store, snaps, trans, raft.Configuration{
		Servers: []raft.Server{{ID: "c09", Address: addr}}}); err != nil {
		return nil, err
	}
	r, err := raft.NewRaft(rc, &raft.MockFSM{}, store, store, snaps, trans)
	if err != nil {
		return nil, err
	}
	deadline := time.Now().Add(20 * time.Second)
	for r.State() != raft.Leader {
		if time.Now().After(deadline) {
			return nil, fmt.Errorf("no raft leader")
		}
		time.Sleep(5 * time.Millisecond)
	}
	cfg := DefaultConfig()
	cfg.Datacenter = "dc1"
	cfg.PrimaryDatacenter = "dc1"
	cfg.ACLsEnabled = true
	res, err := NewACLResolver(&ACLResolverConfig{
		Config: ACLResolverSettings{ACLsEnabled: true, Datacenter: "dc1", NodeName: "c09",
			ACLPolicyTTL: 30 * time.Second, ACLTokenTTL: tokenTTL, ACLRoleTTL: 30 * time.Second,
			ACLDownPolicy: down, ACLDefaultPolicy: "deny"},
		Logger:      logger,
		CacheConfig: &structs.ACLCachesConfig{Identities: 64, Policies: 64, ParsedPolicies: 64, Authorizers: 64, Roles: 64},
		Backend:     backend,
		Tokens:      new(token.Store),
	})
	if err != nil {
		return nil, err
	}
	s := &Server{
		config:      cfg,
		fsm:         f,
		raft:        r,
		logger:      logger,
		loggers:     newLoggerStore(logger),
		leaveCh:     make(chan struct{}),
		shutdownCh:  make(chan struct{}),
		ACLResolver: res,
	}
	return &VerifC09Server{Srv: s, raft: r,
		Internal: &Internal{srv: s, logger: logger},
		Catalog:  &Catalog{srv: s, logger: logger},
		KVS:      &KVS{srv: s, logger: logger},
	}, nil
}

func (v *VerifC09Server) Store() *state.Store { return v.Srv.fsm.State() }

// Blocking is the number of queries inside blockingquery.Query's loop.
func (v *VerifC09Server) Blocking() uint64 { return atomic.LoadUint64(&v.Srv.queriesBlocking) }

func (v *VerifC09Server) Close() {
	close(v.Srv.shutdownCh)
	v.raft.Shutdown()
	v.Srv.ACLResolver.Close()
}
