//go:build verif

// Verification hooks for property C09 (token expiry in the ACL resolver). Add-only; compiled
// only with -tags verif through the build overlay of /verif. Nothing here changes the
// behaviour of the package: the functions only read the resolver's identity cache, drop
// cached policies, and wait for an identity fetch the resolver itself started.
package consul

import "github.com/hashicorp/consul/agent/structs"

// VerifC09CachedIdentity returns the identity cached for the secret, if any (regardless of age).
func (r *ACLResolver) VerifC09CachedIdentity(secret string) (structs.ACLIdentity, bool) {
	e := r.cache.GetIdentityWithSecretToken(secret)
	if e == nil {
		return nil, false
	}
	return e.Identity, true
}

// VerifC09WaitIdentityFetch blocks until a background ACL.TokenRead for the secret that the
// resolver started (async-cache down policy) has finished, including its cache update.
func (r *ACLResolver) VerifC09WaitIdentityFetch(secret string) {
	_, _, _ = r.identityGroup.Do(secret, func() (interface{}, error) { return nil, nil })
}

// VerifC09ForgetPolicy removes a policy from the resolver's policy cache.
func (r *ACLResolver) VerifC09ForgetPolicy(id string) {
	r.cache.RemovePolicy(id)
}
