//go:build verif

// Verification hooks for property C12 (Connect CA). Add-only; compiled only with -tags verif
// through the build overlay of /verif. Nothing here changes the behaviour of the package.
//
// caServerDelegate has unexported methods (forwardDC, generateCASignRequest), so a delegate for a
// real CAManager can only be written inside this package. The delegate below routes every CA
// command the manager and the built-in provider emit through a real fsm.FSM (msgpack-encoded,
// as raftApplyMsgpack does) at harness-controlled Raft indexes, and reports each command and its
// FSM response to the harness.
package consul

import (
	"crypto/x509"
	"errors"
	"fmt"

	"github.com/hashicorp/go-hclog"
	"github.com/hashicorp/raft"

	"github.com/hashicorp/consul/acl"
	"github.com/hashicorp/consul/agent/connect"
	"github.com/hashicorp/consul/agent/consul/fsm"
	"github.com/hashicorp/consul/agent/consul/state"
	"github.com/hashicorp/consul/agent/structs"
	"github.com/hashicorp/consul/proto/private/pbautoconf"
)

// VerifCADelegate implements caServerDelegate on top of a real FSM.
type VerifCADelegate struct {
	FSM  *fsm.FSM
	Conf *Config
	// NextIndex returns the Raft index the next command is applied at (strictly increasing).
	NextIndex func() uint64
	// Trace is called after every CA command: the request as decoded by the FSM would see it
	// (the original pointer: the FSM works on its own decoded copy), the index and the raw
	// FSM response (an error value when the FSM returned one).
	Trace func(idx uint64, req *structs.CARequest, resp interface{})
}

func (d *VerifCADelegate) State() *state.Store { return d.FSM.State() }

func (d *VerifCADelegate) ProviderState(id string) (*structs.CAConsulProviderState, error) {
	_, s, err := d.FSM.State().CAProviderState(id)
	return s, err
}

func (d *VerifCADelegate) IsLeader() bool { return true }

func (d *VerifCADelegate) ServersSupportMultiDCConnectCA() error { return nil }

func (d *VerifCADelegate) verifCAApply(t structs.MessageType, msg interface{}) (uint64, interface{}, error) {
	buf, err := structs.Encode(t, msg)
	if err != nil {
		return 0, nil, err
	}
	idx := d.NextIndex()
	resp := d.FSM.Apply(&raft.Log{Index: idx, Term: 1, Type: raft.LogCommand, Data: buf})
	return idx, resp, nil
}

// ApplyCARequest mirrors caDelegateWithState.ApplyCARequest + raftApplyEncoded: an error returned
// by the FSM becomes the error result.
func (d *VerifCADelegate) ApplyCARequest(req *structs.CARequest) (interface{}, error) {
	idx, resp, err := d.verifCAApply(structs.ConnectCARequestType, req)
	if err != nil {
		return nil, err
	}
	if d.Trace != nil {
		d.Trace(idx, req, resp)
	}
	if e, ok := resp.(error); ok && e != nil {
		return nil, e
	}
	return resp, nil
}

// ApplyCALeafRequest mirrors caDelegateWithState.ApplyCALeafRequest.
func (d *VerifCADelegate) ApplyCALeafRequest() (uint64, error) {
	req := structs.CALeafRequest{Op: structs.CALeafOpIncrementIndex, Datacenter: d.Conf.Datacenter}
	_, resp, err := d.verifCAApply(structs.ConnectCALeafRequestType|structs.IgnoreUnknownTypeFlag, &req)
	if err != nil {
		return 0, err
	}
	if e, ok := resp.(error); ok && e != nil {
		return 0, e
	}
	modIdx, ok := resp.(uint64)
	if !ok {
		return 0, errors.New("Invalid response from updating the leaf cert index")
	}
	return modIdx, nil
}

func (d *VerifCADelegate) forwardDC(method, dc string, args interface{}, reply interface{}) error {
	return errors.New("verif: forwardDC is not available (primary datacenter only)")
}

func (d *VerifCADelegate) generateCASignRequest(csr string) *structs.CASignRequest {
	return &structs.CASignRequest{Datacenter: d.Conf.PrimaryDatacenter, CSR: csr}
}

// VerifCANewManager builds a real CAManager (NewCAManager) on the delegate.
func VerifCANewManager(d *VerifCADelegate) *CAManager {
	return NewCAManager(d, nil, hclog.NewNullLogger(), d.Conf)
}

// VerifCAActiveRoot returns the root the manager holds in lock-step with its provider.
func VerifCAActiveRoot(c *CAManager) *structs.CARoot {
	_, r := c.getCAProvider()
	return r
}

// VerifCAParseAutoConfigCSR is parseAutoConfigCSR: what AutoConfig.InitialConfiguration does with
// the CSR of a request before jwtAuthorizer.Authorize compares id.Agent with the request's node
// name and AutoConfig.updateTLSCertificatesInConfig hands (csr, id) to CAManager.SignCertificate.
func VerifCAParseAutoConfigCSR(csr string) (*x509.CertificateRequest, *connect.SpiffeIDAgent, error) {
	return parseAutoConfigCSR(csr)
}

// ---- the auto-config entry point: the real AutoConfig.InitialConfiguration with a real CAManager behind it ----

type verifCAAutoConfigBackend struct {
	mgr *CAManager
	d   *VerifCADelegate
}

func (b *verifCAAutoConfigBackend) CreateACLToken(template *structs.ACLToken) (*structs.ACLToken, error) {
	return nil, errors.New("verif: ACLs are disabled in this configuration")
}
func (b *verifCAAutoConfigBackend) DatacenterJoinAddresses(partition, segment string) ([]string, error) {
	return nil, nil
}
func (b *verifCAAutoConfigBackend) ForwardRPC(method string, info structs.RPCInfo, reply interface{}) (bool, error) {
	return false, nil
}
func (b *verifCAAutoConfigBackend) GetCARoots() (*structs.IndexedCARoots, error) {
	_, roots, err := b.d.State().CARoots(nil)
	if err != nil {
		return nil, err
	}
	return &structs.IndexedCARoots{Roots: roots}, nil
}

// SignCertificate is autoConfigBackend.SignCertificate.
func (b *verifCAAutoConfigBackend) SignCertificate(csr *x509.CertificateRequest, id connect.CertURI) (*structs.IssuedCert, error) {
	return b.mgr.SignCertificate(csr, id)
}

// verifCAAutoConfigAuthorizer stands for jwtAuthorizer with a JWT that validates for Node: it runs
// the part of jwtAuthorizer.Authorize that follows the claim assertions (parseAutoConfigCSR and the
// comparison of the SPIFFE ID's agent name with the request's node name), copied line by line.
type verifCAAutoConfigAuthorizer struct{}

func (verifCAAutoConfigAuthorizer) Authorize(req *pbautoconf.AutoConfigRequest) (AutoConfigOptions, error) {
	opts := AutoConfigOptions{NodeName: req.Node, SegmentName: req.Segment, Partition: req.Partition}
	if req.CSR != "" {
		csr, id, err := parseAutoConfigCSR(req.CSR)
		if err != nil {
			return AutoConfigOptions{}, err
		}
		if id.Agent != req.Node || !acl.EqualPartitions(id.Partition, req.Partition) {
			return AutoConfigOptions{},
				fmt.Errorf("Spiffe ID agent name (%s) of the certificate signing request is not for the correct node (%s)",
					printNodeName(id.Agent, id.Partition),
					printNodeName(req.Node, req.Partition),
				)
		}
		opts.CSR = csr
		opts.SpiffeID = id
	}
	return opts, nil
}

// VerifCAAutoConfigSign runs AutoConfig.InitialConfiguration (the real one: datacenter test of the
// request, the updaters, updateTLSCertificatesInConfig -> SignCertificate) for a request of node
// `node` carrying the CSR, and returns the PEM of the issued certificate.
func VerifCAAutoConfigSign(mgr *CAManager, d *VerifCADelegate, node, csrPEM string) (string, error) {
	ac := NewAutoConfig(d.Conf, nil, &verifCAAutoConfigBackend{mgr: mgr, d: d}, verifCAAutoConfigAuthorizer{})
	req := &pbautoconf.AutoConfigRequest{Node: node, CSR: csrPEM}
	var resp pbautoconf.AutoConfigResponse
	if err := ac.InitialConfiguration(req, &resp); err != nil {
		return "", err
	}
	if resp.Certificate == nil {
		return "", errors.New("verif: no certificate in the auto-config response")
	}
	return resp.Certificate.CertPEM, nil
}
