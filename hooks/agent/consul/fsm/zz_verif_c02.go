//go:build verif

// Verification hook for property C02 (snapshot/restore round trip). Add-only; compiled only with
// -tags verif through the build overlay of /verif. Nothing here changes the package's behaviour.
package fsm

import (
	"sort"

	"github.com/hashicorp/consul/agent/structs"
)

// VerifC02RestorerTypes returns the keys of the unexported `restorers` registry (every record
// type FSM.Restore knows how to read back), sorted.
func VerifC02RestorerTypes() []structs.MessageType {
	out := make([]structs.MessageType, 0, len(restorers))
	for t := range restorers {
		out = append(out, t)
	}
	sort.Slice(out, func(i, j int) bool { return out[i] < out[j] })
	return out
}
