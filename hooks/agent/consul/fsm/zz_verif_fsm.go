//go:build verif

// Verification hook for property C01 (replica determinism). Add-only; compiled only with
// -tags verif through the build overlay of /verif. Nothing here changes the package's behaviour.
package fsm

import (
	"sort"

	"github.com/hashicorp/consul/agent/structs"
)

// VerifRegisteredTypes returns the keys of the unexported `commands` registry (every message type
// FSM.Apply dispatches), sorted.
func VerifRegisteredTypes() []structs.MessageType {
	out := make([]structs.MessageType, 0, len(commands))
	for t := range commands {
		out = append(out, t)
	}
	sort.Slice(out, func(i, j int) bool { return out[i] < out[j] })
	return out
}
