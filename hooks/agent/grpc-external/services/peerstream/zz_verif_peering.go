//go:build verif

// Verification hooks for property C17 (peering imports). Add-only; compiled only with
// -tags verif through the build overlay of /verif. Nothing here changes the behaviour of
// the package: the functions below only forward to the unexported handlers.
package peerstream

import (
	"time"

	"google.golang.org/protobuf/types/known/anypb"

	"github.com/hashicorp/consul/agent/structs"
	"github.com/hashicorp/consul/proto/private/pbpeerstream"
)

// VerifNewMutableStatus builds the per-stream status object the handlers update.
func VerifNewMutableStatus() *MutableStatus {
	return newMutableStatus(time.Now, true)
}

// VerifHandleUpsert forwards to (*Server).handleUpsert: the entry point of processResponse
// for an UPSERT of any resource (exported service, exported-service list, ...).
func (s *Server) VerifHandleUpsert(peerName, partition string, st *MutableStatus, resourceURL, resourceID string, resource *anypb.Any) error {
	return s.handleUpsert(peerName, partition, st, resourceURL, resourceID, resource)
}

// VerifHandleUpdateService forwards to (*Server).handleUpdateService (export == nil is the
// deletion the exported-service-list handler issues).
func (s *Server) VerifHandleUpdateService(peerName, partition string, sn structs.ServiceName, export *pbpeerstream.ExportedService) error {
	return s.handleUpdateService(peerName, partition, sn, export)
}

// VerifSyntheticProxySuffix is the suffix the exported-service-list handler protects.
const VerifSyntheticProxySuffix = syntheticProxyNameSuffix
