//go:build verif

package xds

import (
	envoy_listener_v3 "github.com/envoyproxy/go-control-plane/envoy/config/listener/v3"
	envoy_rbac_v3 "github.com/envoyproxy/go-control-plane/envoy/config/rbac/v3"
	envoy_http_v3 "github.com/envoyproxy/go-control-plane/envoy/extensions/filters/network/http_connection_manager/v3"

	"github.com/hashicorp/consul/agent/structs"
	"github.com/hashicorp/consul/proto/private/pbpeering"
)

// VerifLocalInfo mirrors the unexported rbacLocalInfo the listeners code builds from the
// config snapshot (trust domain of the roots, datacenter, partition of the proxy).
type VerifLocalInfo struct {
	TrustDomain string
	Datacenter  string
	Partition   string
}

func (l VerifLocalInfo) conv() rbacLocalInfo {
	return rbacLocalInfo{trustDomain: l.TrustDomain, datacenter: l.Datacenter, partition: l.Partition}
}

// VerifMakeRBACRules exposes the unexported intention -> Envoy RBAC translator.
func VerifMakeRBACRules(
	intentions structs.SimplifiedIntentions,
	intentionDefaultAllow bool,
	local VerifLocalInfo,
	isHTTP bool,
	peerTrustBundles []*pbpeering.PeeringTrustBundle,
) (*envoy_rbac_v3.RBAC, error) {
	return makeRBACRules(intentions, intentionDefaultAllow, local.conv(), isHTTP, peerTrustBundles, nil)
}

// VerifMakeRBACNetworkFilter exposes the network (TCP) filter builder attached by listeners.go.
func VerifMakeRBACNetworkFilter(
	intentions structs.SimplifiedIntentions,
	intentionDefaultAllow bool,
	local VerifLocalInfo,
	peerTrustBundles []*pbpeering.PeeringTrustBundle,
) (*envoy_listener_v3.Filter, error) {
	return makeRBACNetworkFilter(intentions, intentionDefaultAllow, local.conv(), peerTrustBundles)
}

// VerifMakeRBACHTTPFilter exposes the HTTP filter builder attached by listeners.go.
func VerifMakeRBACHTTPFilter(
	intentions structs.SimplifiedIntentions,
	intentionDefaultAllow bool,
	local VerifLocalInfo,
	peerTrustBundles []*pbpeering.PeeringTrustBundle,
) (*envoy_http_v3.HttpFilter, error) {
	return makeRBACHTTPFilter(intentions, intentionDefaultAllow, local.conv(), peerTrustBundles, nil)
}

// VerifIxnSourceMatches / VerifCountWild expose the two finite-domain helpers of the
// precedence-removal pass so that they can be tabulated.
func VerifIxnSourceMatches(testerName, testerPeer, againstName, againstPeer string) bool {
	return ixnSourceMatches(
		rbacService{ServiceName: structs.ServiceNameFromString(testerName), Peer: testerPeer},
		rbacService{ServiceName: structs.ServiceNameFromString(againstName), Peer: againstPeer},
	)
}

func VerifCountWild(name, peer string) int {
	return countWild(rbacService{ServiceName: structs.ServiceNameFromString(name), Peer: peer})
}
