//go:build verif

package inmem

import (
	"github.com/hashicorp/consul/agent/consul/stream"
	"github.com/hashicorp/consul/internal/storage"
	"github.com/hashicorp/consul/proto-public/pbresource"
)

// Verification hooks for property C18 (add-only, compiled only with -tags verif).

// VerifResStore exposes the Store behind the in-memory Backend.
func (b *Backend) VerifResStore() *Store { return b.store }

// VerifResPublishOne publishes exactly one queued batch of the store's EventPublisher.
func (s *Store) VerifResPublishOne() bool { return s.pub.VerifResPublishOne() }

// VerifResQueued is the number of committed but unpublished batches.
func (s *Store) VerifResQueued() int { return s.pub.VerifResQueued() }

// VerifResWatchSub exposes the stream subscription under a Watch.
func VerifResWatchSub(w *Watch) *stream.Subscription { return w.sub }

// VerifResEvictSnapshot fires the snapshot-cache TTL eviction for the subject WatchList would
// subscribe to for the given type and tenancy.
func (s *Store) VerifResEvictSnapshot(typ storage.UnversionedType, ten *pbresource.Tenancy) {
	var sub stream.Subject
	if ten.Partition == storage.Wildcard || ten.Namespace == storage.Wildcard {
		sub = wildcardSubject{typ}
	} else {
		sub = tenancySubject{typ, ten}
	}
	s.pub.VerifResEvictSnapshot(eventTopic.String(), sub.String())
}
