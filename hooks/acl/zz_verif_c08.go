//go:build verif

package acl

// Add-only verification hooks for property C08 (see /verif/DESIGN.md section 3): export the
// finite-domain helpers so that the harness can tabulate them exhaustively on every run.

func VerifTakesPrecedenceOver(a, b string) bool { return takesPrecedenceOver(a, b) }

func VerifEnforce(rule, required AccessLevel) EnforcementDecision { return enforce(rule, required) }

func VerifIsPolicyValid(policy string, allowList bool) bool { return isPolicyValid(policy, allowList) }

func VerifDefaultIsAllow(d EnforcementDecision) EnforcementDecision { return defaultIsAllow(d) }
